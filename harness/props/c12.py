"""C12 -- structured multi-line fields round-trip as records and can always be dumped.

spec:      spec/MultiValued.tla (class tables, Build / Dump / Parse / Load, width rule)
binding:   (a) CASE lines printed by TLC (class, behaviour, subset of fields, record shapes, expected
               line layout incl. width, expected sub-field names) replayed into the real classes in
               both directions: records -> dump() -> parse, and text -> parse -> dump() -> parse
               histories (dump, mutate the record lists in place / by assignment / delete a field,
               RE-ORDER the fields, dump again ...) are replayed on ONE living object with the expected
               layout of every dump
           (b) life cycles recorded from the real classes (random subsets, 1..6 records, arbitrary
               token lengths, arbitrary white space, in-place mutations and re-orderings of the fields
               before the first dump and between dumps) validated by spec/TraceMultiValued.tla
Everything that decides a verdict (expected names, layouts, widths, "dump is total") comes from TLC.

API surface (notes/API_SURFACE.md).  Every public way of performing the operations of the statement is
chosen per operation by class Api (seed 0 = primary entry points; otherwise a random one), in all three
legs R = replay of CASE lines, H = replay of histories, T = recorded traces; the verdicts are the same,
variants are mixed within one case / history (created through one, dumped through another, re-parsed
through a third; the other live objects of a history go through Api as well).  evidence: api_variants.

  operation         entry point / variant                                             legs
  ----------------  ----------------------------------------------------------------  --------
  classes           Dsc, Changes, BuildInfo, Release, PdiffIndex                      R H T
                    Sources (subclass of Dsc: Sources(text), Sources.iter_paragraphs) R H T (for Dsc cases)
  parse             cls(str) / cls(bytes)                                             R H T
                    cls(list of lines without / with newlines, list of bytes lines)   R H T
                    cls(generator of lines)                                           R H T
                    cls(text file StringIO) / cls(binary file BytesIO)                R H T
                    cls(sequence=...) keyword                                         R H T
                    cls(text, fields) positional / fields= keyword (all fields named) R H T
                    cls(text, None, None, "utf-8", strict) positional / strict= kw    R H T
                    cls(bytes, encoding="utf-8")                                      R H T
                    cls(mapping): Deb822 object / plain dict with RAW TEXT values     R H T
                    cls(mapping) with RECORD LISTS                                     R (probe on a rotating sample; fixed e5df170)
                    cls.iter_paragraphs(str / bytes / binary file / text file /       R H T (2 paragraphs, the first is used,
                      list of lines), all-keyword call, use_apt_pkg=False               the count and the class are checked)
                    iter_paragraphs(use_apt_pkg=True) with python-apt                 out: apt_pkg is not installed here
                    file NAME as input                                                out: not accepted by the constructors
                    encoding other than utf-8                                         out: tokens are arbitrary Unicode
                    GPG-signed input (_gpg_multivalued)                               out: C02's statement (signature stripping)
  build             obj[f] = [dict, ...] / [Deb822Dict, ...]                          R H T
                    obj.update({f: recs}) / update(**{f: recs}) / update([(f, recs)]) R H T
                    obj.setdefault(f, recs)                                           R H T
                    obj[f].append(rec), obj[f][r]['size'] = s, del obj[f]             H T
                    obj[f] = "raw text"                                               out: not a record list (today dump() raises
                                                                                      TypeError; reported as an observation)
  re-order          obj.sort_fields() / sort_fields(None) / sort_fields(key=None)        H T (action Reorder of the model: changes
  (between            sort_fields(fn) / sort_fields(key=fn), fn from SORT_KEYS (str.lower,   neither records nor option nor the case-
   building /         len, table look-ups by lower-case / given name, tuples, constant)     insensitivity of the key set; before the
   parsing and      obj.order_first(f) / order_last(f) positional and field= keyword        first dump and between dumps, followed by
   dumping)         obj.order_before(f, g) / order_after(f, g) positional and keyword,      copy / pickle on a sample; the ORDER of the
                      f / g = a structured field or another field of the paragraph          fields in the dump is C09's subject: never
                                                                                      a verdict here)
  refused calls     order_before(f, g) / order_after(f, g) with g ABSENT (an optional structured   H T (action Refused of the model: the caller
  (error paths;       field the paragraph lacks, or an unknown name), f absent, both absent,        catches whatever comes out and carries on;
   SIZE_STRESS        f = g; order_first / order_last(absent); del obj[absent]; obj[absent],         the step changes NOTHING -- records, option,
   part 5)            obj[absent].append(rec)   -- positional / keyword, any spelling                 look-ups, the set of fields a dump writes
                    sort_fields(key) with a key function that RAISES (CallerFault, OSError,          (KeysListed, RefusedIsAtomic); ordinary steps
                      ValueError, KeyError) or returns a key NOT COMPARABLE with the others for      of the histories (mode "refuse": before the
                      one field: at the first, a middle, the last call                               first dump and between dumps, followed by a
                    dump(fd) with fd.write raising at the first / a middle / the last write          dump, the re-parse of the dump and further
                      (binary and text_mode), a closed file, a read-only file, a bytes fd with      edits) and of the recorded traces; the outcome
                      text_mode=True                                                                of the refused call itself is never a verdict;
                    cls(generator / file object that raises after k lines),                          evidence: refused_calls, traces_with_refused_
                      cls.iter_paragraphs(such a file), cls(file cut at a line / inside a            calls)
                      multi-byte character): ANOTHER paragraph fails to be made in the same
                      process; the living one and the next parse must not notice
                    obj.update(pairs that raise half-way)                              out: dict.update itself is not atomic
                    obj[f] = iterable that raises                                      out: the value is stored, not iterated
                    fd.write returning a short count                                   out: dump() ignores the count (caller's file)
  look-ups          every access of a history / trace (f in obj, obj[f], del obj[f],  H T (the model is abstract in the spelling:
                      obj[f].append, order_*(f)) spells the field name as documented,      look-ups fold case; the class itself asks
                      in lower case or in upper case, whatever spelling it was stored in   with lower-case keys: Visible / KeysFold)
  option            obj.size_field_behavior = v / obj.set_size_field_behavior(v)      R H T (legal and rejected values)
  same object via   copy.copy / copy.deepcopy / pickle round trip (since 794ff51)     R H T (before a dump, between history steps)
                    obj.copy() / cls(obj) (since e5df170; shallow like dict.copy(),    R H T (the option is assigned again: whether a
                      sharing of the record lists with the source is never a verdict)   copy carries size_field_behavior is unspecified)
  dump              obj.dump() / str(obj) / bytes(obj) / obj.__unicode__()            R H T
                    dump(fd, None, True) / dump(fd=fd, text_mode=True) (text file)    R H T
                    dump(fd) / dump(fd, "utf-8") / dump(fd=, encoding=, text_mode=)   R H T (binary file)
                    get_as_string(f) for every structured field                       R H T
                    dump(text fd) without text_mode                                   out: documented to need text_mode=True
  file objects      parse: cls(fo) / cls.iter_paragraphs(fo) with fo = BytesIO, StringIO,   R H T (FILE_KINDS_IN / FILE_KINDS_OUT, rotating;
  (SIZE_STRESS        real file rb / rb unbuffered / text, BufferedReader and TextIOWrapper    every kind in every run: evidence
   part 4)            over a raw stream with SHORT reads (1..7 bytes), GzipFile (by name,      file_object_kinds)
                      by fileobj, text mode), BZ2File, LZMAFile, SpooledTemporaryFile
                      (binary / text), generator of byte lines
                    dump(fd): BytesIO, StringIO, real file wb / wb unbuffered / wt,
                      BufferedWriter / TextIOWrapper over a raw sink with SHORT writes,
                      GzipFile, gzip text, BZ2File, LZMAFile, SpooledTemporaryFile
  alignment         a line end exactly at / one before / one after byte offset 2**k        R T (aligned cases: the same abstract case,
  (part 4)            (k = 9..17) inside a structured value, between two fields, at the     offsets steered by a padded context field
                      very end (= before the paragraph separator of iter_paragraphs)        or a lengthened first token; parse and dump
                                                                                      forced through file objects; evidence
                                                                                      aligned_cases, traces_aligned)
  size tokens       lengths 1..18 (every pair), 19, 20, 25 and -- reaching and exceeding every       R T (H: a size of 40 appended / put in place
  (the width          documented width -- 15/16, 17/15, 40, 80/3, 3/80, 16/40, 17/80, 64/17, 65/1,       in the quick histories of Dsc, Release/apt,
   clause)            1/81, 33/32, 40/40 (same record twice) in every class x behaviour x field;         Release/dak); a Release/apt-ftparchive size
                      recorded traces: 14..128 around 16 / 64 / 80, in-place growth to 17..80            LONGER than 16 is a verdict: written in full
                                                                                      after one blank (evidence sizes_beyond_width)
  not operations of the statement: isSingleLine / isMultiLine / mergeFields (deprecated aliases of
  helpers that do not touch structured fields), get_gpg_info, the relation / version mixins.
"""
import json
import os
import re
import string
import threading

import core

MANIFEST = dict(
    technique="TLA+ spec (MultiValued: class tables, Build/Dump/Parse/Load, width rule) model-checked by TLC over every subset of every class's structured fields; CASE lines replayed into Dsc/Changes/BuildInfo/PdiffIndex/Release in both directions; recorded life cycles validated by TLC (TraceMultiValued)",
    text="TLC explores, to a fixed point, every class x Release.size_field_behavior x EVERY subset of the class's structured fields (PdiffIndex: 2^14) x record lists of <= 2 records (sizes of 1..18 characters and of 19, 20, 25, 33, 40, 64, 65, 80, 81: below, at and beyond every documented width, single-line form included) and checks DumpTotal, RecordsRoundTrip, SubFieldNames and the width rule (16, or the longest size of the field; a size LONGER than the 16 of apt-ftparchive is written in full directly after its separator, the other lines of the field stay padded to 16); the life cycle is a history: after a dump a record may be appended or a size replaced in place, a list re-assigned, a field deleted, and every later dump is checked against the current records; records are positions (identical records stay independent, also in parsed paragraphs), size_field_behavior is state of one object (other live objects are interleaved, a fresh Release is at the default); the public re-ordering operations of the paragraph (sort_fields with the default key or a key function, order_first/last/before/after) are an action of the model that may occur before the first dump and between dumps and changes neither records nor option nor the case-insensitivity of the key set (the class's own lower-case look-ups, obj[f], del obj[f], f in obj in any spelling keep finding every present field: KeysFold); calls on the living object that are REFUSED (order_before/order_after relative to an absent optional field, an absent item or itself, order_first/last, del, [] of an absent field) or fail through an object the caller supplies (a key function that raises or returns incomparable keys, a file object whose write() raises at the k-th call, a file / iterator of lines that raises or ends early while another paragraph is made) are an action of the model too (Refused: nothing changes, in particular every present field is still written by the next dump -- KeysListed, RefusedIsAtomic) and occur before the first dump and between dumps; spec-level negative controls (IterateAllFields = the pre-78e977a KeyError, CacheWidths, SharedEqualRecords, ClassLevelOption, StoreBeforeValidate, ReorderStoresPlainKeys, RefusedUnlinksFirst, SplitEverySpace) must make TLC report a violation. Each explored paragraph is printed as a CASE line with the expected layout and replayed with concretized tokens: build from records -> dump() -> parse, and parse the expected text -> dump() -> parse; recorded life cycles with up to 6 records, arbitrary token lengths and white space are validated by TLC against the same actions.",
    note="Sub-field tables are transcribed from the module docstring (BuildInfo is not listed there: taken from deb-buildinfo(5)/the class). Unspecified: Release/dak with a single-line field (TypeError today). The width is a minimum width: a Release/apt-ftparchive size longer than 16 is a verdict too (no padding for it, 16 for the others; since round 7). Separator blanks other than the size padding are diagnostic. Quick tier replays a seed-dependent 1/24 sample of the PdiffIndex subsets (all are model-checked), thorough replays every subset. Trusted: TLC, the layout projection (regex over dump()), the concretizer.",
    design="5 (C12)")

WORKERS = min(8, core.NCPU, int(os.environ.get("VERIF_MAX_WORKERS") or 8))
HASHES = {"md5sum", "md5", "sha1", "sha256", "sha512"}
FREE = string.ascii_letters + string.digits + ":/~+._-"
ALNUM = string.ascii_letters + string.digits


# ------------------------------------------------------------------ real classes

def get_class(name):
    import debian.deb822 as m
    return getattr(m, name)


def new_obj(cname, beh, *args):
    """construct; returns (obj, None) or (None, message) -- an exception is an observation"""
    try:
        o = get_class(cname)(*args)
        if cname == "Release" and beh not in ("-", "default"):
            o.size_field_behavior = beh
        return o, None
    except Exception as e:
        return None, "%s(...) raised %s: %s" % (cname, type(e).__name__, e)


def do_dump(obj):
    try:
        t = obj.dump()
        if not isinstance(t, str):
            return None, "EXC:dump() returned %s" % type(t).__name__
        return t, "ok"
    except Exception as e:
        return None, "EXC:%s: %s" % (type(e).__name__, e)


API_COUNTS = {}      # entry point / variant -> number of uses in this run (evidence: api_variants)

PARSE_ONE = ["str", "lines", "StringIO", "bytes", "BytesIO", "lines_nl", "bytes_lines", "generator",
             "kw_sequence", "fields_pos", "fields_kw", "strict_pos", "strict_kw", "encoding_kw",
             "mapping_deb822", "mapping_dict", "fileobj"]
PARSE_ITER = ["iter_str", "iter_bytes", "iter_file", "iter_textfile", "iter_lines", "iter_kw", "iter_fileobj", "subclass", "subclass_iter"]
PARSE_VARIANTS = PARSE_ONE + PARSE_ITER
PARSE_FILES = ["StringIO", "BytesIO", "fileobj", "fileobj", "fileobj", "iter_file", "iter_textfile", "iter_fileobj", "iter_fileobj"]
BUILD_VARIANTS = ["setitem", "setitem_deb822dict", "update_dict", "update_kw", "update_pairs", "setdefault"]
DUMP_VARIANTS = ["dump", "str", "bytes", "unicode", "fd_text", "fd_text_kw", "fd_bin", "fd_bin_enc", "fd_kw", "get_as_string", "fd_fileobj"]
DUMP_FILES = ["fd_text", "fd_bin", "fd_kw", "fd_fileobj", "fd_fileobj", "fd_fileobj"]
REORDER_KINDS = ["sort", "sortkey", "first", "last", "before", "after"]
# calls on the living object that are REFUSED / fail through a caller-supplied object (action Refused of the model)
REFUSED_KINDS = ["before", "after", "first", "last", "delete", "getitem", "sortkey", "dumpfault", "parsefault"]
NOFIELD = 99         # the model's name for "an absent field outside the tables"
ABSENT_NAMES = ["X-No-Such-Field", "Checksums-Sha3", "SHA3-512", "x-absent"]
REFUSED_COUNTS = {}  # "kind -> outcome" -> number (evidence: refused_calls)


class CallerFault(Exception):
    """the private exception of a caller-supplied object (key function, file object, iterator of lines)"""


FAULT_EXCS = [CallerFault, OSError, ValueError, KeyError]
# kinds of file objects (notes/SIZE_STRESS.md part 4); "b" = yields / takes bytes, "t" = text
FILE_KINDS_IN = ["BytesIO", "StringIO", "file_rb", "file_rb_unbuffered", "file_rt", "shortreads", "shortreads_text",
                 "gzip", "gzip_text", "gzip_fileobj", "bz2", "lzma", "spooled_b", "spooled_t", "line_generator"]
FILE_KINDS_OUT = ["BytesIO", "StringIO", "file_wb", "file_wb_unbuffered", "file_wt", "shortwrites", "shortwrites_text",
                  "gzip", "gzip_text", "bz2", "lzma", "spooled_b", "spooled_t"]
WORK = [None]        # scratch directory for real files (ctx.work; set by run() / replay())
_ORDER = {"origin": 1, "source": 2, "format": 3, "files": 4, "md5sum": 5, "sha256": 6, "sha1-history": 7, "SHA1-Patches": 8, "MD5Sum": 9}
# key functions for sort_fields(key): total on any field name, results mutually comparable
SORT_KEYS = [("str.lower", str.lower), ("lambda lower()", lambda n: n.lower()), ("len", len), ("reversed", lambda n: n.lower()[::-1]),
             ("table.get(lower)", lambda n: _ORDER.get(n.lower(), 99)), ("table.get(name)", lambda n: _ORDER.get(n, 99)),
             ("table.get(str(name))", lambda n: _ORDER.get(str(n), 99)), ("tuple", lambda n: (len(n) % 3, n.upper())),
             ("constant", lambda n: 0), ("casefold", lambda n: str(n).casefold())]


def workdir():
    import tempfile
    if not WORK[0] or not os.path.isdir(WORK[0]):
        WORK[0] = tempfile.mkdtemp(prefix="c12-files-")
    return WORK[0]


def _scratch(suffix=""):
    import tempfile
    fd, path = tempfile.mkstemp(prefix="c12-", suffix=suffix, dir=workdir())
    os.close(fd)
    return path


def _short_raw(data, seed):
    """a raw stream that returns SHORT reads (1..7 bytes per call)"""
    import io
    import random

    class ShortRaw(io.RawIOBase):
        def __init__(self):
            self.pos, self.rng = 0, random.Random(seed)

        def readable(self):
            return True

        def readinto(self, b):
            n = min(len(b), self.rng.randint(1, 7), len(data) - self.pos)
            b[:n] = data[self.pos:self.pos + n]
            self.pos += n
            return n
    return ShortRaw()


def _short_sink(seed):
    """a raw stream that accepts SHORT writes (1..7 bytes per call); .data = what arrived"""
    import io
    import random

    class ShortSink(io.RawIOBase):
        def __init__(self):
            self.data, self.rng = bytearray(), random.Random(seed)

        def writable(self):
            return True

        def write(self, b):
            n = min(len(b), self.rng.randint(1, 7))
            self.data += bytes(b[:n])
            return n
    return ShortSink()


def open_input(kind, text, seed=0):
    """(file object yielding the lines of `text`, closer).  The content is the same for every kind."""
    import bz2
    import gzip
    import io
    import lzma
    import tempfile
    data = text.encode("utf-8")
    paths, objs = [], []

    def closer():
        for o in objs:
            try:
                o.close()
            except Exception:
                pass
        for q in paths:
            try:
                os.unlink(q)
            except OSError:
                pass
    if kind == "BytesIO":
        return io.BytesIO(data), closer
    if kind == "StringIO":
        return io.StringIO(text), closer
    if kind in ("file_rb", "file_rb_unbuffered", "file_rt"):
        path = _scratch()
        paths.append(path)
        with open(path, "wb") as f:
            f.write(data)
        fo = open(path, "rb") if kind == "file_rb" else (open(path, "rb", buffering=0) if kind == "file_rb_unbuffered"
                                                       else open(path, "r", encoding="utf-8", newline="\n"))
        objs.append(fo)
        return fo, closer
    if kind in ("shortreads", "shortreads_text"):
        fo = io.BufferedReader(_short_raw(data, seed))
        if kind == "shortreads_text":
            fo = io.TextIOWrapper(fo, encoding="utf-8", newline="\n")
        objs.append(fo)
        return fo, closer
    if kind in ("gzip", "gzip_text", "gzip_fileobj", "bz2", "lzma"):
        comp = {"gzip": gzip.compress, "gzip_text": gzip.compress, "gzip_fileobj": gzip.compress, "bz2": bz2.compress, "lzma": lzma.compress}[kind](data)
        if kind == "gzip_fileobj":
            fo = gzip.GzipFile(fileobj=io.BytesIO(comp))
        else:
            path = _scratch("." + kind[:4])
            paths.append(path)
            with open(path, "wb") as f:
                f.write(comp)
            fo = (gzip.GzipFile(path) if kind == "gzip" else gzip.open(path, "rt", encoding="utf-8", newline="\n") if kind == "gzip_text"
                  else bz2.BZ2File(path) if kind == "bz2" else lzma.LZMAFile(path))
        objs.append(fo)
        return fo, closer
    if kind in ("spooled_b", "spooled_t"):
        if kind == "spooled_b":
            fo = tempfile.SpooledTemporaryFile(max_size=4096, mode="w+b", dir=workdir())
            fo.write(data)
        else:
            fo = tempfile.SpooledTemporaryFile(max_size=4096, mode="w+", encoding="utf-8", newline="\n", dir=workdir())
            fo.write(text)
        fo.seek(0)
        objs.append(fo)
        return fo, closer
    if kind == "line_generator":
        return (ln for ln in data.splitlines(True)), closer
    raise core.MachineryError("unknown input file kind %r" % kind)


def open_output(kind, seed=0):
    """(file object, text mode?, finish) -- finish() closes it and returns the text that was written"""
    import bz2
    import gzip
    import io
    import lzma
    import tempfile
    if kind == "BytesIO":
        fo = io.BytesIO()
        return fo, False, lambda: fo.getvalue().decode("utf-8")
    if kind == "StringIO":
        fo = io.StringIO()
        return fo, True, fo.getvalue
    if kind in ("shortwrites", "shortwrites_text"):
        sink = _short_sink(seed)
        fo = io.BufferedWriter(sink, buffer_size=64)
        if kind == "shortwrites_text":
            fo = io.TextIOWrapper(fo, encoding="utf-8", newline="\n")

        def fin():
            fo.flush()
            return bytes(sink.data).decode("utf-8")
        return fo, kind == "shortwrites_text", fin
    if kind in ("spooled_b", "spooled_t"):
        fo = (tempfile.SpooledTemporaryFile(max_size=4096, mode="w+b", dir=workdir()) if kind == "spooled_b"
              else tempfile.SpooledTemporaryFile(max_size=4096, mode="w+", encoding="utf-8", newline="\n", dir=workdir()))

        def fin():
            fo.seek(0)
            t = fo.read()
            fo.close()
            return t if isinstance(t, str) else t.decode("utf-8")
        return fo, kind == "spooled_t", fin
    path = _scratch()
    opener = {"file_wb": lambda: open(path, "wb"), "file_wb_unbuffered": lambda: open(path, "wb", buffering=0),
              "file_wt": lambda: open(path, "w", encoding="utf-8", newline="\n"),
              "gzip": lambda: gzip.GzipFile(path, "wb"), "gzip_text": lambda: gzip.open(path, "wt", encoding="utf-8", newline="\n"),
              "bz2": lambda: bz2.BZ2File(path, "wb"), "lzma": lambda: lzma.LZMAFile(path, "wb")}.get(kind)
    if opener is None:
        raise core.MachineryError("unknown output file kind %r" % kind)
    fo = opener()
    reader = {"gzip": gzip.open, "gzip_text": gzip.open, "bz2": bz2.open, "lzma": lzma.open}.get(kind, open)

    def fin():
        fo.close()
        try:
            with reader(path, "rb") as f:
                return f.read().decode("utf-8")
        finally:
            os.unlink(path)
    return fo, kind in ("file_wt", "gzip_text"), fin
XFORM_VARIANTS = ["none", "none", "none", "copy.copy", "deepcopy", "pickle", "copy()", "cls(obj)"]
_HEAD = re.compile(r"(?m)^([^:\s]+):")


class Api:
    """chooses, per operation, one of the public entry points through which the operation of the
    statement can be performed (module docstring: API surface).  seed 0 = the primary entry points
    (cls(str), obj[f] = records, obj.dump()); any other seed = a rotating random choice.  All
    variants are judged by the same verdicts (the expectation comes from the same abstract case)."""

    def __init__(self, seed, files=False):
        import random
        self.primary = not seed
        self.rng = random.Random(seed)
        self.files = files          # aligned cases: every parse / dump goes through a file object

    def spell(self, name):
        """a field name in one of its spellings (documented / lower / upper case): look-ups are
        case-insensitive, the model is abstract in the spelling"""
        return name if self.primary else SPELL[self.rng.randrange(3)](name)

    def pick(self, kind, options):
        v = options[0] if self.primary else self.rng.choice(options)
        API_COUNTS["%s:%s" % (kind, v)] = API_COUNTS.get("%s:%s" % (kind, v), 0) + 1
        return v

    # ---- text -> object
    def parse(self, cname, beh, text, allow_iter=True):
        """(obj, None) or (None, message)"""
        import io
        import warnings
        opts = PARSE_VARIANTS if (allow_iter and text.strip()) else PARSE_ONE
        if self.files:
            opts = [o for o in PARSE_FILES if o in opts]
        if cname != "Dsc":
            opts = [o for o in opts if not o.startswith("subclass")]
        v = self.pick("parse", opts)
        cls = get_class("Sources" if v.startswith("subclass") else cname)
        two = text + "\nOther-Paragraph: 1\n"
        closer = None
        try:
            with warnings.catch_warnings():
                warnings.simplefilter("ignore")
                if v in ("str", "subclass"):
                    o = cls(text)
                elif v == "lines":
                    o = cls(text.splitlines())
                elif v == "StringIO":
                    o = cls(io.StringIO(text))
                elif v == "bytes":
                    o = cls(text.encode("utf-8"))
                elif v == "BytesIO":
                    o = cls(io.BytesIO(text.encode("utf-8")))
                elif v == "lines_nl":
                    o = cls(text.splitlines(True))
                elif v == "bytes_lines":
                    o = cls(text.encode("utf-8").splitlines(True))
                elif v == "generator":
                    o = cls(line for line in text.splitlines())
                elif v == "kw_sequence":
                    o = cls(sequence=text)
                elif v == "fields_pos":
                    o = cls(text, _HEAD.findall(text))
                elif v == "fields_kw":
                    o = cls(text, fields=_HEAD.findall(text))
                elif v == "strict_pos":
                    o = cls(text, None, None, "utf-8", {"whitespace-separates-paragraphs": False})
                elif v == "strict_kw":
                    o = cls(text, strict={"whitespace-separates-paragraphs": True})
                elif v == "encoding_kw":
                    o = cls(text.encode("utf-8"), encoding="utf-8")
                elif v == "mapping_deb822":
                    o = cls(get_class("Deb822")(text))
                elif v == "mapping_dict":
                    o = cls(dict(get_class("Deb822")(text).items()))
                elif v == "fileobj":
                    fo, closer = open_input(self.pick("fkind_in", FILE_KINDS_IN), text, self.rng.randrange(1 << 30))
                    o = cls(fo)
                else:
                    if v in ("iter_str", "subclass_iter"):
                        it = cls.iter_paragraphs(two, use_apt_pkg=False) if v == "subclass_iter" else cls.iter_paragraphs(two)
                    elif v == "iter_bytes":
                        it = cls.iter_paragraphs(two.encode("utf-8"))
                    elif v == "iter_file":
                        it = cls.iter_paragraphs(io.BytesIO(two.encode("utf-8")))
                    elif v == "iter_textfile":
                        it = cls.iter_paragraphs(io.StringIO(two))
                    elif v == "iter_lines":
                        it = cls.iter_paragraphs(two.splitlines())
                    elif v == "iter_fileobj":
                        fo, closer = open_input(self.pick("fkind_in", FILE_KINDS_IN), two, self.rng.randrange(1 << 30))
                        it = cls.iter_paragraphs(fo)
                    else:
                        it = cls.iter_paragraphs(sequence=two, fields=None, use_apt_pkg=False, encoding="utf-8", strict=None)
                    ps = list(it)
                    if len(ps) != 2:
                        return None, "%s.iter_paragraphs [%s] yielded %d paragraphs for 2" % (cls.__name__, v, len(ps))
                    o = ps[0]
                    if type(o) is not cls:
                        return None, "%s.iter_paragraphs [%s] yielded a %s" % (cls.__name__, v, type(o).__name__)
            if cname == "Release" and beh not in ("-", "default"):
                self.setbeh(o, beh)
            return o, None
        except core.MachineryError:
            raise
        except Exception as e:
            return None, "%s [%s] raised %s: %s" % (cls.__name__, v, type(e).__name__, e)
        finally:
            if closer:
                closer()

    # ---- records -> field of an object
    def build(self, obj, name, recs):
        v = self.pick("build", BUILD_VARIANTS)
        if v == "setitem":
            obj[name] = recs
        elif v == "setitem_deb822dict":
            from debian.deb822 import Deb822Dict
            obj[name] = [Deb822Dict(r) for r in recs]
        elif v == "update_dict":
            obj.update({name: recs})
        elif v == "update_kw":
            obj.update(**{name: recs})
        elif v == "update_pairs":
            obj.update([(name, recs)])
        else:
            if name in obj:
                del obj[name]
            obj.setdefault(name, recs)

    # ---- the ORDER of the fields (public re-ordering operations of the mapping)
    def context_field(self, obj, lnames):
        """a field outside the class's tables (added if the paragraph has none)"""
        ks = [k for k in obj.keys() if k.lower() not in lnames]
        if not ks:
            obj["Origin"] = "Debian"
            ks = ["Origin"]
        return self.rng.choice(ks) if not self.primary else ks[0]

    def reorder(self, obj, kind, fname, gname):
        """sort_fields() / sort_fields(key) / order_first / order_last / order_before / order_after through
        their calling conventions; returns a description"""
        v = self.pick("reorder", [kind])
        if kind == "sort":
            how = self.pick("reorder_call", ["sort_fields()", "sort_fields(None)", "sort_fields(key=None)"])
            if how == "sort_fields()":
                obj.sort_fields()
            elif how == "sort_fields(None)":
                obj.sort_fields(None)
            else:
                obj.sort_fields(key=None)
            return how
        if kind == "sortkey":
            name, fn = SORT_KEYS[0] if self.primary else self.rng.choice(SORT_KEYS)
            if self.pick("reorder_call", ["sort_fields(key=fn)", "sort_fields(fn)"]) == "sort_fields(fn)":
                obj.sort_fields(fn)
            else:
                obj.sort_fields(key=fn)
            return "sort_fields(%s)" % name
        f, g = self.spell(fname), (self.spell(gname) if gname is not None else None)
        kw = self.pick("reorder_call", ["positional", "keyword"]) == "keyword"
        if kind in ("first", "last"):
            m = obj.order_first if kind == "first" else obj.order_last
            m(field=f) if kw else m(f)
            return "order_%s(%r)" % (kind, f)
        m = obj.order_before if kind == "before" else obj.order_after
        m(field=f, reference_field=g) if kw else m(f, g)
        return "order_%s(%r, %r)" % (v, f, g)

    # ---- calls the object REFUSES, and calls that fail through an object the caller supplies
    def absent_name(self, obj):
        """the name of a field outside the tables that the paragraph does not have"""
        names = [n for n in ABSENT_NAMES if n not in obj] or ["X-Absent-Field-%d" % len(list(obj.keys()))]
        return names[0] if self.primary else self.rng.choice(names)

    def fault_at(self, n):
        """the call (1-based) at which a caller-supplied object faults: the first, a middle or the last of n"""
        where = self.pick("fault_at", ["first", "middle", "last"])
        return max(1, {"first": 1, "middle": (n + 1) // 2, "last": n}[where])

    def fault_exc(self):
        return FAULT_EXCS[0] if self.primary else self.rng.choice(FAULT_EXCS)

    def refused(self, *args):
        import warnings
        with warnings.catch_warnings():
            warnings.simplefilter("ignore")       # (e.g. the UnicodeWarning of a source that ends inside a character)
            return self._refused(*args)

    def _refused(self, obj, kind, fname, gname, lnames, cname):
        """one refused call on the living object `obj` (module docstring: refused calls).  The caller catches
        whatever comes out and carries on; the outcome of the call itself is never a verdict (the model's step
        changes nothing, and so does a re-ordering that happens to be accepted).  Returns a description."""
        import io
        self.pick("refused", [kind])
        how = kind
        try:
            if kind in ("before", "after", "first", "last"):
                how = "order_%s(%s)" % (kind, ", ".join(repr(x) for x in (fname, gname) if x is not None))
                self.reorder(obj, kind, fname, gname)
            elif kind == "delete":
                f = self.spell(fname)
                how = "del obj[%r]" % f
                del obj[f]
            elif kind == "getitem":
                f = self.spell(fname)
                v = self.pick("refused_getitem", ["obj[f]", "obj[f].append(rec)", "obj.pop(f)-like: del after get"])
                how = "%s with f=%r" % (v, f)
                if v == "obj[f]":
                    obj[f]
                elif v == "obj[f].append(rec)":
                    obj[f].append({"size": "1"})
                else:
                    obj[f]
                    del obj[f]
            elif kind == "sortkey":
                mode = self.pick("fault_key", ["raises", "incomparable"])
                at, exc, calls = self.fault_at(len(list(obj.keys()))), self.fault_exc(), [0]

                def fn(name):
                    calls[0] += 1
                    if calls[0] == at:
                        if mode == "raises":
                            raise exc("the caller's key function fails for %r" % (name,))
                        return None                 # not comparable with the str keys of the other fields
                    return str(name).lower()
                how = "sort_fields(key %s at call %d)" % (mode if mode != "raises" else "raises " + exc.__name__, at)
                if self.pick("reorder_call", ["sort_fields(key=fn)", "sort_fields(fn)"]) == "sort_fields(fn)":
                    obj.sort_fields(fn)
                else:
                    obj.sort_fields(key=fn)
            elif kind == "dumpfault":
                v = self.pick("fault_fd", ["write raises (binary)", "write raises (text)", "closed file", "read-only file", "bytes fd, text_mode=True"])
                how = "dump(fd: %s)" % v
                if v.startswith("write raises"):
                    textmode = v.endswith("(text)")

                    class Fd:
                        def __init__(self, at=0, exc=None):
                            self.n, self.at, self.exc = 0, at, exc

                        def write(self, data):
                            self.n += 1
                            if self.n == self.at:
                                raise self.exc("the caller's file object fails at write() number %d" % self.n)
                            return len(data)
                    cnt = Fd()
                    obj.dump(cnt, text_mode=True) if textmode else obj.dump(cnt)
                    at, exc = self.fault_at(cnt.n), self.fault_exc()
                    how = "dump(fd: write() number %d of %d raises %s, %s)" % (at, cnt.n, exc.__name__, "text" if textmode else "binary")
                    obj.dump(Fd(at, exc), text_mode=True) if textmode else obj.dump(fd=Fd(at, exc))
                elif v == "closed file":
                    fd = io.BytesIO()
                    fd.close()
                    obj.dump(fd)
                elif v == "read-only file":
                    fo, closer = open_input("file_rb", "x\n")
                    try:
                        obj.dump(fo)
                    finally:
                        closer()
                else:
                    obj.dump(io.BytesIO(), text_mode=True)
            elif kind == "parsefault":
                text, res = do_dump(obj)
                if res != "ok" or not text.strip():
                    text = "Origin: Debian\nSource: hello\n"
                cls = get_class(cname)
                data = text.encode("utf-8")
                lines = data.splitlines(True)
                v = self.pick("fault_src", ["generator raises", "file raises", "iter_paragraphs(file raises)", "early EOF", "cut inside a character"])
                at, exc = self.fault_at(len(lines)), self.fault_exc()
                how = "%s(%s at line %d of %d)" % (cname, v, at, len(lines))
                if v == "generator raises":
                    def gen():
                        for i, ln in enumerate(lines, 1):
                            if i == at:
                                raise exc("the caller's iterator fails at line %d" % i)
                            yield ln
                    cls(gen())
                elif v in ("file raises", "iter_paragraphs(file raises)"):
                    class Fo(io.BytesIO):
                        n = 0

                        def _tick(self):
                            self.n += 1
                            if self.n == at:
                                raise exc("the caller's file object fails at line %d" % self.n)

                        def __next__(self):
                            self._tick()
                            return io.BytesIO.__next__(self)

                        def readline(self, *a):
                            self._tick()
                            return io.BytesIO.readline(self, *a)

                        def read(self, *a):
                            self._tick()
                            return io.BytesIO.read(self, *a)
                    if v == "file raises":
                        cls(Fo(data))
                    else:
                        list(cls.iter_paragraphs(Fo(data + b"\nOther-Paragraph: 1\n"), use_apt_pkg=False))
                elif v == "early EOF":
                    cut = sum(len(ln) for ln in lines[:at]) - (0 if self.primary else self.rng.randrange(3))
                    cls(io.BytesIO(data[:max(0, cut)]))
                else:
                    # "Origin: D" = 9 bytes, U+00E9 = bytes 9..10, "bian " = 11..15, U+4E2D = bytes 16..18
                    cls(io.BytesIO(("Origin: D\u00e9bian \u4e2d\u6587\n".encode("utf-8") + data)[:(10, 17, 18)[at % 3]]))
            else:
                raise core.MachineryError("unknown refused call %r" % kind)
            out = "accepted"
        except core.MachineryError:
            raise
        except Exception as e:
            out = type(e).__name__
        key = "%s -> %s" % (kind, out)
        REFUSED_COUNTS[key] = REFUSED_COUNTS.get(key, 0) + 1
        return "%s -> %s" % (how, out)

    def setbeh(self, obj, v):
        if self.pick("setbeh", ["property", "set_size_field_behavior"]) == "property":
            obj.size_field_behavior = v
        else:
            obj.set_size_field_behavior(v)

    # ---- object -> the same object through copy / pickle (keeps records and option)
    def transform(self, obj, beh="-"):
        """obj.copy() / cls(obj) (work since e5df170) copy the mapping like dict.copy(): shallow (record lists
        are shared with the source: documented semantics, never a verdict) and without the instance's
        option, which is therefore assigned again (beh) -- whether a copy carries it is not specified"""
        import copy
        import pickle
        v = self.pick("xform", XFORM_VARIANTS)
        if v in ("copy()", "cls(obj)"):
            c = obj.copy() if v == "copy()" else type(obj)(obj)
            if beh not in ("-", "default"):
                self.setbeh(c, beh)
            return c
        if v == "copy.copy":
            return copy.copy(obj)
        if v == "deepcopy":
            return copy.deepcopy(obj)
        if v == "pickle":
            return pickle.loads(pickle.dumps(obj))
        return obj

    # ---- object -> text
    def dump(self, obj, lnames):
        """(text, "ok") or (None, "EXC:...")"""
        import io
        v = self.pick("dump", DUMP_FILES if self.files else DUMP_VARIANTS)
        try:
            if v == "fd_fileobj":
                fd, textmode, fin = open_output(self.pick("fkind_out", FILE_KINDS_OUT), self.rng.randrange(1 << 30))
                try:
                    if textmode:
                        r = obj.dump(fd, text_mode=True)
                    else:
                        r = obj.dump(fd)
                finally:
                    t = fin()
                if r is not None:
                    t = None
            elif v == "dump":
                t = obj.dump()
            elif v == "str":
                t = str(obj)
            elif v == "bytes":
                t = bytes(obj).decode("utf-8")
            elif v == "unicode":
                t = obj.__unicode__()
            elif v in ("fd_text", "fd_text_kw"):
                fd = io.StringIO()
                r = obj.dump(fd, None, True) if v == "fd_text" else obj.dump(fd=fd, text_mode=True)
                t = fd.getvalue() if r is None else None
            elif v in ("fd_bin", "fd_bin_enc", "fd_kw"):
                fd = io.BytesIO()
                r = obj.dump(fd) if v == "fd_bin" else (obj.dump(fd, "utf-8") if v == "fd_bin_enc" else obj.dump(fd=fd, encoding="utf-8", text_mode=False))
                t = fd.getvalue().decode("utf-8") if r is None else None
            else:
                t = "".join("%s:%s\n" % (k, obj.get_as_string(k)) for k in obj.keys() if k.lower() in lnames)
            if not isinstance(t, str):
                return None, "EXC:%s returned %s" % (v, type(t).__name__)
            return t, "ok"
        except core.MachineryError:
            raise
        except Exception as e:
            return None, "EXC:%s [%s]: %s" % (type(e).__name__, v, e)


_CELL = re.compile(r"(\s*)(\S+)")


def cells(line):
    return [(len(m.group(1)), m.group(2)) for m in _CELL.finditer(line)]


def observe_layout(text, names):
    """projection of dump(): structured field (lower-case name) -> (form, [[(pad, token), ...], ...]).
    `names` = lower-case names of the structured fields of the class (from the TLC tables);
    form = "single" when the only record stands on the header line"""
    out = {}
    cur = None
    for line in text.split("\n"):
        if not line:
            cur = None
            continue
        if line[0] in " \t":
            if cur is not None:
                cur["cont"] += 1
                cur["lines"].append(cells(line))
            continue
        k, sep, rest = line.partition(":")
        cur = None
        if sep and k.lower() in names:
            cur = {"head": bool(rest.strip()), "cont": 0, "lines": []}
            if cur["head"]:
                cur["lines"].append(cells(rest))
            out[k.lower()] = cur
    return {k: ("single" if v["head"] and not v["cont"] else "multi", v["lines"]) for k, v in out.items()}


def observe_records(obj, table, spell=None):
    """projection of the object: field index -> (form, [[(sub-field name, token), ...], ...]);
    spell: the spelling in which the fields are asked for (look-ups are case-insensitive)"""
    out = {}
    for idx, fld in enumerate(table, 1):
        try:
            name = spell(fld["f"]) if spell else fld["f"]
            if name not in obj:
                continue
            v = obj[spell(fld["f"]) if spell else fld["f"]]
            if hasattr(v, "keys"):
                out[idx] = ("single", [[(str(k), str(v[k])) for k in v.keys()]])
            elif isinstance(v, list):
                out[idx] = ("multi", [[(str(k), str(r[k])) for k in r.keys()] for r in v])
            else:
                out[idx] = ("raw:%s" % type(v).__name__, [])
        except Exception as e:
            out[idx] = ("EXC:%s" % type(e).__name__, [])
    return out


# ------------------------------------------------------------------ concretization

# character / encoding stress (notes/SIZE_STRESS.md part 2).  "Whitespace-free" = no code point that
# str.split() splits on (the 29 code points with str.isspace(): ASCII white space, U+001C..1F, U+0085,
# NBSP U+00A0, U+1680, U+2000..200A, U+2028/9, U+202F, U+205F, U+3000): those stay out (NBSP inside a token
# DOES split it: out of the domain); U+200B, U+FEFF, ZWJ, soft hyphen, bidi marks are not white space.
UNI = ["cafe\u0301", "caf\u00e9", "A\u030a", "\u00c5", "\u212b", "\u2126", "\uf9d0", "\ufb01", "\uff21", "\u1100\u1161", "\uac00",
       "\u00df", "\u0130", "\u0131", "\u017f", "\u03c3\u03c2", "\U00010400", "\ufeff", "\u200d", "\u200c", "\u00ad", "\u200e", "\u200f",
       "\U0001f600", "\U0010ffff", "\u0301", "\u200b", "\u2060", "e\u0301\u0323", "\u1e69", "s\u0323\u0307", "\u4e2d\u6587"]
UNI = [u for u in UNI if not any(ch.isspace() for ch in u)]


def uni_token(rng, n):
    """n code points: ASCII mixed with text that is not NFC/NFKC-stable, case-mapping hazards, U+FEFF /
    zero-width characters (also at the start), non-BMP characters"""
    out = ""
    while len(out) < n:
        out += rng.choice(UNI) if rng.random() < 0.6 else rng.choice(ALNUM)
    return out[:n]


def nfc_twin(t):
    """the other normalization form of t (a DIFFERENT token), or None if t is stable"""
    import unicodedata
    for form in ("NFC", "NFD", "NFKC"):
        u = unicodedata.normalize(form, t)
        if u != t and len(u) >= 1 and not any(ch.isspace() for ch in u):
            return u
    return None


SPECIAL_SIZES = [0, 9, 10, 99, 100, 2**15, 2**16, 2**31 - 1, 2**31, 2**32 - 1, 2**32, 2**63 - 1, 2**63, 10**18, 2**64, 10**24]
BOUNDARY_LENS = [1, 2, 7, 8, 9, 15, 16, 17, 31, 32, 33, 63, 64, 65, 71, 72, 73, 79, 80, 81, 127, 128, 129, 255, 256, 257,
                 1023, 1024, 1025, 4095, 4096, 4097]
BOUNDARY_COUNTS = [9, 10, 11, 16, 17, 31, 32, 33, 99, 100, 101, 255, 256, 257]


# lengths of size tokens that reach and exceed every documented width (16; the longest size of the field): one
# below / at / one above 16, far beyond, and around 64 / 80 (so that the padding of a short size next to it does too)
SIZE_LENS_WIDE = [14, 15, 16, 17, 18, 19, 25, 32, 33, 40, 63, 64, 65, 79, 80, 81, 96, 128]


def size_len(rng, maxsize):
    """length of a size token of a recorded life cycle: 1..maxsize, or (maxsize = 0) drawn around / beyond the widths"""
    if maxsize:
        return rng.randint(1, maxsize)
    return rng.choice(SIZE_LENS_WIDE) if rng.random() < 0.6 else rng.randint(1, 16)


def size_token(rng, n):
    """n digits; regularly a boundary number (2**31, 2**63, 10**18 ...) with or without leading zeros"""
    if rng.random() < 0.4:
        fits = [str(v) for v in SPECIAL_SIZES if len(str(v)) <= n]
        exact = [v for v in fits if len(v) == n]
        if exact and rng.random() < 0.7:
            return rng.choice(exact)
        if fits and rng.random() < 0.5:
            return rng.choice(fits).rjust(n, "0")        # leading zeros
    return rng.choice("123456789") + "".join(rng.choice(string.digits) for _ in range(n - 1))


def make_token(rng, sub, n, canonical, k):
    if sub == "size":
        if canonical:
            return (str(1 + k % 9) + "0" * (n - 1))[:n]
        return size_token(rng, n)
    if sub.lower() in HASHES:
        if canonical:
            return (("%x" % (k % 16)) * n)[:n]
        return "".join(rng.choice("0123456789abcdef") for _ in range(n))
    if canonical:
        return ("%s%d" % (sub[0], k) + "x" * n)[:n]
    if rng.random() < 0.25:
        return uni_token(rng, n)
    return rng.choice(ALNUM) + "".join(rng.choices(FREE, k=n - 1))


def blow_up(case, rng, total):
    """size stress (notes/SIZE_STRESS.md): the same abstract case with `total` records per field.
    Every record of the model is replicated -- as the identical record (same tokens) or as a fresh
    record of the same shape; the model's width table depends only on the SET of size lengths of
    the field, so every copy has the layout TLC printed for its original line."""
    big = dict(case)
    big["F"] = []
    for fld in case["F"]:
        f, fname, form, width, wspec, names, lines = fld
        if form != "multi":
            big["F"].append(fld)
            continue
        n = len(lines)
        counts = [1] * n
        for _ in range(max(0, total - n)):
            counts[rng.randrange(n)] += 1
        out, fresh = [], 0
        for line, cnt in zip(lines, counts):
            for j in range(cnt):
                if j == 0 or rng.random() < 0.3:
                    out.append(line)                                    # identical record
                else:
                    fresh += 1
                    out.append([[pad, tid + 100000 * fresh, ln] for pad, tid, ln in line])
        big["F"].append([f, fname, form, width, wspec, names, out])
    big["blown"] = total
    return big


def concretize(rng, case, canonical, stress=False):
    """token texts for every (field, id) of a CASE (all dumps of its history): distinct ids ->
    distinct texts of the stated length; stress: digests and names get boundary lengths instead
    (the model is abstract in them: only the length of the size token enters the layout)"""
    conc, used = {}, {}
    fls = [case["F"]] + [st[1] for st in case.get("H", []) if st[0] == "dump"]
    for F in fls:
        for fld in F:
            f, names, lines = fld[0], fld[5], fld[6]
            pool, seen = conc.setdefault(str(f), {}), used.setdefault(f, set())
            for line in lines:
                for i, (pad, tid, n) in enumerate(line):
                    if str(tid) in pool:
                        continue
                    if stress and names[i] != "size":
                        n = rng.choice(BOUNDARY_LENS)
                    for attempt in range(50):
                        t = make_token(rng, names[i], n, canonical and attempt == 0, tid + attempt)
                        if not canonical and attempt == 0 and names[i] != "size" and names[i].lower() not in HASHES and rng.random() < 0.3:
                            # the other normalization form of a token already in this field: a different token
                            tw = [x for x in (nfc_twin(y) for y in sorted(seen)) if x and x not in seen]
                            if tw:
                                t = rng.choice(tw)
                        if t not in seen:
                            break
                    pool[str(tid)] = t
                    seen.add(t)
    return conc


SPELL = [lambda s: s, str.lower, str.upper]
EXTRA = [("Origin", "Debian"), ("Source", "hello"), ("Format", "3.0 (quilt)"), ("Description", "x\n y: z\n .\n w")]


def render(case, conc, variant):
    """the text the specification's Dump produces for the case, with the concretized tokens"""
    out = []
    if variant.get("xpad"):
        out.append("X-Pad: %s\n" % ("p" * variant["xpad"]))        # steers the offsets of the following lines (aligned cases)
    if variant.get("extra_first"):
        out.append("%s: %s\n" % EXTRA[variant["extra_first"] % len(EXTRA)])
    for fld in case["F"]:
        f, fname, form, lines = fld[0], fld[1], fld[2], fld[6]
        name = SPELL[variant.get("spell", 0) % 3](fname)
        body = ["".join(" " * pad + conc[str(f)][str(tid)] for pad, tid, n in line) for line in lines]
        if form == "single":
            out.append("%s:%s\n" % (name, body[0]))
        else:
            out.append("%s:\n%s\n" % (name, "\n".join(body)))
    if variant.get("extra_last"):
        out.append("%s: %s\n" % EXTRA[variant["extra_last"] % len(EXTRA)])
    return "".join(out)


ALIGN_POWERS = [9, 10, 11, 12, 12, 13, 13, 13, 14, 15, 16, 16, 17, 17]


def newline_targets(text):
    """character offsets of the line ends of `text` by position in the structure: inside a structured
    value (a record line followed by another record line), between two fields (the next line is a header),
    at the very end"""
    out, pos = {"inside a value": [], "between two fields": [], "at the very end": []}, -1
    lines = text.split("\n")
    for i, line in enumerate(lines[:-1]):
        pos += len(line) + 1
        nxt = lines[i + 1]
        if i == len(lines) - 2:
            out["at the very end"].append(pos)
        elif nxt[:1] in (" ", "\t"):
            if line[:1] in (" ", "\t"):
                out["inside a value"].append(pos)
        else:
            out["between two fields"].append(pos)
    return out


def align_case(rng, case, conc, variant):
    """block-boundary alignment (notes/SIZE_STRESS.md part 4): the same abstract case, rendered so that one
    line end falls exactly at / one before / one after a byte offset 2**k (k = 9..17).  The offset is steered
    by a padded context field in front (X-Pad) or by lengthening the first token of the first record (the
    model is abstract in the length of every token but the size).  Returns (conc, variant, info) or None."""
    import copy
    variant = dict(variant, xpad=0)
    conc = copy.deepcopy(conc)
    how = rng.choice(["context field", "token"])
    fld0 = next((fld for fld in case["F"] if fld[5] and fld[5][0] != "size"), None)
    if how == "token" and (fld0 is None or render(case, conc, variant).count(conc[str(fld0[0])][str(fld0[6][0][0][1])]) != 1):
        how = "context field"           # (a token that occurs twice would shift the offsets twice)
    if how == "context field":
        variant["xpad"] = 1
    base = render(case, conc, variant)
    targets = newline_targets(base)
    where = rng.choice([k for k, v in targets.items() if v] or [None])
    if where is None:
        return None
    # the padding must stand before the target line end
    first_line_end = base.index("\n", base.index(conc[str(fld0[0])][str(fld0[6][0][0][1])])) if how == "token" else base.index("\n")
    cands = [x for x in targets[where] if x >= first_line_end]
    if not cands:
        return None
    tpos = rng.choice(cands)
    at = len(base[:tpos].encode("utf-8"))              # byte offset of that "\n"
    d = rng.choice([-1, 0, 1])
    k = rng.choice([x for x in ALIGN_POWERS if 2 ** x + d - 1 >= at] or [17])
    need = 2 ** k - 1 + d - at                        # the "\n" is the byte number 2**k + d (offset 2**k - 1 + d)
    if need < 0:
        return None
    if how == "context field":
        variant["xpad"] = 1 + need
    else:
        f, tid = fld0[0], fld0[6][0][0][1]
        pool = conc[str(f)]
        new = pool[str(tid)] + "A" * need
        if need and new in pool.values():
            return None
        pool[str(tid)] = new
    text = render(case, conc, variant)
    if text.encode("utf-8")[2 ** k - 1 + d:2 ** k + d] != b"\n":
        raise core.MachineryError("alignment failed: no line end at offset %d (%s)" % (2 ** k - 1 + d, how))
    return conc, variant, {"k": k, "d": d, "where": where, "by": how, "bytes": len(text.encode("utf-8"))}


def align_text(text, seed):
    """recorded traces: a padded context field in front (X-Pad) puts one line end of `text` exactly at / next to
    a byte offset 2**k; returns (text, info)"""
    import random
    rng = random.Random(seed)
    head = "X-Pad: p\n"
    targets = newline_targets(head + text)
    where = rng.choice([k for k, v in targets.items() if [x for x in v if x >= len(head)]] or [None])
    if where is None:
        return text, None
    tpos = rng.choice([x for x in targets[where] if x >= len(head)])
    at = len((head + text)[:tpos].encode("utf-8"))
    d = rng.choice([-1, 0, 1])
    k = rng.choice([x for x in ALIGN_POWERS if 2 ** x + d - 1 >= at] or [17])
    need = 2 ** k - 1 + d - at
    if need < 0:
        return text, None
    out = "X-Pad: p%s\n%s" % ("p" * need, text)
    if out.encode("utf-8")[2 ** k - 1 + d:2 ** k + d] != b"\n":
        raise core.MachineryError("alignment failed: no line end at offset %d" % (2 ** k - 1 + d))
    return out, {"k": k, "d": d, "where": where, "bytes": len(out.encode("utf-8"))}


def as_input(text, kind):
    import io
    if kind == 1:
        return text.splitlines()
    if kind == 2:
        return io.StringIO(text)
    if kind == 3:
        return text.encode("utf-8")
    if kind == 4:
        return io.BytesIO(text.encode("utf-8"))
    return text


# ------------------------------------------------------------------ comparing with the CASE (expected values are TLC's)

def check_records(case, conc, obs, what):
    """verdict: exposed records = the model's, with the documented names, in order"""
    exp_idx = [fld[0] for fld in case["F"]]
    if sorted(obs) != sorted(exp_idx):
        return "%s: structured fields exposed %r, model %r" % (what, sorted(obs), sorted(exp_idx))
    for fld in case["F"]:
        f, fname, form, names, lines = fld[0], fld[1], fld[2], fld[5], fld[6]
        oform, orecs = obs[f]
        exp = [[(names[i], conc[str(f)][str(tid)]) for i, (pad, tid, n) in enumerate(line)] for line in lines]
        if oform != form:
            return "%s: %s exposed as %r, model %r" % (what, fname, oform, form)
        if orecs != exp:
            for r in range(max(len(exp), len(orecs))):
                a = orecs[r] if r < len(orecs) else None
                b = exp[r] if r < len(exp) else None
                if a != b:
                    return "%s: %s record %d is %r, model %r (%d records, model %d)" % (
                        what, fname, r + 1, a, b, len(orecs), len(exp))
    return None


def check_layout(ctx, case, conc, lay, what):
    """verdict: every present field is written, one line per record, the tokens in order, the size
    column padded as the model says where the statement promises a width; other blanks: drift"""
    for fld in case["F"]:
        f, fname, form, width, wspec, names, lines = fld
        o = lay.get(fname.lower())
        if o is None:
            return "%s: field %s missing from dump()" % (what, fname)
        oform, olines = o
        if len(olines) != len(lines):
            return "%s: %s dumped as %d lines, model %d" % (what, fname, len(olines), len(lines))
        for r, (line, oline) in enumerate(zip(lines, olines)):
            exp_toks = [conc[str(f)][str(tid)] for pad, tid, n in line]
            if [t for _, t in oline] != exp_toks:
                return "%s: %s line %d has tokens %r, model %r" % (what, fname, r + 1, [t for _, t in oline], exp_toks)
            for i, ((pad, tid, n), (opad, _)) in enumerate(zip(line, oline)):
                if opad == pad:
                    continue
                if names[i] == "size" and wspec:
                    return ("%s: %s line %d: size %r is preceded by %d blanks, model %d (column width %d, size column must be "
                            "right-aligned to %s)" % (what, fname, r + 1, exp_toks[i], opad, pad, width,
                                                      "16" if case["b"] == "apt-ftparchive" else "the longest size of the field"))
                if form == "single" and (i == 0 or names[i] == "size"):
                    continue        # header-line separator / padding of a single-line record: not specified
                ctx.drift("%s %s: %d blanks before %s, model %d" % (case["c"], fname, opad, names[i], pad))
        if oform != form:
            return "%s: %s dumped in %s form, model %s" % (what, fname, oform, form)
    return None


def run_case(ctx, case, conc, variant, tables):
    """replay one CASE in both directions; returns None or a message (verdict observables only).
    Every operation goes through one of its public entry points (Api; variant["api"] = 0: the primary ones)"""
    cname, beh = case["c"], case["b"]
    table = tables[cname]
    lnames = {fld["f"].lower() for fld in table}
    api = Api(variant.get("api", 0), files=bool(variant.get("files")))
    # ---- direction A: records -> dump -> parse
    if all(fld[2] == "multi" for fld in case["F"]):
        obj, err = new_obj(cname, "default")
        if err:
            return "A: " + err
        order = list(case["F"])
        if variant.get("reverse"):
            order.reverse()
        try:
            if cname == "Release" and not variant.get("beh_late"):
                api.setbeh(obj, beh)
            if variant.get("xpad"):
                obj["X-Pad"] = "p" * variant["xpad"]
            if variant.get("extra_first"):
                k, v = EXTRA[variant["extra_first"] % len(EXTRA)]
                obj[k] = v
            for fld in order:
                f, fname, names, lines = fld[0], fld[1], fld[5], fld[6]
                recs = [dict((names[i], conc[str(f)][str(tid)]) for i, (pad, tid, n) in enumerate(line)) for line in lines]
                api.build(obj, SPELL[variant.get("spell", 0) % 3](fname), recs)
            if cname == "Release" and variant.get("beh_late"):
                api.setbeh(obj, beh)
            obj = api.transform(obj, beh)
        except Exception as e:
            return "A: building the paragraph raised %s: %s" % (type(e).__name__, e)
        text, res = api.dump(obj, lnames)
        if res != "ok":
            return "A: dumping a paragraph built from records raised %s; model: dump is total (fields present: %s)" % (
                res[4:], [fld[1] for fld in case["F"]] or "none")
        m = check_layout(ctx, case, conc, observe_layout(text, lnames), "A dump")
        if m:
            return m
        obj2, err = api.parse(cname, beh, text)
        if err:
            return "A: re-parsing the dump: " + err
        m = check_records(case, conc, observe_records(obj2, table), "A parse(dump(records))")
        if m:
            return m
    # ---- direction B: text -> parse -> dump -> parse
    text = render(case, conc, variant)
    obj, err = api.parse(cname, beh, text)
    if err:
        return "B: parsing %r: %s" % (text[:200], err)
    m = check_records(case, conc, observe_records(obj, table), "B parse(text)")
    if m:
        return m
    if case["u"]:
        api.dump(obj, lnames)
        return None           # unspecified zone (Release/dak + single-line): executed, any outcome accepted
    try:
        obj = api.transform(obj, beh)
    except Exception as e:
        return "B: copying / pickling the parsed paragraph raised %s: %s" % (type(e).__name__, e)
    text2, res = api.dump(obj, lnames)
    if res != "ok":
        return "B: dumping a parsed paragraph raised %s; model: dump is total (fields present: %s)" % (
            res[4:], [fld[1] for fld in case["F"]] or "none")
    m = check_layout(ctx, case, conc, observe_layout(text2, lnames), "B dump")
    if m:
        return m
    obj3, err = api.parse(cname, beh, text2)
    if err:
        return "B: re-parsing the dump: " + err
    return check_records(case, conc, observe_records(obj3, table), "B parse(dump(parse(text)))")


ILLEGAL_BEHAVIORS = ["", "DAK", None, 7, "apt-ftparchive ", "Dak"]
POISON_TOKENS = ["a\nb", "a b", "\n", "x\ty", "a\u00a0b"]


def poison(obj, fname, subs, rng):
    """an operation OUTSIDE the domain (a record with a newline / white-space token) on a field that the
    next step re-assigns or deletes: whatever it does (today: dump() raises ValueError for a newline, a
    blank splits the token) must be gone once the field is replaced.  Nothing here is a verdict."""
    try:
        obj[fname] = [dict(zip(subs, [rng.choice(POISON_TOKENS)] + ["1"] * (len(subs) - 1)))]
        obj.dump()
    except Exception:
        pass


OTHER_RECORDS = [("0cc175b9c0f1b6a831c399e269772661", "5"), ("92eb5ffee6ae2fec3ad71c777531578f", "12345")]


def other_step(others, cname, v, tables, api=None):
    """a step of ANOTHER live object: create it (with two records in its first structured field) if
    need be, set its size_field_behavior if v says so, dump it; returns None or a message"""
    api = api or Api(0)
    try:
        o = others.get(cname)
        if o is None:
            o = others[cname] = get_class(cname)()
            fld = tables[cname][1]
            api.build(o, fld["f"], [dict(zip(fld["subs"], list(r) + ["other/%d" % i] * (len(fld["subs"]) - 2)))
                                    for i, r in enumerate(OTHER_RECORDS)])
        if v != "-":
            api.setbeh(o, v)
        t, res = api.dump(o, {f["f"].lower() for f in tables[cname]})
        if res != "ok":
            return "other %s object (behaviour %s): dump raised %s" % (cname, v, res[4:])
        return None
    except Exception as e:
        return "other %s object (behaviour %s) raised %s: %s" % (cname, v, type(e).__name__, e)


def refused_names(api, obj, table, lnames, kind, f, g):
    """the field names of a refused call: index of a structured field (present or absent, as the model says),
    0 = a present field outside the tables, NOFIELD = an absent one"""
    def name(x):
        return api.context_field(obj, lnames) if x == 0 else api.absent_name(obj) if x == NOFIELD else table[x - 1]["f"]
    if kind in ("before", "after"):
        return name(f), name(g)
    if kind in ("first", "last", "delete", "getitem"):
        return name(f), None
    return None, None


def run_history(ctx, case, conc, variant, tables):
    """replay a history on ONE living object (made from records or parsed from text, as the model
    says; its size_field_behavior assigned only if the model says so), interleaved with steps of
    OTHER live objects: every dump() is compared with the layout / records the model expects for
    the CURRENT records and the object's OWN option; after every mutation the living object must
    show exactly the model's records (position by position)"""
    cname = case["c"]
    b0 = case["b0"] if case["bs0"] else ("default" if cname == "Release" else "-")
    table = tables[cname]
    lnames = {fld["f"].lower() for fld in table}
    H = case["H"]
    k0 = next(i for i, st in enumerate(H) if st[0] == "dump")
    first = {"c": cname, "b": b0, "F": H[k0][1]}
    tok = lambda f, pair: conc[str(f)][str(pair[0])]
    api = Api(variant.get("api", 0))
    others = {}
    obj = None
    beh = case["b0"]
    done = []
    for k, st in enumerate(H):
        op = st[0]
        what = "H step %d (%s after %s)" % (k + 1, op, ", ".join(done) or "start")
        if op == "other":
            m = other_step(others, st[1], st[2], tables, api)
            if m:
                return "%s: %s" % (what, m)
            done.append("other %s:=%s" % (st[1], st[2]))
            continue
        if obj is None:          # the object under observation is created now
            if case["o"] == "parsed":
                obj, err = api.parse(cname, b0, render(first, conc, variant))
                if err:
                    return "H: parsing the start text: " + err
            else:
                obj, err = new_obj(cname, "default")
                if err:
                    return "H: " + err
                try:
                    if cname == "Release" and b0 != "default":
                        api.setbeh(obj, b0)
                    if variant.get("extra_first"):
                        k, v = EXTRA[variant["extra_first"] % len(EXTRA)]
                        obj[k] = v
                    for fld in first["F"]:
                        f, fname, names, lines = fld[0], SPELL[variant.get("spell", 0) % 3](fld[1]), fld[5], fld[6]
                        api.build(obj, fname, [dict((names[i], conc[str(f)][str(tid)]) for i, (pad, tid, n) in enumerate(line)) for line in lines])
                except Exception as e:
                    return "H: building the paragraph raised %s: %s" % (type(e).__name__, e)
        if op == "dump":
            step = {"c": cname, "b": beh, "F": st[1]}
            m = check_records(step, conc, observe_records(obj, table, api.spell), what + " records of the living object")
            if m:
                return m
            text, res = api.dump(obj, lnames)
            if res != "ok":
                return "%s: dump raised %s; model: dump is total" % (what, res[4:])
            m = check_layout(ctx, step, conc, observe_layout(text, lnames), what)
            if m:
                return m
            obj2, err = api.parse(cname, "default", text)
            if err:
                return "%s: re-parsing the dump: %s" % (what, err)
            m = check_records(step, conc, observe_records(obj2, table), what + " parse(dump())")
            if m:
                return m
            done.append("dump")
            try:
                obj = api.transform(obj, beh if cname == "Release" else "-")   # the same object through copy / pickle, or itself
            except Exception as e:
                return "%s: copying / pickling the paragraph raised %s: %s" % (what, type(e).__name__, e)
            continue
        if op == "setbehfails":
            bad = ILLEGAL_BEHAVIORS[variant.get("illegal", 0) % len(ILLEGAL_BEHAVIORS)]
            try:
                api.setbeh(obj, bad)
            except Exception:
                pass                     # rejected, as the model says: the option must be what it was
            else:
                return None              # accepted: not the step the model describes -- unspecified, stop here
            try:
                now = obj.size_field_behavior
            except Exception as e:
                return "%s: reading size_field_behavior raised %s" % (what, type(e).__name__)
            if now != beh:
                return "%s: after the rejected assignment of %r size_field_behavior is %r, model: unchanged (%r)" % (what, bad, now, beh)
            done.append("rejected size_field_behavior:=%r" % (bad,))
            continue
        try:
            if op == "setbeh":
                beh = st[1]
                api.setbeh(obj, beh)
                done.append("size_field_behavior:=%s" % beh)
                continue
            if op == "refused":
                fname, gname = refused_names(api, obj, table, lnames, st[1], st[2], st[3])
                done.append("REFUSED " + api.refused(obj, st[1], fname, gname, lnames, cname))
                if variant.get("copy_after_reorder"):
                    obj = api.transform(obj, beh if cname == "Release" else "-")
                continue
            if op == "reorder":
                kind, f, g = st[1], st[2], st[3]
                fname = gname = None
                if kind not in ("sort", "sortkey"):
                    fname = table[f - 1]["f"] if f else api.context_field(obj, lnames)
                if kind in ("before", "after"):
                    gname = table[g - 1]["f"] if g else api.context_field(obj, lnames)
                how = api.reorder(obj, kind, fname, gname)
                done.append(how)
                if variant.get("copy_after_reorder"):
                    obj = api.transform(obj, beh if cname == "Release" else "-")
                continue
            f = st[1]
            fname, subs = api.spell(table[f - 1]["f"]), table[f - 1]["subs"]
            if op in ("assign", "delete") and variant.get("poison"):
                import random
                poison(obj, fname, subs, random.Random(variant["poison"]))
            if op == "append":
                obj[fname].append(dict(zip(subs, [tok(f, p) for p in st[2]])))
            elif op == "setsize":
                obj[api.spell(fname)][st[2] - 1]["size"] = tok(f, st[3])
            elif op == "assign":
                api.build(obj, fname, [dict(zip(subs, [tok(f, p) for p in rec])) for rec in st[2]])
            elif op == "delete":
                del obj[fname]
            else:
                raise core.MachineryError("unknown history step %r" % (st,))
        except core.MachineryError:
            raise
        except Exception as e:
            return "%s: %s raised %s: %s" % (what, op, type(e).__name__, e)
        done.append("%s %s%s" % (op, fname, " record %d" % st[2] if op == "setsize" else ""))
    return None


FINDING_COPY = "C12-copy-structured"


def copy_probe(ctx, case, conc, tables, rng):
    """secondary ways of making the same paragraph: obj.copy(), cls(obj), cls({field: records}).
    Expected: a paragraph with the same records that dumps to the same text.  (Before e5df170 all three
    raised AttributeError as soon as a structured field was present: finding C12-copy-structured, fixed;
    a recurrence is a violation.)"""
    cname, beh = case["c"], case["b"]
    table = tables[cname]
    lnames = {fld["f"].lower() for fld in table}
    obj, err = new_obj(cname, beh)
    if err:
        return
    recs_by_name = {}
    for fld in case["F"]:
        f, fname, names, lines = fld[0], fld[1], fld[5], fld[6]
        recs_by_name[fname] = [dict((names[i], conc[str(f)][str(tid)]) for i, (pad, tid, n) in enumerate(line)) for line in lines]
        obj[fname] = recs_by_name[fname]
    base, res = do_dump(obj)
    if res != "ok":
        return
    how = rng.choice(["obj.copy()", "cls(obj)", "cls({field: records})"])
    API_COUNTS["probe:" + how] = API_COUNTS.get("probe:" + how, 0) + 1
    try:
        if how == "obj.copy()":
            c = obj.copy()
        elif how == "cls(obj)":
            c = get_class(cname)(obj)
        else:
            c = get_class(cname)(recs_by_name)
        if cname == "Release":
            c.size_field_behavior = beh
        msg = check_records(case, conc, observe_records(c, table), how)
        if not msg:
            t, res = do_dump(c)
            msg = ("%s: dump raised %s" % (how, res[4:])) if res != "ok" else check_layout(ctx, case, conc, observe_layout(t, lnames), how + " dump")
    except Exception as e:
        msg = "%s raised %s: %s" % (how, type(e).__name__, e)
    if not msg:
        return
    entry = [x for x in ctx.findings() if x["id"] == FINDING_COPY]
    if "splitlines" in msg and entry and entry[0]["status"] == "open":
        ctx.known_hit(FINDING_COPY)
    else:
        ctx.violation({"kind": "copyprobe", "case": case, "conc": conc, "tables": tables, "how": how}, msg)


def make_variant(rng, c):
    if c == 0:
        return {"illegal": rng.randrange(6), "api": 0}
    return {"api": rng.randrange(1, 10 ** 9), "illegal": rng.randrange(6), "copy_after_reorder": rng.random() < 0.4, "poison": rng.randrange(1, 1000) if rng.random() < 0.5 else 0, "spell": rng.randrange(3), "input": rng.randrange(5), "reverse": rng.random() < 0.5,
            "deb822dict": rng.random() < 0.5, "beh_late": rng.random() < 0.5,
            "extra_first": rng.randrange(5) if rng.random() < 0.5 else 0,
            "extra_last": rng.randrange(5) if rng.random() < 0.3 else 0}


# ------------------------------------------------------------------ trace recording (code -> spec)

def gen_recipe(rng, tables, big=0):
    """a random life cycle: class, behaviour (Release: apt-ftparchive, dak or the untouched
    default), subset of fields, records of random tokens -- counts, lengths and numbers well beyond
    the model constants and regularly at boundaries (notes/SIZE_STRESS.md): 1..6 records mostly,
    sometimes 9..33 / 100 / 256 (big: that many in one field), sizes of 1..25 digits incl. 2**31,
    2**63, leading zeros, names of up to 1025 characters, IDENTICAL records -- direction, white space"""
    cname = rng.choice(["Dsc", "Changes", "BuildInfo", "PdiffIndex", "PdiffIndex", "Release", "Release", "Release"])
    beh = rng.choice(["apt-ftparchive", "dak", "default"]) if cname == "Release" else "-"
    table = tables[cname]
    n = len(table)
    k = rng.choice([0, 1, 1, 2, 3, n - 1, n, rng.randint(0, n)])
    if big:
        k = rng.choice([1, 2])
    present = sorted(rng.sample(range(1, n + 1), max(0, min(n, k))))
    direction = rng.choice(["build", "given"])
    fields = []
    for fi, f in enumerate(present):
        subs = table[f - 1]["subs"]
        nrec = rng.randint(1, 6)
        if rng.random() < 0.08:
            nrec = rng.choice(BOUNDARY_COUNTS[:8])
        if big and fi == 0:
            nrec = big
        form = "multi"
        if direction == "given" and rng.random() < 0.25 and not (big and fi == 0):
            form, nrec = "single", 1
        maxsize = rng.choice([3, 8, 16, 18, 25, 0, 0])
        longnames = rng.random() < 0.1 and nrec <= 33
        recs, lines = [], []
        for r in range(nrec):
            if recs and rng.random() < (0.5 if nrec > 6 else 0.2):
                j = rng.randrange(len(recs))                    # the IDENTICAL record (and line) again
                recs.append(list(recs[j]))
                lines.append(list(lines[j]))
                continue
            rec = []
            for s in subs:
                if s == "size":
                    ln = size_len(rng, maxsize)
                elif s.lower() in HASHES:
                    ln = {"md5sum": 32, "md5": 32, "sha1": 40, "sha256": 64, "sha512": 128}[s.lower()] if rng.random() < 0.8 else rng.randint(1, 12)
                else:
                    ln = rng.choice(BOUNDARY_LENS[:29]) if longnames else rng.randint(1, 30)
                if recs and rng.random() < 0.1:
                    rec.append(rng.choice(recs)[len(rec)])      # repeated token
                else:
                    rec.append(make_token(rng, s, ln, False, 0))
            recs.append(rec)
            pads = []
            for i in range(len(subs)):
                p = rng.choice([1, 1, 1, 2, 5, 17])
                if form == "single" and i == 0:
                    p = rng.choice([0, 1, 1, 2])
                pads.append(p)
            lines.append(pads)
        fields.append({"f": f, "form": form, "recs": recs, "pads": lines,
                       "tabs": direction == "given" and rng.random() < 0.15,
                       "trail": direction == "given" and rng.random() < 0.15})
    order = list(range(len(fields)))
    rng.shuffle(order)
    return {"cls": cname, "beh": beh, "dir": direction, "fields": fields, "order": order,
            "spell": rng.randrange(3), "input": rng.randrange(5), "again": rng.random() < 0.3,
            "extra": rng.randrange(5) if rng.random() < 0.4 else 0,
            "api": rng.randrange(1, 10 ** 9) if rng.random() < 0.8 else 0,
            "align": rng.randrange(1, 10 ** 9) if direction == "given" and fields and rng.random() < 0.07 else 0,
            "pre": [(gen_refused if rng.random() < 0.4 else gen_reorder)(rng, [x["f"] for x in fields], n)
                    for _ in range(rng.choice([0, 0, 0, 1, 1, 2]))],
            "muts": gen_mutations(rng, table, fields, cname)}


def gen_refused(rng, present, nfields):
    """a call the living object refuses, drawn from the whole domain of the model's action Refused: order_before /
    order_after with an absent reference / absent item / item = reference, order_first / order_last / del / [] of an
    absent field, a faulting key function / fd / source of lines; f, g = index of a structured field, 0 (a present
    field outside the tables) or NOFIELD (an absent one)"""
    here = list(present) + [0]
    gone = [x for x in range(1, nfields + 1) if x not in present] + [NOFIELD]
    kind = rng.choice(REFUSED_KINDS + ["before", "after"])
    f = g = 0
    if kind in ("before", "after"):
        shape = rng.choice(["absent reference", "absent reference", "absent item", "both absent", "itself"])
        if shape == "absent reference":
            f, g = rng.choice(present or here), rng.choice(gone)
            if rng.random() < 0.2:
                f = 0
        elif shape == "absent item":
            f, g = rng.choice(gone), rng.choice(here)
        elif shape == "both absent":
            f, g = rng.choice(gone), rng.choice(gone)
        else:
            f = g = rng.choice(here)
    elif kind in ("first", "last", "delete", "getitem"):
        f = rng.choice(gone)
    return {"op": "refused", "kind": kind, "f": f, "g": g, "copy": rng.random() < 0.3}


def gen_reorder(rng, present, nfields=0):
    """a re-ordering operation on the fields: sort_fields() / sort_fields(key) / order_first / order_last /
    order_before / order_after; f, g = a present structured field or 0 (a field outside the tables)"""
    cand = list(present) + [0]
    kind = rng.choice(REORDER_KINDS)
    f = g = 0
    if kind in ("first", "last", "before", "after"):
        f = rng.choice(cand) if rng.random() < 0.8 or not present else rng.choice(present)
    if kind in ("before", "after"):
        rest = [x for x in cand if x != f]
        if not rest:
            kind, f = "sort", 0
        else:
            g = rng.choice(rest)
    return {"op": "reorder", "kind": kind, "f": f, "g": g, "copy": rng.random() < 0.3}


def gen_mutations(rng, table, fields, cname):
    """0..3 steps, each followed by another dump of the living object: append a record / replace a
    size in place (growing or shrinking the longest size; often at a position whose record occurs
    twice), re-assign a list, delete a field, set size_field_behavior, or a step of ANOTHER live object"""
    cur = {x["f"]: {"form": x["form"], "recs": [list(r) for r in x["recs"]]} for x in fields}
    muts = []
    for _ in range(rng.choice([0, 0, 1, 1, 2, 3])):
        multi = [f for f in cur if cur[f]["form"] == "multi"]
        ops = ["assign"] + (["append", "append", "setsize", "setsize", "setsize"] if multi else []) + (["delete"] if cur else [])
        ops += ["other", "other"] + (["setbeh", "setbeh", "setbehfails", "setbehfails"] if cname == "Release" else [])
        ops += ["reorder"] * 3 + ["refused"] * 4
        op = rng.choice(ops)
        if op in ("reorder", "refused"):
            muts.append((gen_reorder if op == "reorder" else gen_refused)(rng, sorted(cur), len(table)))
            muts[-1]["single_left"] = any(v["form"] == "single" for v in cur.values())
            continue
        if op == "setbehfails":
            muts.append({"op": "setbehfails", "i": rng.randrange(len(ILLEGAL_BEHAVIORS))})
            muts[-1]["single_left"] = any(v["form"] == "single" for v in cur.values())
            continue
        if op == "setbeh":
            muts.append({"op": "setbeh", "v": rng.choice(["apt-ftparchive", "dak"])})
            muts[-1]["single_left"] = any(v["form"] == "single" for v in cur.values())
            continue
        if op == "other":
            c = rng.choice(["Release", "Release", "PdiffIndex", "Dsc", "Changes"])
            muts.append({"op": "other", "c": c, "v": rng.choice(["apt-ftparchive", "dak", "-"]) if c == "Release" else "-"})
            muts[-1]["single_left"] = any(v["form"] == "single" for v in cur.values())
            continue
        if op == "assign":
            f = rng.choice(sorted(cur)) if cur and rng.random() < 0.7 else rng.randint(1, len(table))
        elif op == "delete":
            f = rng.choice(sorted(cur))
        else:
            f = rng.choice(multi)
        subs = table[f - 1]["subs"]

        def new_rec(maxsize):
            return [make_token(rng, s, size_len(rng, maxsize) if s == "size" else rng.randint(1, 20), False, 0) for s in subs]

        def dup_pos(recs):
            """a position whose record also stands at another position, if there is one"""
            d = [i for i, r in enumerate(recs) if recs.count(r) > 1]
            return rng.choice(d) if d and rng.random() < 0.7 else rng.randrange(len(recs))
        if op == "append":
            rec = list(rng.choice(cur[f]["recs"])) if rng.random() < 0.3 else new_rec(rng.choice([2, 9, 18, 25, 0]))
            cur[f]["recs"].append(rec)
            muts.append({"op": "append", "f": f, "rec": rec})
        elif op == "setsize":
            r = dup_pos(cur[f]["recs"])
            t = make_token(rng, "size", rng.choice([1, 2, 5, 9, 10, 12, 15, 16, 17, 18, 19, 25, 40, 64, 65, 80]), False, 0)
            cur[f]["recs"][r][subs.index("size")] = t
            muts.append({"op": "setsize", "f": f, "r": r + 1, "tok": t})
        elif op == "assign":
            recs = [new_rec(rng.choice([3, 18, 0])) for _ in range(rng.randint(1, 4))]
            if rng.random() < 0.3:
                recs.append(list(recs[0]))
            cur[f] = {"form": "multi", "recs": recs}
            muts.append({"op": "assign", "f": f, "recs": recs, "poison": rng.randrange(1, 1000) if rng.random() < 0.3 else 0})
        else:
            del cur[f]
            muts.append({"op": "delete", "f": f, "poison": rng.randrange(1, 1000) if rng.random() < 0.3 else 0})
        muts[-1]["single_left"] = any(v["form"] == "single" for v in cur.values())
    return muts


class Pool:
    def __init__(self):
        self.ids = {}

    def tok(self, text):
        if text not in self.ids:
            self.ids[text] = len(self.ids) + 1
        return {"id": self.ids[text], "len": len(text)}


def ev_layout(lay, table, pool):
    out = []
    for idx, fld in enumerate(table, 1):
        o = lay.get(fld["f"].lower())
        if o is None:
            continue
        out.append({"f": idx, "form": o[0],
                    "lines": [[dict(pool.tok(t), pad=p) for p, t in line] for line in o[1]]})
    return out


def ev_records(obs, pool):
    return [{"f": f, "form": form, "recs": [[{"n": n, "t": pool.tok(t)} for n, t in rec] for rec in recs]}
            for f, (form, recs) in sorted(obs.items())]


def execute(recipe, tables):
    """run the recipe on the real class and log what it does (projection only, no judgement)"""
    cname, beh = recipe["cls"], recipe["beh"]
    table = tables[cname]
    lnames = {fld["f"].lower() for fld in table}
    pool = Pool()
    events = []
    cur_beh = "apt-ftparchive" if beh == "default" else beh       # the documented default of a fresh Release
    tr = {"cls": cname, "beh": cur_beh, "behset": beh not in ("default", "-"), "events": events}
    unspecified = cname == "Release" and cur_beh == "dak" and any(x["form"] == "single" for x in recipe["fields"])
    single_present = any(x["form"] == "single" for x in recipe["fields"])
    others = {}
    spell = SPELL[recipe["spell"]]
    api = Api(recipe.get("api", 0) or (1 if recipe.get("align") else 0), files=bool(recipe.get("align")))
    if recipe["dir"] == "build":
        obj, err = new_obj(cname, "default")
        if not err and cname == "Release" and beh != "default":
            try:
                api.setbeh(obj, beh)
            except Exception as e:
                err = "setting size_field_behavior raised %s" % type(e).__name__
        if err:
            events.append({"op": "error", "what": err})
            return tr
        if recipe["extra"]:
            obj[EXTRA[recipe["extra"] % len(EXTRA)][0]] = EXTRA[recipe["extra"] % len(EXTRA)][1]
        for j in recipe["order"]:
            x = recipe["fields"][j]
            subs = table[x["f"] - 1]["subs"]
            try:
                api.build(obj, spell(table[x["f"] - 1]["f"]), [dict(zip(subs, rec)) for rec in x["recs"]])
            except Exception as e:
                events.append({"op": "error", "what": "assignment raised %s" % type(e).__name__})
                return tr
            events.append({"op": "build", "f": x["f"], "form": "multi",
                           "recs": [[pool.tok(t) for t in rec] for rec in x["recs"]]})
    else:
        parts, given = [], []
        if recipe["extra"]:
            parts.append("%s: %s\n" % EXTRA[recipe["extra"] % len(EXTRA)])
        for j in recipe["order"]:
            x = recipe["fields"][j]
            body = []
            for rec, pads in zip(x["recs"], x["pads"]):
                s = ""
                for i, (t, p) in enumerate(zip(rec, pads)):
                    ws = " " * p
                    if x["tabs"] and p >= 2:
                        ws = " " + "\t" * (p - 1)
                    s += ws + t
                body.append(s + ("  " if x["trail"] else ""))
            name = spell(table[x["f"] - 1]["f"])
            if x["form"] == "single":
                parts.append("%s:%s\n" % (name, body[0]))
            else:
                parts.append("%s:\n%s\n" % (name, "\n".join(body)))
            given.append({"f": x["f"], "form": x["form"],
                          "recs": [[pool.tok(t) for t in rec] for rec in x["recs"]],
                          "lines": [[dict(pool.tok(t), pad=p) for t, p in zip(rec, pads)] for rec, pads in zip(x["recs"], x["pads"])]})
        text = "".join(parts)
        if recipe.get("align"):
            text, tr["aligned"] = align_text(text, recipe["align"])
        tr["text"] = text if len(text) <= 2000 else text[:300] + "... (%d characters)" % len(text)
        obj, err = api.parse(cname, beh, text)
        if err:
            events.append({"op": "error", "what": err})
            return tr
        events.append({"op": "given", "fields": given})
        events.append({"op": "parse", "fields": ev_records(observe_records(obj, table, api.spell), pool)})
        events.append({"op": "load"})
    # the living object `obj` is dumped; every dump is parsed back into a FRESH object; "load"
    # continues with that fresh object, a mutation changes the living one
    def dump_parse(obj, unspec):
        text, res = api.dump(obj, lnames)
        if unspec:
            tr["unspecified_dump"] = res
            return None           # executed; not logged: any outcome is accepted
        if res != "ok":
            events.append({"op": "dump", "res": res.split(":")[1].split(" ")[0], "fields": []})
            return None
        events.append({"op": "dump", "res": "ok", "fields": ev_layout(observe_layout(text, lnames), table, pool)})
        fresh, err = api.parse(cname, cur_beh, text)
        if err:
            events.append({"op": "error", "what": err})
            return None
        events.append({"op": "parse", "fields": ev_records(observe_records(fresh, table, api.spell), pool)})
        return fresh

    def xform(obj):
        try:
            return api.transform(obj, cur_beh)     # the same object through copy / pickle, or itself
        except Exception as e:
            events.append({"op": "error", "what": "copying / pickling raised %s: %s" % (type(e).__name__, e)})
            return None

    def do_reorder(obj, mu):
        """the ORDER of the fields is changed through the public operations (before the first dump / between dumps)"""
        try:
            fname = gname = None
            if mu["kind"] not in ("sort", "sortkey"):
                fname = table[mu["f"] - 1]["f"] if mu["f"] else api.context_field(obj, lnames)
            if mu["kind"] in ("before", "after"):
                gname = table[mu["g"] - 1]["f"] if mu["g"] else api.context_field(obj, lnames)
            api.reorder(obj, mu["kind"], fname, gname)
        except core.MachineryError:
            raise
        except Exception as e:
            events.append({"op": "error", "what": "re-ordering (%s) raised %s: %s" % (mu["kind"], type(e).__name__, e)})
            return None
        events.append({"op": "reorder", "kind": mu["kind"], "f": mu["f"], "g": mu["g"]})
        return xform(obj) if mu.get("copy") else obj

    def do_refused(obj, mu):
        """a call the object refuses / that fails through a caller-supplied object: logged whatever comes out"""
        fname, gname = refused_names(api, obj, table, lnames, mu["kind"], mu["f"], mu["g"])
        how = api.refused(obj, mu["kind"], fname, gname, lnames, cname)
        events.append({"op": "refused", "kind": mu["kind"], "f": mu["f"], "g": mu["g"], "how": how[:120]})
        return xform(obj) if mu.get("copy") else obj

    for mu in recipe.get("pre", []):
        obj = (do_refused if mu["op"] == "refused" else do_reorder)(obj, mu)
        if obj is None:
            return tr
    fresh = dump_parse(obj, unspecified)
    if fresh is None:
        return tr
    if recipe["again"]:
        events.append({"op": "load"})
        obj = fresh
        fresh = dump_parse(obj, unspecified)
        if fresh is None:
            return tr
    for mu in recipe.get("muts", []):
        obj = xform(obj)
        if obj is None:
            return tr
        if mu["op"] == "other":
            m = other_step(others, mu["c"], mu["v"], tables, api)
            if m:
                events.append({"op": "error", "what": m})
                return tr
            events.append({"op": "other", "c": mu["c"], "v": mu["v"]})
        elif mu["op"] == "setbehfails":
            try:
                api.setbeh(obj, ILLEGAL_BEHAVIORS[mu["i"]])
            except Exception:
                events.append({"op": "setbehfails"})
            else:
                tr["accepted_illegal_behavior"] = repr(ILLEGAL_BEHAVIORS[mu["i"]])
                return tr            # accepted: unspecified, nothing more is logged
        elif mu["op"] == "setbeh":
            try:
                cur_beh = mu["v"]
                api.setbeh(obj, cur_beh)
            except Exception as e:
                events.append({"op": "error", "what": "setting size_field_behavior raised %s: %s" % (type(e).__name__, e)})
                return tr
            events.append({"op": "setbeh", "v": mu["v"]})
        elif mu["op"] in ("reorder", "refused"):
            obj = (do_refused if mu["op"] == "refused" else do_reorder)(obj, mu)
            if obj is None:
                return tr
        if mu["op"] in ("other", "setbeh", "setbehfails", "reorder", "refused"):
            if dump_parse(obj, cname == "Release" and cur_beh == "dak" and mu["single_left"]) is None:
                return tr
            continue
        f = mu["f"]
        fname, subs = api.spell(table[f - 1]["f"]), table[f - 1]["subs"]
        if mu["op"] in ("assign", "delete") and mu.get("poison"):
            import random
            poison(obj, fname, subs, random.Random(mu["poison"]))      # out of the domain, replaced by the next step: not logged
        try:
            if mu["op"] == "append":
                obj[fname].append(dict(zip(subs, mu["rec"])))
                events.append({"op": "append", "f": f, "rec": [pool.tok(t) for t in mu["rec"]]})
            elif mu["op"] == "setsize":
                obj[fname][mu["r"] - 1]["size"] = mu["tok"]
                events.append({"op": "setsize", "f": f, "r": mu["r"], "tok": pool.tok(mu["tok"])})
            elif mu["op"] == "assign":
                api.build(obj, fname, [dict(zip(subs, rec)) for rec in mu["recs"]])
                events.append({"op": "assign", "f": f, "form": "multi",
                               "recs": [[pool.tok(t) for t in rec] for rec in mu["recs"]]})
            else:
                del obj[fname]
                events.append({"op": "delete", "f": f})
        except Exception as e:
            events.append({"op": "error", "what": "%s raised %s: %s" % (mu["op"], type(e).__name__, e)})
            return tr
        if dump_parse(obj, cname == "Release" and cur_beh == "dak" and mu["single_left"]) is None:
            return tr
    return tr


def corrupt(t, how):
    """negative controls: life cycles the specification must NOT accept"""
    import copy
    t = copy.deepcopy(t)
    evs = t["events"]
    for i, e in enumerate(evs):
        if how == "swap" and e["op"] == "parse":
            for fl in e["fields"]:
                if len(fl["recs"]) >= 2 and fl["recs"][0] != fl["recs"][1]:
                    fl["recs"][0], fl["recs"][1] = fl["recs"][1], fl["recs"][0]
                    return t
        if how == "name" and e["op"] == "parse" and e["fields"]:
            e["fields"][0]["recs"][0][0]["n"] += "x"
            return t
        if how == "drop" and e["op"] == "parse" and e["fields"]:
            if len(e["fields"][0]["recs"]) >= 2:
                e["fields"][0]["recs"].pop()
                return t
        if how == "pad" and e["op"] == "dump" and t["cls"] in ("Release", "PdiffIndex"):
            for fl in e["fields"]:
                if fl["form"] == "multi" and all(line[1]["len"] <= 16 for line in fl["lines"]):
                    fl["lines"][0][1]["pad"] += 1
                    return t
        if how == "overwide" and e["op"] == "dump" and t["cls"] == "Release" and t["beh"] != "dak" \
                and not any(x["op"] == "setbeh" for x in evs):
            # pretend a size LONGER than the 16 of apt-ftparchive is preceded by more than the separating blank
            for fl in e["fields"]:
                if fl["form"] == "multi":
                    for line in fl["lines"]:
                        if line[1]["len"] > 16 and line[1]["pad"] == 1:
                            line[1]["pad"] = 1 + max(1, 80 - line[1]["len"])
                            return t
        if how == "keyerror" and e["op"] == "dump":
            e["res"], e["fields"] = "KeyError", []
            del evs[i + 1:]
            return t
        if how == "lostfield" and e["op"] == "dump" and len(e["fields"]) >= 1:
            e["fields"].pop()
            return t
        if how == "lostmutation" and e["op"] in ("append", "delete") and i + 1 < len(evs):
            del evs[i]
            return t
        if how == "aliased" and e["op"] == "setsize" and i + 1 < len(evs) and evs[i + 1]["op"] == "dump":
            # pretend the edit of one position also shows at another position of the list
            for fl in evs[i + 1]["fields"]:
                if fl["f"] == e["f"] and fl["form"] == "multi":
                    for q, line in enumerate(fl["lines"]):
                        if q != e["r"] - 1 and line[1]["id"] != e["tok"]["id"]:
                            line[1].update(id=e["tok"]["id"], len=e["tok"]["len"])
                            return t
        if how == "unpadded_after_reorder" and e["op"] == "reorder" and t["cls"] in ("Release", "PdiffIndex") \
                and i + 1 < len(evs) and evs[i + 1]["op"] == "dump":
            # pretend the dump after a re-ordering of the fields no longer pads the size column
            hit = False
            for fl in evs[i + 1]["fields"]:
                if fl["form"] == "multi":
                    for line in fl["lines"]:
                        if line[1]["pad"] > 1 and line[1]["len"] <= 16:
                            line[1]["pad"], hit = 1, True
            if hit:
                return t
        if how == "lost_after_reorder" and e["op"] == "reorder" and i + 1 < len(evs) and evs[i + 1]["op"] == "dump" \
                and evs[i + 1]["fields"]:
            evs[i + 1]["fields"].pop(0)
            return t
        if how == "lost_after_refused" and e["op"] == "refused" and i + 1 < len(evs) and evs[i + 1]["op"] == "dump" \
                and evs[i + 1]["fields"]:
            # pretend the dump after a refused call no longer writes one of the present fields
            lost = evs[i + 1]["fields"].pop(0)["f"]
            if i + 2 < len(evs) and evs[i + 2]["op"] == "parse":
                evs[i + 2]["fields"] = [fl for fl in evs[i + 2]["fields"] if fl["f"] != lost]
            return t
        if how == "stalewidth" and e["op"] in ("append", "setsize") and t["cls"] in ("Release", "PdiffIndex") \
                and t["beh"] != "apt-ftparchive" and i + 1 < len(evs) and evs[i + 1]["op"] == "dump":
            # pretend the dump after an in-place mutation still pads to some other width
            for fl in evs[i + 1]["fields"]:
                if fl["f"] == e["f"] and fl["form"] == "multi":
                    for line in fl["lines"]:
                        line[1]["pad"] += 2
                    return t
    return None


def validate(ctx, traces, with_controls=True):
    controls = []
    if with_controls:
        for how in ("swap", "name", "drop", "pad", "overwide", "keyerror", "lostfield", "lostmutation", "stalewidth", "aliased",
                    "unpadded_after_reorder", "lost_after_reorder", "lost_after_refused"):
            for t in traces:
                c = corrupt(t, how)
                if c:
                    controls.append(c)
                    break
    acc, _, r = core.validate_traces(ctx, "TraceMultiValued", "TraceMultiValued.cfg", traces,
                                     extra_env={"TRACE_DIAG": "0"}, controls=controls)
    rejected = [i for i in range(1, len(traces) + 1) if i not in acc]
    info = {}
    if rejected:
        sub = [traces[i - 1] for i in rejected[:20]]
        _, prog, _ = core.validate_traces(ctx, "TraceMultiValued", "TraceMultiValued.cfg", sub,
                                          extra_env={"TRACE_DIAG": "1"})
        for j, i in enumerate(rejected[:20]):
            info[i] = prog.get(j + 1, 0)
    return rejected, info, len(controls)


# ------------------------------------------------------------------ the check

class Bg:
    """a job in a background thread (TLC is a subprocess: the runs overlap with each other and with
    the Python work).  Nothing here touches ctx: the bookkeeping of ctx.tlc is done by account()
    in the main thread when no other thread is running"""

    def __init__(self, fn):
        self.res = self.exc = None

        def work():
            try:
                self.res = fn()
            except BaseException as e:          # re-raised in join()
                self.exc = e
        self.th = threading.Thread(target=work)
        self.th.start()

    def join(self):
        self.th.join()
        if self.exc:
            raise self.exc
        return self.res


def bg_tlc(ctx, module, cfg, **kw):
    kw.setdefault("timeout", 900 if ctx.tier == "quick" else 7200)
    return Bg(lambda: core.run_tlc(module, cfg, ctx.work, **kw))


def account(ctx, module, r, count=True):
    ctx.tlc_runs.append({"module": module, "generated": r.generated, "distinct": r.distinct,
                         "depth": r.depth, "wall_s": round(r.wall, 2), "violated": r.violated})
    if count:
        ctx.states += r.distinct
        ctx.transitions += r.generated


def cfg_with(name, **subst):
    text = open(os.path.join(core.SPEC, name)).read()
    for k, v in subst.items():
        text, n = re.subn(r"(?m)^(\s*%s\s*=\s*).*$" % k, lambda m: m.group(1) + str(v), text)
        if n != 1:
            raise core.MachineryError("cannot set %s in %s" % (k, name))
    return text


def compare_tables(ctx, tables):
    """diagnostic: the documented tables (from the specification) against the class attributes"""
    diffs = []
    for cname, table in tables.items():
        try:
            real = get_class(cname)._multivalued_fields
        except Exception as e:
            ctx.drift("cannot read %s._multivalued_fields: %s" % (cname, e))
            continue
        doc = {fld["f"].lower(): list(fld["subs"]) for fld in table}
        for k in sorted(set(doc) | set(real)):
            if doc.get(k) != (list(real[k]) if k in real else None):
                diffs.append("%s.%s: documented %r, class has %r" % (cname, k, doc.get(k), real.get(k)))
    for d in diffs:
        ctx.drift("table mismatch: " + d)
    ctx.extra["table_mismatches"] = diffs


def run(ctx):
    quick = ctx.tier == "quick"
    rng = ctx.rng
    WORK[0] = ctx.work
    ctx.assumptions += [
        "D3: record lists are non-empty, a record has one token per documented sub-field, tokens contain no white space = no code point str.split() splits on (the 29 code points with str.isspace(), incl. NBSP, U+2003, U+3000; U+200B and U+FEFF are allowed); tokens are otherwise arbitrary Unicode (non-NFC text and its precomposed twin as different tokens, non-BMP, zero-width characters), compared by code point",
        "rejected operations: an illegal size_field_behavior whose exception is caught must leave the option unchanged (if it is accepted instead: unspecified); a record with a newline / white-space token is outside the domain -- executed before a re-assignment or deletion of the field, its outcome is ignored and must leave no trace",
        "size dimension (notes/SIZE_STRESS.md): the model is abstract in the number of records and in the length of digests/names; replayed cases are also run with their records replicated to 9..257 (a few: 1000) records, identical and fresh copies, and with tokens of boundary lengths up to 4097; recorded traces contain up to 1000 records, sizes of 1..25 digits (2**31, 2**63, 10**18, leading zeros), names up to 1025 characters, identical records",
        "model: <= 2 records per field in the closed configurations (sizes 1..18 characters and up to 81), histories of <= 2 mutations (append / size in place / assign / delete / one re-ordering of the fields / one refused call, also before the first dump) with a dump after each; up to 6 records, arbitrary lengths, up to 3 mutations and any number of re-orderings and refused calls in the recorded traces",
        "re-ordering the fields (sort_fields, order_first/last/before/after) between building / parsing and dumping is inside the domain: the paragraph is still 'a paragraph built from records' / 'a parsed paragraph'; the ORDER of the fields in the dump is never a verdict (C09); key functions are total and their results comparable; field names are asked for in any spelling (look-ups are documented to be case-insensitive)",
        "refused calls (error paths, notes/SIZE_STRESS.md part 5) are inside the domain: the statement quantifies over 'every subset of the class's structured fields being present' and 'a parsed paragraph' / 'a paragraph built from records', and a call that raises (a re-ordering relative to an ABSENT optional field, an absent item, itself; deletion / look-up of an absent field; sort_fields with a faulting key function; dump(fd) with a faulting fd; a faulting source of lines for another paragraph) is caught by the caller and leaves such a paragraph: the model's step changes nothing, the next dump must write every present field with the same records; what the refused call itself raises (or whether it is accepted) is never a verdict",
        "file objects (notes/SIZE_STRESS.md part 4): the expected result does not depend on the kind of file object nor on where the block boundaries fall; every kind in FILE_KINDS_IN / FILE_KINDS_OUT is used in every run, aligned cases put a line end at / next to byte offsets 2**9..2**17",
        "unspecified (executed, any outcome accepted): Release/dak with a single-line field",
        "sizes longer than the documented width are inside the domain ('any list of whitespace-free records'; 'the field 16 characters long regardless'): the width is a minimum width, a longer size token is written in full after ONE blank and the other sizes of the field are padded to 16 (apt-ftparchive) / to the longest size whatever its length (dak, PdiffIndex); sizes of 15/16/17, 40, 64/65, 80/81 characters are shapes of the model, the recorded traces draw 14..128",
        "blanks other than the padding of the size column of Release/PdiffIndex multi-line fields are diagnostic (spec_drift), not verdicts",
        "concretization of tokens is sampled (seeded); trusted: TLC, the regex projection of dump(), the concretizer",
    ]
    # ---- 1. design level (does not depend on /repo): closed configurations + negative controls,
    #         all started now; the Python work below overlaps with them
    emit_off = (ctx.seed * 7 + 3) % 3360
    cfg_s, cfg_p = ("MC_MultiValued_quick.cfg", "MC_MultiValued_quick_pdiff.cfg") if quick else \
                   ("MC_MultiValued.cfg", "MC_MultiValued_pdiff.cfg")
    jobs = {
        "pdiff": bg_tlc(ctx, "MultiValued", cfg_with(cfg_p, EmitOff=emit_off), workers=max(1, WORKERS // 2), want_tags={"CASE"}),
        "small": bg_tlc(ctx, "MultiValued", cfg_with(cfg_s, EmitOff=emit_off), workers=max(1, WORKERS - 2), want_tags={"CASE"}),
        "neg_iterate": bg_tlc(ctx, "MultiValued", cfg_with("MC_MultiValued_neg_iterate.cfg", Emit="TRUE"), workers=1, want_tags={"TABLES"}),
    }
    negs = {"neg_cache": ("CacheWidths", ("WidthRule", "RightAligned")),
            "neg_shared": ("SharedEqualRecords", ("EditIsLocal",)),
            "neg_classopt": ("ClassLevelOption", ("WidthTable", "WidthRule")),
            "neg_storefirst": ("StoreBeforeValidate", ("DumpTotal", "OtherIsOther")),
            "neg_plainkeys": ("ReorderStoresPlainKeys", ("WidthTable", "WidthRule")),
            "neg_refused": ("RefusedUnlinksFirst", ("DumpExplains", "RecordsRoundTrip"))}
    # these spec-level controls do not depend on the tree: one of them per quick run (by seed), all in thorough
    todo = sorted(negs) if not quick else [sorted(negs)[ctx.seed % len(negs)]]
    for name in todo:
        jobs[name] = bg_tlc(ctx, "MultiValued", "MC_MultiValued_%s.cfg" % name, workers=1, want_tags=set())
    if not quick:
        jobs["neg_split"] = bg_tlc(ctx, "MultiValued", "MC_MultiValued_neg_split.cfg", workers=1, want_tags=set())
        jobs["neg_iterate_ok"] = bg_tlc(ctx, "MultiValued", "MC_MultiValued_neg_iterate_ok.cfg", workers=1, want_tags=set())
    try:
        r1 = jobs["neg_iterate"].join()
        if r1.violated != "DumpTotal":
            raise core.MachineryError("negative control IterateAllFields: TLC reported %r instead of a violation of DumpTotal" % r1.violated)
        tables = r1.printed["TABLES"][0]
        compare_tables(ctx, tables)

        # ---- 2. code -> spec: record life cycles, validate them in the background
        ntr = 300 if quick else 1000
        recipes = [gen_recipe(rng, tables) for _ in range(ntr)]
        for big, cnt in ((100, 2), (257, 1), (1000, 1)) if quick else ((100, 12), (257, 6), (1000, 3)):
            recipes += [gen_recipe(rng, tables, big=big) for _ in range(cnt)]
        traces = [execute(rc, tables) for rc in recipes]
        jobs["traces"] = Bg(lambda: validate(ctx, traces))

        # ---- 3. spec -> code: replay the CASE lines of each run as soon as it is finished
        stats = {"per_mode": {}, "per_class": {}, "n": 0, "shown": set()}
        r_small = jobs["small"].join()
        must_hold(r_small)
        replay_cases(ctx, r_small, tables, 2, stats)
        r_pdiff = jobs["pdiff"].join()
        must_hold(r_pdiff)
        replay_cases(ctx, r_pdiff, tables, 1, stats)

        rneg = {}
        for name in todo:
            rneg[name] = jobs[name].join()
            if rneg[name].violated not in negs[name][1]:
                raise core.MachineryError("negative control %s: TLC reported %r instead of a violation of %s"
                                          % (negs[name][0], rneg[name].violated, negs[name][1][0]))
        r2 = r3 = None
        if not quick:
            r2 = jobs["neg_split"].join()
            if r2.violated not in ("RecordsRoundTrip", "SubFieldNames"):
                raise core.MachineryError("negative control SplitEverySpace: TLC reported %r instead of a violation of RecordsRoundTrip" % r2.violated)
            r3 = jobs["neg_iterate_ok"].join()
            if r3.violated:
                raise core.MachineryError("IterateAllFields must not affect the classes whose width ignores the records; TLC reported %r" % r3.violated)
        rejected, info, ncontrols = jobs["traces"].join()
    finally:
        for j in jobs.values():
            j.th.join()
    # all threads are finished: bookkeeping
    for r, cnt in [(r1, False)] + [(rneg[n], False) for n in todo] + [(r2, False), (r3, False), (r_small, True), (r_pdiff, True)]:
        if r is not None:
            account(ctx, "MultiValued", r, cnt)
    ctx.extra["negative_controls_spec"] = {"IterateAllFields": r1.violated}
    ctx.extra["negative_controls_spec"].update({negs[n][0]: rneg[n].violated for n in todo})
    if r2 is not None:
        ctx.extra["negative_controls_spec"].update({"SplitEverySpace": r2.violated, "IterateAllFields on classes without lookup": r3.violated or "holds"})
    ctx.extra["cases_per_mode"] = stats["per_mode"]
    ctx.extra["cases_per_class"] = stats["per_class"]
    ctx.extra["cases_replayed"] = stats["n"]
    ctx.extra["api_variants"] = dict(sorted(API_COUNTS.items()))
    expected = (["parse:" + v for v in PARSE_VARIANTS] + ["build:" + v for v in BUILD_VARIANTS] + ["dump:" + v for v in DUMP_VARIANTS]
                + ["xform:" + v for v in XFORM_VARIANTS] + ["setbeh:property", "setbeh:set_size_field_behavior"]
                + ["reorder:" + v for v in REORDER_KINDS] + ["refused:" + v for v in REFUSED_KINDS] + ["fkind_in:" + v for v in FILE_KINDS_IN] + ["fkind_out:" + v for v in FILE_KINDS_OUT])
    missing = [v for v in expected if not API_COUNTS.get(v)]
    if missing and not ctx.violations:       # (a run cut short by violations need not have reached every variant)
        raise core.MachineryError("API variants never exercised in this run: %s" % missing)
    ctx.extra["refused_calls"] = dict(sorted(REFUSED_COUNTS.items()))
    ctx.extra["aligned_cases"] = stats.get("aligned", {})
    ctx.extra["file_object_kinds"] = {"input": {k[9:]: v for k, v in sorted(API_COUNTS.items()) if k.startswith("fkind_in:")},
                                      "output": {k[10:]: v for k, v in sorted(API_COUNTS.items()) if k.startswith("fkind_out:")}}
    ctx.extra["cases_size_stressed"] = {"n": stats.get("stressed", 0), "with_1000_records": stats.get("thousand", 0)}
    ctx.extra["model"] = {"cfgs": [cfg_s, cfg_p], "EmitOff": emit_off,
                          "states": r_small.distinct + r_pdiff.distinct, "generated": r_small.generated + r_pdiff.generated,
                          "fields_per_class": {k: len(v) for k, v in tables.items()}}
    ctx.extra["negative_controls_traces"] = ncontrols
    # sizes longer than 16 characters (= longer than the column of Release/apt-ftparchive; the longest size of dak / PdiffIndex)
    ctx.extra["sizes_beyond_width"] = {
        "cases": stats.get("beyond_width", {}),
        "traces": {k: sum(1 for t in traces if t["cls"] + ("" if t["beh"] == "-" else "/" + t["beh"]) == k and any(
            e["op"] == "dump" and any(fl["form"] == "multi" and any(line[1]["len"] > 16 for line in fl["lines"]) for fl in e["fields"])
            for e in t["events"])) for k in ("Release/apt-ftparchive", "Release/dak", "PdiffIndex")}}
    if not ctx.violations and (not ctx.extra["sizes_beyond_width"]["cases"].get("Release/apt-ftparchive")
                               or not ctx.extra["sizes_beyond_width"]["traces"]["Release/apt-ftparchive"]):
        raise core.MachineryError("no Release/apt-ftparchive field with a size longer than its column was exercised: %r" % ctx.extra["sizes_beyond_width"])

    ctx.traces += len(traces)
    ctx.evaluations += len(traces)
    per_dir = {}
    for i, (rc, t) in enumerate(zip(recipes, traces)):
        ctx.distinct.add(("trace", i))
        key = "%s/%s" % (rc["cls"], rc["dir"])
        per_dir[key] = per_dir.get(key, 0) + 1
    ctx.extra["traces_recorded"] = len(traces)
    ctx.extra["traces_rejected"] = len(rejected)
    ctx.extra["traces_per_class_direction"] = per_dir
    ctx.extra["traces_unspecified_dumps"] = sum(1 for t in traces if "unspecified_dump" in t)
    ctx.extra["traces_aligned"] = sum(1 for t in traces if t.get("aligned"))
    ctx.extra["traces_with_reorder"] = sum(1 for t in traces if any(e["op"] == "reorder" for e in t["events"]))
    ctx.extra["traces_with_refused_calls"] = sum(1 for t in traces if any(e["op"] == "refused" for e in t["events"]))
    ex = next((e for t in traces for e in t["events"] if e["op"] == "refused" and e["kind"] in ("before", "after")), None)
    if ex:
        ctx.sample("refused call in a recorded trace: " + ex["how"])
    ex = next((t for t in traces if t["cls"] == "PdiffIndex" and len(t["events"]) >= 3), traces[0])
    ctx.sample("recorded trace: " + json.dumps({"cls": ex["cls"], "beh": ex["beh"], "events": ex["events"][:2]},
                                              separators=(",", ":"))[:600])
    for i in rejected[:5]:
        at = info.get(i, 0)
        t = traces[i - 1]
        ev = t["events"][at] if at < len(t["events"]) else None
        ctx.violation({"kind": "trace", "recipe": recipes[i - 1], "trace": t, "first_unexplained_event": at + 1},
                      "recorded life cycle of %s%s not explained by MultiValued: event %d %s (after %d accepted events)"
                      % (t["cls"], "" if t["beh"] == "-" else "/" + t["beh"], at + 1, describe_event(t, ev), at))


def multi_all(case):
    return all(fld[2] == "multi" for fld in case["F"])


def must_hold(r):
    if r.violated:
        raise core.MachineryError("specification MultiValued violates %s\n%s" % (r.violated, r.tail))


def replay_cases(ctx, r, tables, nconc, stats):
    rng = ctx.rng
    cases = sorted(r.printed.get("CASE", []), key=lambda c: json.dumps(c, sort_keys=True))
    quick = ctx.tier == "quick"
    every = 80 if quick else 40
    every_al = 45 if quick else 40
    thousand = 2 if quick else 6
    for idx, case in enumerate(cases):
        if len(ctx.violations) >= 3:      # leave room for violations found by trace validation
            break
        stats["n"] += 1
        stats["per_mode"][case["m"]] = stats["per_mode"].get(case["m"], 0) + 1
        key = case["c"] + ("" if case["b"] == "-" else "/" + case["b"])
        stats["per_class"][key] = stats["per_class"].get(key, 0) + 1
        if case["c"] in ("Release", "PdiffIndex"):
            longest = max([n for F in [case["F"]] + [st[1] for st in case.get("H", []) if st[0] == "dump"]
                           for fld in F if fld[2] == "multi" for line in fld[6]
                           for (pad, tid, n), nm in zip(line, fld[5]) if nm == "size"] or [0])
            if longest > 16:
                bw = stats.setdefault("beyond_width", {})
                bw[key] = bw.get(key, 0) + 1
        # quick tier: one concretization per plain case (canonical / random alternately), two per history
        cs = range(nconc) if nconc > 1 and (case.get("H") or not quick) else [idx % 2]
        for c in cs:
            conc = concretize(rng, case, canonical=(c == 0))
            variant = make_variant(rng, c)
            msg = (run_history if case.get("H") else run_case)(ctx, case, conc, variant, tables)
            ctx.case_seen(("case", case["m"], case["c"], case["b"], json.dumps(case["F"]), json.dumps(case.get("H", []))), bool(case["F"]) or bool(case.get("H")))
            ctx.traces += 1
            if msg:
                ctx.violation({"kind": "case", "case": case, "conc": conc, "variant": variant, "tables": tables}, msg)
                break
        if not case.get("H") and multi_all(case) and case["F"] and idx % 25 == 7 and len(ctx.violations) < 3:
            copy_probe(ctx, case, concretize(rng, case, False), tables, rng)
        # size stress: the same abstract case with many records / long tokens / boundary numbers
        multi = [fld for fld in case["F"] if fld[2] == "multi"]
        if not case.get("H") and multi and not case["u"] and idx % every == every // 2 and len(ctx.violations) < 3:
            total = rng.choice(BOUNDARY_COUNTS)
            if thousand and len(case["F"]) <= 2 and stats.get("thousand", 0) < thousand:
                stats["thousand"] = stats.get("thousand", 0) + 1
                total = rng.choice([1000, 1001, 1025])
            stress = total <= 101 and rng.random() < 0.5
            big = blow_up(case, rng, total)
            conc = concretize(rng, big, False, stress=stress)
            variant = make_variant(rng, 1)
            msg = run_case(ctx, big, conc, variant, tables)
            ctx.case_seen(("stress", total, stress, case["m"], case["c"], case["b"], json.dumps(case["F"])), True)
            ctx.traces += 1
            stats["stressed"] = stats.get("stressed", 0) + 1
            if msg:
                ctx.violation({"kind": "case", "case": big, "conc": conc, "variant": variant, "tables": tables},
                              "[%d records per field%s] %s" % (total, ", long tokens" if stress else "", msg))
        # block-boundary alignment x kinds of file objects (notes/SIZE_STRESS.md part 4): the same abstract case
        # with a line end at / next to a byte offset 2**k, parsed from and dumped to file objects of every kind
        if not case.get("H") and case["F"] and not case["u"] and idx % every_al == every_al // 3 and len(ctx.violations) < 3:
            conc = concretize(rng, case, False)
            variant = dict(make_variant(rng, 1), files=1, reverse=False)
            al = align_case(rng, case, conc, variant)
            if al:
                conc, variant, info = al
                msg = run_case(ctx, case, conc, variant, tables)
                ctx.case_seen(("aligned", info["k"], info["d"], info["where"], case["m"], case["c"], case["b"], json.dumps(case["F"])), True)
                ctx.traces += 1
                a = stats.setdefault("aligned", {"n": 0, "by_power": {}, "by_delta": {}, "by_position": {}, "by_padding": {}})
                a["n"] += 1
                for kk, vv in (("by_power", "2**%d" % info["k"]), ("by_delta", "%+d" % info["d"]), ("by_position", info["where"]), ("by_padding", info["by"])):
                    a[kk][vv] = a[kk].get(vv, 0) + 1
                if msg:
                    ctx.violation({"kind": "case", "case": case, "conc": conc, "variant": variant, "tables": tables},
                                  "[line end %s at byte offset 2**%d%+d-1, %d bytes, through file objects] %s" % (info["where"], info["k"], info["d"], info["bytes"], msg))
        if key not in stats["shown"] and len(case["F"]) == 2 and case["m"] == "pairs":
            stats["shown"].add(key)
            ctx.sample("CASE %s: %s" % (key, json.dumps(case["F"], separators=(",", ":"))[:400]))


def describe_event(t, ev):
    if ev is None:
        return "(end)"
    if ev["op"] == "dump":
        return "dump -> %s" % ev["res"]
    if ev["op"] == "error":
        return ev["what"]
    if ev["op"] in ("append", "setsize", "assign", "delete"):
        return "%s field %d" % (ev["op"], ev["f"])
    if ev["op"] in ("setbeh", "other"):
        return "%s %s" % (ev["op"], ev.get("c", "") + ":=" + ev["v"])
    if ev["op"] == "setbehfails":
        return "rejected assignment to size_field_behavior"
    if ev["op"] == "refused":
        return "refused call %s" % ev.get("how", ev["kind"])
    return ev["op"]


def replay(ctx, case):
    WORK[0] = ctx.work
    if case["kind"] == "case":
        fn = run_history if case["case"].get("H") else run_case
        return fn(ctx, case["case"], case["conc"], case["variant"], case["tables"])
    if case["kind"] == "copyprobe":
        import random
        before = len(ctx.violations)
        copy_probe(ctx, case["case"], case["conc"], case["tables"], random.Random(0))
        return ctx.violations[-1][1] if len(ctx.violations) > before else None
    if case["kind"] == "trace":
        tables = tables_from_tlc(ctx)
        new = execute(case["recipe"], tables)
        rejected, info, _ = validate(ctx, [new], with_controls=False)
        if rejected:
            at = info.get(1, 0)
            ev = new["events"][at] if at < len(new["events"]) else None
            return "life cycle still not explained by the specification at event %d: %s" % (at + 1, describe_event(new, ev))
        return None
    return "unknown case kind"


def tables_from_tlc(ctx):
    r = ctx.tlc("MultiValued", cfg_with("MC_MultiValued_neg_iterate.cfg", Emit="TRUE"), workers=1, want_tags={"TABLES"}, count=False)
    return r.printed["TABLES"][0]
