"""C07 -- DebFile returns exactly what was packed and rejects malformed packages.

spec:      spec/DebFile.tla  (statement level: WellFormed / packed maps; code level: DOpen, DTgz,
           DNorm, DHas, DGet, DScripts, DMd5, DCtl transcribed from debian/debfile.py)
design:    closed configurations MC_DebFile_sets (all 2^15 subsets of the 15-name universe; quick: all 2^13
           subsets of 13 names, i.e. without data.tar.gz.bak and control.tar.Z),
           MC_DebFile_orders[_quick] (all injective member sequences of length <= 4 / <= 3), MC_DebFile_orders_mid
           (length <= 5 over a 9-name sub-universe),
           MC_DebFile_content[_emit] (every content: 32 script subsets x data maps x md5 subsets),
           MC_DebFile_matrix (5 x 5 compressions x contents), MC_DebFile_nodecomp; invariants
           AcceptIffWellFormed, PartsAreCandidates, OrderIrrelevant, SpellingInvariant, ContentExact,
           ExtGateDead, LazyDecompress.  Negative controls (run in every thorough check): AcceptFirstCandidate,
           InfoOptional (-> AcceptIffWellFormed violated), NormalizeSlash = FALSE (-> SpellingInvariant).
history:   spec/DebFileCache.tla -- the query part as a history over TWO open packages (same file names,
           different contents / compression) with the state an implementation may keep between calls
           made explicit (tarball memo, content memo, memoised dictionaries), Mutate (caller changes a
           returned dictionary) and Reopen (path rewritten and opened again); HistExact: every answer
           in every history = the stateless answer of DebFile.tla.  Negative controls:
           CacheKeyedByNameOnly, ResultsAliased, ContentCacheByFile (each violates HistExact).
           Round 6: ReadBegin / ReadEnd (ONE get_file() object read in two steps with any other steps of either
           package in between), ArCall (DebFile is an ArFile: getmember, [], getmembers, members, getnames, iteration,
           extractfile only look at the member table -- UNCHANGED on every part and on the half-read file) and Fault
           (the file object the CALLER gave to DebFile(fileobj=) raises once during a query: the caller's exception or
           DebError comes out, nothing changes; afterwards the ordinary history carries on).  Negative controls:
           GetMemberRewinds (getmember / [] rewinds the member it returns: ReadEnd garbage), LazyScanDiesOnFault
           (has_file walks the tarball lazily with one persistent iterator that a fault finalises).
           Round 7: Close (DebFile.close(), leaving a `with` block, __exit__, the close() of one part or of both) is an
           ORDINARY step of every history: it leaves NO trace -- a reader opened by file name lets go of its file and opens
           it again on demand, a caller's file object is left alone --, so every later query on either part and the
           remainder of a get_file() stream obtained BEFORE the close give the stateless answer.  In the domain: the
           statement says "returns the same ..." without excepting a reader that was closed, the library documents no
           "closed" state and re-opens on demand on the unchanged tree in every opening mode.  Negative control:
           CloseForgetsPosition (the re-opened member starts at its first byte: ReadEnd / get_content garbage).
fault domain (FaultDomOf of DebFileCache.tla, printed as FDOM line, checked by TLC in the sessions): a fault is specified
           to leave no trace when the part's tarball has been opened by an earlier successful query AND the part is
           stored uncompressed (tarfile reads header by header through ArMember, which seeks before every read).
           Everything else is UNSPECIFIED -- executed, the object is opened again before anything else is asked of it,
           a tainted object's answers are never verdicts -- because the standard library is not restartable there
           (found on the unchanged tree while building this, reported to the lead):
             * first query of a part: tarfile.open(mode='r:*') turns an OSError into ReadError (-> DebError, fine) but
               lets any other exception escape without seeking back: DebPart.tgz() then opens the tarball at the
               member's current position -- for gz / bz2 parts files vanish from has_file();
             * gz part, tarball open: gzip re-reads its header after a backward seek; a fault after the two magic bytes
               leaves _new_member set: every later read raises BadGzipFile("Not a gzipped file (b'\\x08\\x00')");
             * xz / lzma / bz2 part larger than the read-ahead: the BufferedReader inside LZMAFile / BZ2File keeps a
               stale position when a forward seek (read and discard) fails half way; the NEXT get_content silently
               returns bytes of the wrong offset (313 KB data.tar.lzma, OSError at the 8th read of get_content).
           Early EOF / short reads of the caller's object are indistinguishable from a truncated package: not generated.
payload:   spec/DebPayload.tla -- what "the same control fields" / "the same md5sum map" mean for the TEXT of the
           control and md5sums files, at character-class level (x non-space, b SPACE/TAB, v VT FF, s FS GS RS NEL
           LS PS, u US NBSP U+1680 U+2003.., n LF, r CR): statement level = the packed value / name and its
           domain (exact / unspec / outside), code level = Deb822(bytes) (bytes.splitlines, paragraph end, the
           three regular expressions, validate_input with str.splitlines) and md5sums() in the bytes and the text
           flavour (readlines, rstrip(CR LF), split(None, 1)).  Every sequence over the 7 classes up to length 4
           (thorough 5) and over {x,b,s,n} ({x,b,s,u,n}) up to length 7; invariants CtlExact, D1IsReject, Md5Exact.
           Negative controls (run in every thorough check): CtlSplitsLikeStr (bytes decoded first, then
           str.splitlines: CtlExact violated by x v u x), Md5StripsLine (line.strip(): Md5Exact violated by x b),
           Md5TextSplitsLikeStr (Md5Exact violated by x v).  The VAL / NAME lines say which shapes are "exact":
           ALL concretisations (replay of CASE / PROBE / HTAB, recorded traces, two-package sessions) draw about
           40 % of their file names and, in 60 % of the packages, one to three control values from those shapes
           (c07_build.gen_shape_name / gen_shape_value), so look-alike line boundaries followed by a blank, white
           space of every kind inside and at the END of names (and at the start of a leaf below a directory), an
           absent name that differs from a packed one only by trailing white space ... occur in the ordinary
           histories; a payload leg (c07_payload) also runs the shapes in the model's own frame -- exact ones as
           verdicts, all others against the code-level prediction TLC printed (difference = drift, never alarm).
domain of the payload (decided by ValDom / NameDom of DebPayload.tla, checked by TLC against the code level):
  control value  in the domain: no CR, not ending in LF, first line empty or without leading / trailing white space,
                 continuation lines start with a blank and end with a non-space character; VT FF FS GS RS NEL LS PS
                 inside a line ARE payload when followed by b / u (DebFile hands bytes to Deb822: the only line
                 terminator of the format is LF).  unspecified (DESIGN D1): such a character NOT followed by white
                 space -- Deb822's own validate_input cuts with str.splitlines and raises ValueError (D1IsReject);
                 run in the payload leg, never a verdict.  Leading / trailing white space of a value or a line:
                 outside (the format does not carry it).  A look-alike boundary as the LAST character of a line is
                 therefore outside, too.
  file name      in the domain: non-empty, no LF / CR, does not start with '/' or './'; white space (blank, TAB, VT,
                 FF, FS.., NBSP, U+3000 ...) inside and at the end is payload for the data part and for md5sums().
                 A name STARTING with white space: data-part queries are verdicts, its md5sums entry is
                 unspecified ("sum  name" cannot carry it: split(None, 1); the two flavours also disagree for
                 NBSP / FS..) -- such names are only given to files the md5sums list does not mention.
block-boundary alignment / file-object kinds (notes/SIZE_STRESS.md part 4; the expected answers do not change):
  every stressed and ~6 % of the ordinary concretisations pad the control file (a new X-Pad field, or the first
  line of a multi-line value) and the md5sums list (the first listed name) so that a line end -- between two
  fields, inside a value, at the very end -- falls on 2^k - 1, 2^k or 2^k + 1 (k = 9..17); 12 % of the recorded
  packages get a foreign ar member sized so that the data of a part starts exactly at 2^k of the package file
  (ctx.extra["aligned_cases"]).  Kinds of file object handed to DebFile(fileobj=...): BytesIO, buffered real file,
  unbuffered FileIO, BufferedReader over a raw stream with 1..7-byte reads, GzipFile / BZ2File / LZMAFile over the
  compressed package on disk (fileno() names the compressed file), SpooledTemporaryFile in memory / rolled to disk
  (ctx.extra["file_object_kinds"]).
entry points (notes/API_SURFACE.md) -- every public way of opening a package and asking it; "all legs" =
replay of CASE/PROBE/HTAB lines, recorded traces and two-package sessions; the variant used is drawn per
case / per query, so they are mixed within one history (two live objects created in different ways, `in`
then has_file then get_file().read() on the same file ...):
  DebFile(fileobj=BytesIO)                       all legs ("fileobj")
  DebFile(None, 'r', BytesIO)  (positional)      all legs ("fileobj-pos")
  DebFile(fileobj=open(path, 'rb'))              all legs ("realfile": a real buffered file object)
  DebFile(fileobj=<other kinds>)                 all legs (c07_obs.HOWS_KINDS: unbuffered, shortread, gzipfile, bz2file,
                                                 lzmafile, spooled-mem, spooled-disk; ~1 in 6 of the shared-object cases)
  DebFile(fileobj=<object that can fail>)        all legs unarmed ("flaky": BytesIO subclass, "flaky-raw": BufferedReader over
                                                 a raw stream; ~30 % of the shared-object cases); ARMED in the history legs
                                                 (HTAB replay, sessions): the k-th read (k = 1..30) raises OSError / ValueError /
                                                 KeyError / a private exception class once, during has_file, get_content, the rest
                                                 of a half-read file, scripts, md5sums, debcontrol -- early in the life of the
                                                 object (first membership query, fault during the second) and in steady state;
                                                 then has_file / get_content / scripts / md5sums on the same part carry on
  DebFile(filename=path)                         all legs ("filename")
  DebFile(path, 'r')  (positional)               all legs ("filename-pos")
  user subclass of DebFile(filename=, mode='r')  all legs ("subclass")
  mode other than 'r'                            out of domain: ArFile documents 'r' as the only supported mode
  with DebFile(...) as d / __enter__ / __exit__  replay: every third package is entered and left as a context manager; all legs: a
                                                 `with` block entered and LEFT in the middle of the history, the object used on
  close()                                        all legs, as ordinary steps (c07_obs.CLOSE_WAYS: close(), close() twice, `with`
                                                 exit, __exit__, control.close() + data.close(), one part's close()): 1..3 per
                                                 replayed table, ~9 % of the steps of the HTAB histories and the recorded
                                                 sessions (22 % while a get_file() stream of that object is half read), every
                                                 third disturbance between the chunks of a chunked read, 0..3 per recorded
                                                 single-package trace; afterwards has_file / get_content / get_file().read() /
                                                 the rest of a stream obtained before / scripts / md5sums / debcontrol carry on
  DebPart.close()                                as above ("parts", "control", "data")
  .control / .data                               all legs;  .version: diagnostic (drift) only -- not in the statement
  DebPart.tgz()                                  access path 5 (tgz().extractfile('./name').read()), tgz().getnames() in the listing check
  has_file(name)                                 all legs, always together with `name in part` and part.__contains__(name)
  iter(part) / list(part)                        replay (listing check: './name' listed <=> has_file per TLC; = tgz().getnames())
  get_content(name)                              access path 0;  part[name] / __getitem__: paths 2 and 9
  get_file(name).read()                          paths 1, 3 (chunked, other queries in between), 4 (two file objects)
  get_file(name).read(k) ... .read()             history legs: ReadBegin (k = 0..8193), any other steps of both packages --
                                                 queries, ArFile-level calls naming the very member, faults, re-open of the
                                                 OTHER package --, ReadEnd; big compressed parts in every third history
  get_content(name, encoding='latin-1')          path 6 (text result, keyword)        } only for content without '\r'
  get_file(name, 'utf-8', 'surrogateescape')     path 7 (text result, positional)     } (TextIOWrapper translates
  get_content(name, 'ascii', 'surrogateescape')  path 8 (text result, errors=)        }  newlines); mapped back to bytes
  errors='replace' / 'ignore'                    out of domain for verdicts: lossy, the statement promises "the same contents"
  DebControl.debcontrol() / scripts()            all legs, through DebFile.X() and DebFile.control.X() alternately
  md5sums()                                      all legs: no argument, encoding= keyword, positional encoding, latin-1,
                                                 ('ascii', 'surrogateescape') positional, utf-8 + errors= keyword (c07_obs.MD5_WAYS)
  DebFile.changelog()                            outside the statement (package-name lookup + changelog parser, C04/C15): diagnostic run only
  deprecated camelCase aliases                   none in this tree (debfile.py has no function_deprecated_by); c07_obs.alias_of picks up
                                                 hasFile / getContent automatically if they appear; surface_audit() reports any
                                                 public attribute of DebPart / DebData / DebControl / DebFile missing from this table as drift
  ArFile API inherited by DebFile (getnames, getmember, getmembers, members, extractfile, iteration, []): WHAT they
                                                 return is property C06; that calling them leaves the parts alone is checked
                                                 here: ArCall steps of the history legs and c07_obs.ar_glance() between the
                                                 chunks of every chunked / two-object read (all legs).  Reading THROUGH a
                                                 member obtained this way moves the position the part's decompressor relies
                                                 on: the caller's own interference, out of domain
  copy / pickle of DebFile objects               out of domain: undocumented, the objects own open files
binding:   (a) every CASE line (member list, expected Ok / DebError) is built as a real .deb (own ar
               writer, tarfile './name' members, gzip/bz2/lzma incl. FORMAT_ALONE) and opened by
               debian.debfile.DebFile; every PROBE line (content + complete table of expected query
               results for the three spellings) is concretised with real names / bytes and every
               entry is asked of the real object; thorough: dpkg-deb -b as a second packer;
               every table is asked in shuffled order, control/data and the spellings interleaved, every
               query again later through another access path (get_content, get_file().read(), [],
               chunked reads with other queries in between, two file objects at once), and scripts() /
               md5sums() / debcontrol() twice with the returned dictionary mutated in between;
               HTAB lines of DebFileCache drive random histories on two real packages open at once,
               including rewriting a path and opening it again;
           (b) random packages recorded from the real code are validated by spec/TraceDebFile.tla,
               random two-package sessions by spec/TraceDebFileCache.tla.
"""
import io
import json
import os
import random
from concurrent.futures import ThreadPoolExecutor

import core
import c07_build as B
import c07_hist as H
import c07_payload as P

MANIFEST = dict(
    technique="TLA+ specs (DebPayload: character-class model of the control / md5sums text, statement level vs. transcription of Deb822(bytes) and md5sums(); DebFile: statement-level WellFormed/packed maps + transcription of DebFile.__init__/DebPart; DebFileCache: query histories over two open packages with explicit caches) model-checked by TLC over all member-name subsets, bounded member orders and all small contents; every configuration built as a real .deb and opened by DebFile; recorded random packages validated by TLC (TraceDebFile)",
    text="TLC enumerates every subset of a 15-name member universe (debian-binary, control.tar and data.tar with none/gz/bz2/xz/lzma, four foreign names) and every injective member sequence up to length 3 (quick) / 4, and 5 over a 9-name sub-universe (thorough) and checks accept <=> has debian-binary and exactly one control and one data candidate, independence of member order, equality of the answers for 'n', './n', '/n' and that every query returns the packed blob, for every subset of the five maintainer scripts and every small data/md5sums map. Each CASE line is built as a real package and DebFile must answer Ok / DebError as TLC says (any other exception type is a violation); each PROBE line is concretised (names with spaces, non-ASCII, nested directories; binary, empty, NUL contents) and the complete table of has_file / in / get_content / get_file / [] answers, scripts(), md5sums(), debcontrol() is compared; random packages with random orders, foreign members and defects are recorded and validated by TLC. A history layer (DebFileCache) models two packages open at once with the caches an implementation might keep, caller-side mutation of returned dictionaries and rewrite + re-open of a path, and TLC checks that every answer in every history equals the stateless one; accordingly all queries are issued repeatedly, shuffled and interleaved between parts, spellings, access paths and two simultaneously open packages with equal file names, in replay and in recorded sessions. A payload layer (DebPayload) models the text of the control and md5sums files at character-class level (blank, VT/FF, FS..RS/NEL/LS/PS, NBSP.., LF, CR, non-space): TLC checks that Deb822(bytes) and md5sums() in both flavours return the packed value / file name for every shape in the domain (look-alike line boundaries followed by a blank inside control values; white space of every kind inside and at the end of file names) and prints the shapes; all concretisations draw file names and control values from them, and the payload leg runs every class of shape in the model's own frame. Line ends of the control and md5sums files and ar member starts are aligned to powers of two in a share of the cases, and packages are opened through thirteen kinds of file object. The history layer also reads files in two steps with arbitrary other steps in between, calls the ArFile interface DebFile inherits (getmember, [], getmembers, getnames, iteration: the model says they leave every part alone) and lets the caller-supplied file object raise once during a query (OSError, ValueError, KeyError, a private class, at the k-th read): the caller's exception or DebError must come out and every later answer must be the stateless one. close() / leaving a with block / a part's close() are ordinary steps of all histories (the model: no trace; a reader opened by file name opens its file again on demand): the object is used on afterwards, including streams obtained from get_file() before the close.",
    note="Payload fidelity through tarfile/compressors is sampled (seeded), structure is enumerated. Member lists whose verdict hinges on zst support (not in PART_EXTS of this tree) are unspecified: executed, either verdict accepted. Which exception reports an absent file in get_content (KeyError today) and the key type of md5sums() are diagnostic. Control values with VT FF FS GS RS NEL LS PS not followed by white space (DESIGN D1: debcontrol() raises ValueError) and md5sums entries of names that start with white space are unspecified: run, compared with the code-level model, never a verdict. A fault of the caller's file object is specified to leave no trace only for an UNCOMPRESSED part whose tarball an earlier query has opened (FaultDomOf, decided by TLC); elsewhere tarfile.open / gzip / the BufferedReader inside LZMAFile and BZ2File are themselves not restartable: those faults are executed, the object is opened again, nothing it says in between is a verdict; early EOF / short reads are not generated. Trusted: TLC, tarfile/gzip/bz2/lzma/hashlib, the ar writer, dpkg-deb and ar where present.",
    design="5 (C07)")

SPELLINGS = ["plain", "dot", "slash"]
PARTS = ["control", "data"]


from c07_obs import (classify, open_deb, drop, finish, pick_how, obs_has, obs_get, obs_md5, obs_scripts,  # noqa: E402
                     obs_ctl, obs_listing, mutate_result, take_how_count, N_ACCESS, MD5_WAYS, HOWS_SHARED, HOWS_NAMED,
                     HOWS_KINDS, HOWS_FLAKY, ar_glance, obs_close, CLOSE_WAYS)


# ------------------------------------------------------------------ spec -> code

def fmap(x):
    """JSON image of a TLA+ function on strings ([] when empty)"""
    return x if isinstance(x, dict) else {}


def expected_dicts(probe, conc):
    """concrete images of the scripts / md5sums / debcontrol answers TLC printed"""
    if conc.blob.get(probe["ctl"]) != B.render_control(conc.fields):
        raise core.MachineryError("PROBE names control blob %r which is not the control file" % probe["ctl"])
    return {"debcontrol": dict(conc.fields),
            "scripts": {n: conc.blob[b] for n, b in fmap(probe["scripts"]).items()},
            "md5sums": {conc.names[n]: conc.sum[s] for n, s in fmap(probe["md5"]).items()}}


def ask_dict(who, op, enc, exp, keep, drift=None):
    """one scripts() / md5sums() / debcontrol() call compared with the packed value; None or message"""
    if op == "debcontrol":
        err, got = obs_ctl(who, keep)
    elif op == "scripts":
        err, got = obs_scripts(who, keep)
    else:
        err, r = obs_md5(who, enc, keep)
        got = r[0] if r else None
        if r and not r[1] and drift is not None:
            drift("md5sums(%r): key/value types differ from the documented ones" % enc)
    if err or got != exp[op]:
        return "%s(%s) = %r, packed %r" % (op, "encoding=%r" % enc if enc else "", err or got, exp[op])
    return None


def check_content(deb, probe, conc, rng, level, drift=None):
    """ask the real object every entry of the table TLC printed for this content -- in shuffled
    order, control and data part and the three spellings interleaved, every query repeated later
    through another access path (get_content / get_file().read() / [] / chunked reads with other
    queries in between / two file objects at once), and scripts() / md5sums() / debcontrol() twice
    with the returned dictionary mutated in between (DebFileCache.tla: HistExact says neither the
    order nor repetition nor the mutation may change an answer).  None or message"""
    qnames = sorted(probe["has"]["data"]["plain"])
    exp = expected_dicts(probe, conc)
    full = level in ("full", "fullq")        # fullq (quick tier): half of the repetitions
    steps = []
    for p in PARTS:
        for n in qnames:
            sps = SPELLINGS
            if not full and rng.random() < 0.7:
                sps = [rng.choice(SPELLINGS)]
            for sp in sps:
                steps.append(("q", p, sp, n))
    again = {"full": 1.0, "fullq": 0.5}.get(level, 0.3)
    steps += [s for s in steps if rng.random() < again]              # (almost) everything again later
    rng.shuffle(steps)
    steps.insert(rng.randint(0, len(steps)), ("list", "control"))
    steps.insert(rng.randint(0, len(steps)), ("list", "data"))
    for op, enc in (("debcontrol", None), ("scripts", None), ("md5sums", rng.choice(MD5_WAYS[:2])),
                    ("md5sums", rng.choice(MD5_WAYS[2:]))):
        at = sorted(rng.randint(0, len(steps)) for _ in range(3))
        for k, st in enumerate([("d", op, enc), ("mutate",), ("d", op, enc)]):
            steps.insert(at[k] + k, st)
    # close() / `with` exit / a part's close() as ordinary steps: the object is used on (DebFileCache.tla: Close
    # leaves no trace -- a reader opened by file name opens its file again on demand)
    for _ in range(rng.choice([1, 2, 2, 3])):
        steps.insert(rng.randint(1, len(steps)), ("close", rng.choice(sorted(CLOSE_WAYS))))
    keep = []
    ndist = [0]

    def disturb():
        # other queries on both parts while a file object is half read
        try:
            deb.data.has_file("/control")
            deb.control.get_content("control")
        except Exception:
            pass
        ar_glance(deb)      # DebFile is an ArFile: getmember / [] / getmembers / getnames / iteration only look
        ndist[0] += 1
        if ndist[0] % 3 == 0:           # ... and the object is closed while a stream obtained before is half read
            obs_close(deb, sorted(CLOSE_WAYS)[ndist[0] // 3 % len(CLOSE_WAYS)])
    for st in steps:
        if st[0] == "close":
            err = obs_close(deb, st[1])
            if err:
                return "close() [%s] on an object that is used on afterwards: %s" % (st[1], err)
            continue
        if st[0] == "mutate":
            if keep:
                mutate_result(keep[0])
            continue
        if st[0] == "d":
            who = deb if rng.random() < 0.5 else deb.control
            msg = ask_dict(who, st[1], st[2], exp, keep, drift)
            if msg:
                return msg
            continue
        if st[0] == "list":
            # iterating a part / tgz().getnames(): './name' is listed exactly when has_file('./name') holds
            p = st[1]
            err, listing = obs_listing(deb.control if p == "control" else deb.data)
            if err:
                return "iterating the %s part: %s" % (p, err)
            for n in qnames:
                if ("./" + conc.names[n] in listing) != probe["has"][p]["dot"][n]:
                    return "iterating the %s part %s %r, specification says has_file = %s" % (
                        p, "lists" if "./" + conc.names[n] in listing else "does not list", "./" + conc.names[n],
                        probe["has"][p]["dot"][n])
            continue
        _, p, sp, n = st
        part = deb.control if p == "control" else deb.data
        path = B.SPELL[sp] + conc.names[n]
        eh = probe["has"][p][sp][n]
        eg = probe["get"][p][sp][n]
        err, found = obs_has(part, path)
        if err or found != eh:
            return "%s.has_file(%r) / in = %s, specification says %s" % (p, path, err or found, eh)
        variant = rng.randrange(N_ACCESS) if (full or level == "stress") else rng.randrange(2)
        textok = eg == 0 or b"\r" not in conc.blob[eg]
        err, data = obs_get(part, path, variant, disturb, rng, plain=conc.names[n], textok=textok)
        if err == "DebError" and eg == 0:
            # absent file reported with the package-format error instead of KeyError: accepted
            if drift is not None:
                drift("get_content of an absent file raises DebError (KeyError expected)")
            err, data = "", None
        if eg == 0:
            if err or data is not None:
                return "%s.get_content(%r) = %r for a file that was not packed" % (p, path, err or data[:60])
        elif err or data != conc.blob[eg]:
            return "%s.get_content(%r) [access path %d] = %r, packed %r" % (
                p, path, variant, err or (None if data is None else data[:80]), conc.blob[eg][:80])
    return None


def run_pkg(mem, exp, probe, conc, style, how, level, seed, work, drift=None):
    """build the package, open it with the real code, compare with what TLC said. None or message.
    exp = {'st': 'ok'|'DebError', 'unspec': bool}"""
    blob = B.build_deb(mem, conc, style)
    deb, st, path = open_deb(blob, how, work)
    with_exit = seed % 3 == 0           # every third case: the object is used as a context manager
    try:
        if deb is not None and with_exit:
            try:
                deb = deb.__enter__()
            except Exception as e:
                return "members %r: entering the `with` block raised %s" % (mem, classify(e))
        if exp["unspec"]:
            if st not in ("ok", "DebError"):
                return "DebFile(%r) raised %s" % (mem, st)
            if st != exp["st"]:
                if drift is not None:
                    drift("zst-dependent member list %r: %s (this tree's PART_EXTS predicts %s)" % (mem, st, exp["st"]))
                return None
        elif st != exp["st"]:
            return "DebFile(members %r): %s, specification says %s" % (mem, "accepted" if st == "ok" else st,
                                                                       "accepted" if exp["st"] == "ok" else exp["st"])
        if st != "ok" or probe is None:
            return None
        try:
            ver = deb.version
        except Exception as e:
            ver = classify(e)
        if ver != b"2.0" and drift is not None:
            drift("version = %r for debian-binary '2.0\\n'" % (ver,))
        msg = check_content(deb, probe, conc, random.Random(seed), level, drift)
        if msg:
            return "members %r: %s" % (mem, msg)
        bad = finish(deb, with_exit)
        if bad and drift is not None:
            drift("%s raised %s" % ("leaving the with block" if with_exit else "close()", bad))
        return None
    finally:
        drop(path)


def pkg_case(mem, exp, probe, conc, style, how, level, seed):
    return {"kind": "pkg", "mem": list(mem), "exp": exp, "probe": probe, "conc": conc.to_json(),
            "style": style, "how": how, "level": level, "seed": seed}


# ------------------------------------------------------------------ code -> spec

FOREIGN = ["_gpgorigin", "control.tar.zst", "data.tar.zst", "data.tar.gz.bak", "control.tar.Z", "debian-binary.o",
           "control.tar.gzs", "foo", "data.tar.lz", "Control.tar.gz", "control.tgz", "DEBIAN-BINARY",
           "data.tar.xz.p", "control.tar.", "data.tar.GZ", "debian_binary", "xdata.tar.gz", "data.tar.gz2"]


def cname(base, ext):
    return base + ("." + ext if ext else "")


def random_members(rng):
    ce, de = rng.choice(B.EXTS), rng.choice(B.EXTS)
    mem = [B.INFO, cname(B.CTRL_BASE, ce), cname(B.DATA_BASE, de)]

    def second(base, e):
        return cname(base, rng.choice([x for x in B.EXTS if x != e]))
    r = rng.random()
    if r < 0.08:
        mem.remove(B.INFO)
    elif r < 0.15:
        del mem[1]
    elif r < 0.22:
        del mem[2]
    elif r < 0.30:
        mem.append(second(B.CTRL_BASE, ce))
    elif r < 0.38:
        mem.append(second(B.DATA_BASE, de))
    elif r < 0.44:
        for _ in range(2):
            k = rng.randrange(5)
            if k < 3 and len(mem) > k:
                del mem[k]
            elif k == 3:
                mem.append(second(B.CTRL_BASE, ce))
            else:
                mem.append(second(B.DATA_BASE, de))
    for f in rng.sample(FOREIGN, rng.choice([0, 0, 1, 1, 2, 3])):
        mem.append(f)
    out = []
    for m in mem:           # D5: distinct member names
        if m not in out:
            out.append(m)
    if rng.random() < 0.65:
        rng.shuffle(out)
    return out


def random_package(rng, stress=None):
    """a concrete random package; its abstraction is derived from it (blob ids = identity of the bytes).
    stress 1 / 2: the size dimension -- 30 / 100+ files, names around the tar limits, several blobs of
    8..64 KiB / 128 KiB..1 MiB (mostly incompressible)"""
    if stress is None:
        r = rng.random()
        stress = 2 if r < 0.02 else 1 if r < 0.10 else 0
    scripts = [s for s in B.MAINT_SCRIPTS if rng.random() < 0.45]
    nfiles = rng.choice([0, 1, 2, 3, 4, 6, 9] if not stress else [9, 10, 11, 31, 33] if stress == 1 else [99, 100, 101, 130])
    model = ["f%d" % (i + 1) for i in range(nfiles)]
    listed = [m for m in model if rng.random() < 0.7]
    names = B.gen_names(rng, set(model) | {"absent"} | set(B.CTRL_NAMES), long_names=bool(stress), listed=set(listed))
    fields = B.gen_fields(rng)
    aligned = []
    do_align = bool(stress) or rng.random() < 0.08
    if do_align:        # a line end of the control file on a power of two (notes/SIZE_STRESS.md part 4)
        fields, info = B.align_fields(rng, fields, small=not stress)
        aligned += [info] if info else []
    dblob = {}
    nbig = 0
    for m in model:
        dblob[m] = B.gen_blob(rng)
        if stress and nbig < (6 if stress == 1 else 3) and rng.random() < 0.4:
            dblob[m] = B.gen_big_blob(rng, stress)
            nbig += 1
        if rng.random() < 0.15 and len(dblob) > 1:      # two files with the same content
            dblob[m] = dblob[rng.choice(model[:len(dblob) - 1])]
    import hashlib
    md5 = [(names[m], hashlib.md5(dblob[m]).hexdigest()) for m in listed]
    rng.shuffle(md5)
    if do_align:        # ... and a line end of the md5sums list
        md5, names, info = B.align_md5(rng, md5, names, small=not stress)
        aligned += [info] if info else []
    cfiles = [("control", B.render_control(fields)), ("md5sums", B.render_md5(md5))] + [(s, B.gen_script(rng)) for s in scripts]
    rng.shuffle(cfiles)
    dfiles = [(names[m], dblob[m]) for m in model]
    rng.shuffle(dfiles)
    conc = B.Conc.concrete(names, fields, cfiles, dfiles, md5, "gnu" if rng.random() < 0.8 else "pax")
    conc.stress = stress
    conc.aligned = aligned
    return conc, model


def abstraction(conc, model):
    """abstract content of a concrete package: blob id = position of the bytes in the table of
    distinct contents; sum id likewise for digests"""
    table, sums = {}, {}

    def bid(b):
        return table.setdefault(b, len(table) + 1)

    def sid(h):
        return sums.setdefault(h, 1001 + len(sums))
    rev = {conc.names[m]: m for m in model}
    c = {n: bid(b) for n, b in sorted(conc.cfiles)}
    d = {rev[n]: bid(b) for n, b in sorted(conc.dfiles)}
    m = {rev[n]: sid(h) for n, h in sorted(conc.md5)}
    return {"c": c, "d": d or [], "m": m or []}, table, sums, rev


def record_trace(rng, work, given=None):
    """open one package with the real code and log what it answers. `given` (replay) fixes the
    package and the calls; otherwise everything is drawn from rng."""
    if given is None:
        conc, model = random_package(rng)
        mem = random_members(rng)
        style = "dpkg" if rng.random() < 0.8 or any(len(x) > 15 for x in mem) else "gnu"
        how = pick_how(rng, 0.2, heavy=conc.stress >= 2)
        if rng.random() < 0.12:     # a part whose data starts exactly at a power of two of the package file
            mem = B.plan_ar_align(rng, mem, conc, style)
        calls = None
    else:
        conc, model, mem, style, how, calls = (B.Conc.from_json(given["conc"]), given["model"], given["mem"],
                                               given["style"], given["how"], given["calls"])
    pkg, table, sums, rev = abstraction(conc, model)
    blob = B.build_deb(mem, conc, style)
    deb, st, path = open_deb(blob, how, work)
    events = [{"op": "open", "st": st}]
    try:
        if st == "ok" and calls is None:
            calls = []
            present_c = [n for n, _ in conc.cfiles]
            for _ in range(rng.randint(6, 22)):
                p = rng.choice(PARTS)
                r = rng.random()
                if r < 0.45:
                    n = rng.choice(model) if (model and p == "data") else rng.choice(present_c)
                elif r < 0.6:
                    n = rng.choice(present_c) if p == "data" or not model else rng.choice(model)     # other part's file
                elif r < 0.8:
                    n = rng.choice(B.CTRL_NAMES)
                else:
                    n = "absent"
                calls.append([rng.choice(["has", "get"]), p, rng.choice(SPELLINGS), n, rng.randrange(N_ACCESS)])
            # most queries are asked a second time later, through another access path; shuffled
            calls += [c[:4] + [rng.randrange(N_ACCESS)] for c in calls if rng.random() < 0.6]
            rng.shuffle(calls)
            # scripts() / md5sums() / debcontrol(): twice, the returned dictionary mutated in between
            for op in ("scripts", "md5sums", "debcontrol"):
                if rng.random() < 0.7:
                    enc = rng.choice(MD5_WAYS)
                    at = sorted(rng.randint(0, len(calls)) for _ in range(3))
                    for k, cl in enumerate([[op, enc], ["mutate"], [op, rng.choice([enc, rng.choice(MD5_WAYS)])]]):
                        calls.insert(at[k] + k, cl)
            # close() / `with` exit / a part's close() in between; the object is used on (DebFileCache.tla: Close
            # changes nothing a later call answers, so it is no event of the single-package trace)
            for _ in range(rng.choice([0, 1, 2, 2, 3])):
                calls.insert(rng.randint(1, len(calls)), ["close", rng.choice(sorted(CLOSE_WAYS))])
        keep = []
        packed = {"control": dict(conc.cfiles), "data": dict(conc.dfiles)}

        def disturb():
            try:
                deb.data.has_file("/control")
                deb.control.get_content("control")
            except Exception:
                pass
            ar_glance(deb)
        for cl in (calls or []) if st == "ok" else []:
            op = cl[0]
            if op == "mutate":          # not an event: the caller's own business
                if keep:
                    mutate_result(keep[0])
                continue
            if op == "close":           # not an event either (see above); what matters is what is answered afterwards
                obs_close(deb, cl[1])
                continue
            if op in ("has", "get"):
                _, p, sp, n, variant = cl
                part = deb.control if p == "control" else deb.data
                path = B.SPELL[sp] + conc.names[n]
                mn = n if n != "absent" else "f0"
                if op == "has":
                    err, found = obs_has(part, path)
                    events.append({"op": "has", "p": p, "sp": sp, "n": mn, "err": err, "found": bool(found)})
                else:
                    pb = packed[p].get(conc.names[n])
                    err, data = obs_get(part, path, variant, disturb, random.Random(len(events)), plain=conc.names[n],
                                        textok=pb is None or b"\r" not in pb)
                    if err == "DebError":
                        herr, _ = obs_has(part, path)
                        if herr == "":          # the part opens: DebError here reports the absent file
                            err, data = "", None
                    events.append({"op": "get", "p": p, "sp": sp, "n": mn, "err": err, "found": data is not None,
                                   "blob": 0 if data is None else table.get(data, 9999)})
            elif op == "scripts":
                err, sc = obs_scripts(deb, keep)
                events.append({"op": "scripts", "err": err,
                               "map": {k: table.get(v, 9999) for k, v in (sc or {}).items()} or []})
            elif op == "md5sums":
                err, r = obs_md5(deb, cl[1], keep)
                mp = {}
                for i, (k, v) in enumerate(sorted((r[0] if r else {}).items())):
                    mp[rev.get(k, "unknown%d" % i)] = sums.get(v, 0)
                events.append({"op": "md5sums", "err": err, "map": mp or []})
            else:
                err, fields = obs_ctl(deb, keep)
                ctl_id = pkg["c"]["control"]
                events.append({"op": "debcontrol", "err": err,
                               "blob": ctl_id if (not err and fields == dict(conc.fields)) else (0 if err else 9999)})
    finally:
        drop(path)
    return {"mem": mem, "pkg": pkg, "events": events,
            "given": {"conc": conc.to_json(), "model": model, "mem": mem, "style": style, "how": how, "calls": calls or []}}


def corrupt(t, how):
    import copy
    t = copy.deepcopy(t)
    ev = t["events"]
    if how == "open":
        ev[0]["st"] = "DebError" if ev[0]["st"] == "ok" else "ok"
        if ev[0]["st"] == "DebError":
            del ev[1:]
        return t
    if how == "noopen" and ev[0]["st"] == "ok" and len(ev) > 1:
        del ev[0]
        return t
    for e in ev:
        if how == "has" and e["op"] == "has" and e["err"] == "":
            e["found"] = not e["found"]
            return t
        if how == "blob" and e["op"] == "get" and e["found"]:
            e["blob"] += 1
            return t
        if how == "scripts" and e["op"] == "scripts" and e["map"]:
            k = sorted(e["map"])[0]
            del e["map"][k]
            e["map"] = e["map"] or []
            return t
    return None


def strip_given(t):
    return {"mem": t["mem"], "pkg": t["pkg"], "events": t["events"]}


def validate(ctx, traces, with_controls=True):
    """-> (rejected trace ids, {id: events explained before the first unexplained one}).
    Corrupted copies of recorded traces ride along as negative controls.  A control only counts
    when the trace it was derived from is itself accepted (corrupting a trace that is already wrong
    -- the code under test may be broken -- can accidentally repair it): an accepted control with an
    accepted source means the binding is vacuous -> MachineryError."""
    slim = [strip_given(t) for t in traces]
    ctl = []            # (source position, corrupted trace)
    if with_controls:
        for how in ("open", "noopen", "has", "blob", "scripts"):
            n = 0
            for k, t in enumerate(slim):
                # zst-dependent member lists accept either verdict: not usable as an 'open' control
                if how == "open" and any(x.endswith(".zst") for x in t["mem"]):
                    continue
                c = corrupt(t, how)
                if c:
                    ctl.append((k, c))
                    n += 1
                    if n == 4:
                        break
    acc, _, r = core.validate_traces(ctx, "TraceDebFile", "TraceDebFile.cfg", slim + [c for _, c in ctl],
                                     extra_env={"TRACE_DIAG": "0"},
                                     java_opts=C1 if len(slim) < 1000 else None)
    effective = 0
    for j, (k, c) in enumerate(ctl):
        if (k + 1) in acc:
            if (len(slim) + j + 1) in acc:
                raise core.MachineryError("trace module TraceDebFile accepted a corrupted control trace "
                                          "(derived from accepted trace %d): binding is vacuous" % (k + 1))
            effective += 1
    rejected = [i for i in range(1, len(traces) + 1) if i not in acc]
    if with_controls:
        if effective == 0 and not rejected:
            raise core.MachineryError("no effective negative control for trace validation")
        ctx.extra["negative_controls_rejected"] = ctx.extra.get("negative_controls_rejected", 0) + effective
    info = {}
    if rejected:
        sub = [slim[i - 1] for i in rejected[:20]]
        _, prog, _ = core.validate_traces(ctx, "TraceDebFile", "TraceDebFile.cfg", sub, extra_env={"TRACE_DIAG": "1"},
                                          java_opts=C1)
        for j, i in enumerate(rejected[:20]):
            info[i] = prog.get(j + 1, 0)
    return rejected, info


# ------------------------------------------------------------------ the check

NEGATIVE = [("MC_DebFile_neg_first.cfg", "AcceptIffWellFormed"), ("MC_DebFile_neg_slash.cfg", "SpellingInvariant"),
            ("MC_DebFile_neg_info.cfg", "AcceptIffWellFormed")]
NEGATIVE_HIST = [("MC_DebFileCache_neg_name.cfg", "HistExact"), ("MC_DebFileCache_neg_alias.cfg", "HistExact"),
                 ("MC_DebFileCache_neg_content.cfg", "HistExact"), ("MC_DebFileCache_neg_rewind.cfg", "HistExact"),
                 ("MC_DebFileCache_neg_scan.cfg", "HistExact"), ("MC_DebFileCache_neg_close.cfg", "HistExact")]
NEGATIVE_PAYLOAD = [("MC_DebPayload_neg_split.cfg", "CtlExact"), ("MC_DebPayload_neg_strip.cfg", "Md5Exact"),
                    ("MC_DebPayload_neg_lines.cfg", "Md5Exact")]
C1 = ["-XX:TieredStopAtLevel=1"]
MODULE_OF = {"hist": "DebFileCache", "payload": "DebPayload"}


def account(ctx, module, r, count=True):
    ctx.tlc_runs.append({"module": module, "generated": r.generated, "distinct": r.distinct,
                         "depth": r.depth, "wall_s": round(r.wall, 2), "violated": r.violated})
    if count:
        ctx.states += r.distinct
        ctx.transitions += r.generated


class CtxView:
    """what core.validate_traces needs of a Ctx, with its own scratch directory and locked bookkeeping,
    so that two trace validations (two TLC runs) can go side by side"""
    _lock = __import__("threading").Lock()

    def __init__(self, ctx, sub):
        self.ctx = ctx
        self.work = os.path.join(ctx.work, sub)
        os.makedirs(self.work, exist_ok=True)
        self.extra = ctx.extra
        self.tlc_runs = []

    def tlc(self, module, cfg, count=True, **kw):
        kw.setdefault("timeout", 900 if self.ctx.tier == "quick" else 7200)
        r = core.run_tlc(module, cfg, self.work, **kw)
        with CtxView._lock:
            self.tlc_runs.append(module)
            account(self.ctx, module, r, count)
        return r


def read_tagged(r, tag):
    """the payloads of the <<"TAG", "json">> lines of a TLC run kept with keep_raw (core's generic
    value parser is too slow for 10^5 lines): the printed TLA+ string literal is a JSON string
    literal, and what it contains is the ToJson text"""
    out = []
    prefix = '<<"%s", ' % tag
    with open(r.raw_path, errors="replace") as f:
        for line in f:
            if line.startswith(prefix):
                lit = line[len(prefix):].rstrip("\n")
                if not lit.endswith(">>"):
                    raise core.MachineryError("truncated %s line in TLC output: %r" % (tag, line[:100]))
                out.append(json.loads(json.loads(lit[:-2])))
    return out


PAIRS = [(c, d) for c in B.EXTS for d in B.EXTS]


def content_members(i, k, rnd, verdicts):
    """member list for the i-th content case: walks through the 25 compression pairs and the member
    orders; the expected verdict is the CASE line TLC printed for exactly this list.  (The table
    was printed for one valid package; ContentExact, checked by TLC in the matrix and orders
    configurations, makes it independent of the compression pair and the member order.)"""
    ce, de = PAIRS[(i + 7 * k) % 25]
    mem = [B.INFO, cname(B.CTRL_BASE, ce), cname(B.DATA_BASE, de)]
    if i % 3 == 1:
        rnd.shuffle(mem)
    c = verdicts.get(tuple(mem))
    if c is None:
        raise core.MachineryError("no CASE line for member list %r" % (mem,))
    return mem, {"st": c["st"], "unspec": c["unspec"]}


def _work_content(args):
    """pool worker: tasks (i, k, probe record, seed, mem, expected verdict) -> (n, failures, drifts)"""
    tasks, work, quick = args
    B.load_shapes(work)
    fails, drifts = [], []
    for i, k, pr, seed, mem, exp in tasks:
        rnd = random.Random(seed)
        qn = sorted(pr["probe"]["has"]["data"]["plain"])
        # size dimension (notes/SIZE_STRESS.md): some contents get big incompressible blobs, 30 / 100+
        # padding members and names around the tar limits; fewer queries, both opening modes
        stress = 0 if k else 2 if i % (397 if quick else 197) == 13 else 1 if i % (31 if quick else 23) == 5 else 0
        conc = B.Conc(rnd, pr["pkg"], qn, canonical=(k == 0 and i % 7 == 0 and not stress), stress=stress)
        style = "dpkg" if any(len(x) > 15 for x in mem) or rnd.random() < 0.8 else "gnu"
        how = pick_how(rnd, 0.4 if stress else 0.1, heavy=stress >= 2)
        # quick: the complete table for every second content, a sample of it (every name, usually one
        # spelling) for the others
        level = "stress" if stress else (("fullq" if i % 2 == 0 else "medium") if quick else "full")
        msg = run_pkg(mem, exp, pr["probe"], conc, style, how, level, seed, work, drifts.append)
        if msg:
            fails.append(((i, k), msg, pkg_case(mem, exp, pr["probe"], conc, style, how, level, seed)))
    return len(tasks), fails, drifts[:20], worker_stats()


def _work_members(args):
    """pool worker: member lists (j, CASE record) against shared concretisations"""
    cases, concs, seed, full_every, work = args
    B.load_shapes(work)
    fails, drifts = [], []
    for j, c in cases:
        rnd = random.Random(seed * 1000003 + j)
        mem = c["mem"]
        exp = {"st": c["st"], "unspec": c["unspec"]}
        probe, conc = concs[(j * 31 + len(mem)) % len(concs)]
        style = "dpkg" if any(len(x) > 15 for x in mem) or rnd.random() < 0.8 else "gnu"
        how = pick_how(rnd, 0.03)
        if c["st"] == "ok":
            level = "full" if j % full_every == 0 else "medium"
        else:
            probe, level = None, "open"
        sd = rnd.getrandbits(32)
        msg = run_pkg(mem, exp, probe, conc, style, how, level, sd, work, drifts.append)
        if msg:
            fails.append((j, msg, pkg_case(mem, exp, probe, conc, style, how, level, sd)))
    return len(cases), fails, drifts[:20], worker_stats()


def _work_traces(args):
    """pool worker: record one random package per seed"""
    seeds, work = args
    B.load_shapes(work)
    return [record_trace(random.Random(sd), work) for sd in seeds], worker_stats()


def worker_stats():
    """what the concretisations of this worker drew since the last call (evidence only)"""
    st = B.take_stats()
    for k, v in take_how_count().items():
        st["how:" + k] = v
    return st


KNOWN_SURFACE = {
    "DebPart": {"tgz", "has_file", "get_file", "get_content", "close"},
    "DebData": set(),
    "DebControl": {"scripts", "debcontrol", "md5sums"},
    "DebFile": {"version", "data", "control", "debcontrol", "scripts", "md5sums", "changelog", "close",
                # inherited from ArFile (property C06)
                "getmember", "getmembers", "members", "getnames", "extractall", "extract", "extractfile"},
}


def surface_audit(ctx):
    """diagnostic: a public attribute of the debfile classes that the entry-point table in the module
    docstring does not know is reported as drift (camelCase aliases of known methods are exercised
    automatically by c07_obs.alias_of)"""
    import debian.debfile as m
    unknown = []
    inherited = set()
    for cname_, known in KNOWN_SURFACE.items():
        cls = getattr(m, cname_, None)
        if cls is None:
            ctx.drift("class %s is gone from debian.debfile" % cname_)
            continue
        inherited |= known if cname_ == "DebPart" else set()
        have = {n for n in dir(cls) if not n.startswith("_")}
        extra = have - known - (inherited if cname_ in ("DebData", "DebControl") else set())
        missing = known - have
        for n in sorted(extra):
            unknown.append("%s.%s" % (cname_, n))
        for n in sorted(missing):
            ctx.drift("entry point %s.%s of the C07 table no longer exists" % (cname_, n))
    for u in unknown:
        ctx.drift("public entry point %s is not in the C07 entry-point table (not exercised unless it is a camelCase alias)" % u)
    ctx.extra["public_surface_unknown"] = unknown


def changelog_diag(ctx):
    """diagnostic only -- changelog() is outside the statement (it combines debcontrol()['package'],
    data.has_file / get_file and the changelog parser of C04 / C15)"""
    import gzip
    text = ("hello (1.0-1) unstable; urgency=medium\n\n  * Initial release.\n\n"
            " -- A Maintainer <a@example.org>  Sat, 26 Sep 2026 12:00:00 +0000\n").encode()
    fields = [("Package", "hello"), ("Version", "1.0-1"), ("Architecture", "all"),
              ("Maintainer", "A Maintainer <a@example.org>"), ("Description", "x")]
    for doc, want in (("changelog.Debian.gz", "1.0-1"), (None, None)):
        dfiles = [("usr/share/doc/hello/" + doc, gzip.compress(text, mtime=0))] if doc else [("usr/bin/hello", b"x")]
        conc = B.Conc.concrete({}, fields, [("control", B.render_control(fields)), ("md5sums", b"")], dfiles, [])
        deb, st, _ = open_deb(B.build_deb([B.INFO, "control.tar.gz", "data.tar.xz"], conc), "fileobj", ctx.work)
        try:
            cl = deb.changelog() if st == "ok" else None
            got = None if cl is None else str(cl.version)
        except Exception as e:
            got = "EXC:" + type(e).__name__
        if got != want:
            ctx.drift("changelog() of a package %s changelog.Debian.gz gives %r (expected %r)" % ("with" if doc else "without", got, want))
    ctx.extra["changelog_diag"] = "done"


def decompressor_diag(ctx):
    """diagnostic only (the statement does not cover it): MC_DebFile_nodecomp says a part whose
    decompressor is missing is accepted by Open and answers every query with DebError"""
    import tarfile
    rnd = random.Random(7)
    pkg = {"c": {"control": 1, "md5sums": 2}, "d": {"f1": 11}, "m": []}
    conc = B.Conc(rnd, pkg, ["f1", "absent"] + B.CTRL_NAMES, canonical=True)
    blob = B.build_deb([B.INFO, "control.tar.xz", "data.tar.gz"], conc)
    saved = tarfile.TarFile.OPEN_METH
    try:
        tarfile.TarFile.OPEN_METH = {k: v for k, v in saved.items() if k != "xz"}
        deb, st, _ = open_deb(blob, "fileobj", ctx.work)
        if st != "ok":
            ctx.drift("xz decompressor hidden: Open says %s, the model says ok (lazy decompression)" % st)
            return
        err, _ = obs_ctl(deb)
        herr, _ = obs_has(deb.control, "control")
        derr, found = obs_has(deb.data, "/usr/bin/hello")
        if err != "DebError" or herr != "DebError":
            ctx.drift("xz decompressor hidden: control queries give %r / %r, the model says DebError" % (err, herr))
        if derr or not found:
            ctx.drift("xz decompressor hidden: the gz data part is affected (%r)" % (derr or found,))
        ctx.extra["decompressor_missing_diag"] = "Open ok; control queries -> %s; data part unaffected: %s" % (err, found)
    finally:
        tarfile.TarFile.OPEN_METH = saved


def _work_hist(args):
    """pool worker: random two-package histories against the HTAB table TLC printed"""
    seeds, lines, nsteps, work, fdom = args
    B.load_shapes(work)
    tab, pkgs, prts = H.load_table(lines)
    fails, drifts, nq = [], [], 0
    for sd in seeds:
        stress = 2 if sd % 29 == 0 else 1 if sd % 3 == 0 else 0
        case = H.gen_hist(random.Random(sd), tab, pkgs, prts, nsteps if stress < 2 else 30, stress, fdom)
        nq += len(case["ops"])
        msg = H.run_hist(case, work, drifts.append)
        if msg:
            fails.append((sd, msg, H.hist_to_json(case)))
    return len(seeds), fails, drifts[:20], nq, worker_stats()


def _work_sessions(args):
    seeds, work = args
    B.load_shapes(work)
    return [H.record_session(random.Random(sd), work) for sd in seeds], worker_stats()


def chunks(lst, n):
    k = max(1, (len(lst) + n - 1) // n)
    return [lst[i:i + k] for i in range(0, len(lst), k)]


def run(ctx):
    import multiprocessing
    import shutil
    import time
    quick = ctx.tier == "quick"
    rng = ctx.rng
    W = int(os.environ.get("VERIF_TLC_WORKERS") or (2 if quick else 8))
    nproc = int(os.environ.get("VERIF_REPLAY_PROCS") or (6 if quick else 8))
    ctx.assumptions += [
        "member-name universe of the model: debian-binary, control.tar/data.tar x {none,gz,bz2,xz,lzma}, _gpgorigin, control.tar.zst, data.tar.gz.bak, control.tar.Z; all subsets, all orders up to length %d%s" % (3 if quick else 4, "" if quick else ", up to length 5 over a 9-name sub-universe"),
        "packages are built the way dpkg-deb builds them (D5): tar members './name', distinct ar member names; file names have no LF / CR and do not start with '/' or './'; white space inside and at the end of a name is payload; a name starting with white space is never listed in md5sums (the line format cannot carry it: unspecified)",
        "control values (DebPayload.tla: ValDom): no CR, first line without leading / trailing white space, continuation lines start with a blank and end with a non-space character; VT FF FS GS RS NEL LS PS inside a line are payload when followed by white space, unspecified (DESIGN D1, ValueError from Deb822.validate_input) otherwise",
        "member lists whose verdict depends on zst being a recognised extension are unspecified (this tree: not in PART_EXTS)",
        "payload (names, bytes, control values) is sampled with the run's seed; the exception type for get_content of an absent file and the key type of md5sums() are diagnostic",
        "trusted: TLC, tarfile/gzip/bz2/lzma/hashlib, the ar writer, dpkg-deb / ar (thorough)",
        "faults of the caller-supplied file object (one exception at the k-th read): verdicts only for uncompressed parts whose tarball is already open (DebFileCache.tla: FaultDomOf); unopened or compressed parts are unspecified (the standard library's tarfile.open / gzip / BufferedReader-in-LZMAFile are not restartable) -- executed, then the object is opened again; early EOF / short reads are not generated (a truncated package)",
        "close() / `with` exit / DebPart.close() do not end the life of the object: the reader re-opens on demand (DebFileCache.tla: Close leaves no trace), every later answer is a verdict in every opening mode",
        "ArFile-level calls on a DebFile only inspect the member table (name, size); reading through a member obtained that way is the caller's own interference with the part: out of domain",
    ]
    if not B.UTF8_FS:
        ctx.assumptions.append("file system encoding is not UTF-8: generated file names restricted to ASCII")
    timeout = 900 if quick else 3000
    timing = {}
    t0 = time.time()

    def lap(name):
        nonlocal t0
        timing[name] = round(timing.get(name, 0) + time.time() - t0, 1)
        t0 = time.time()

    # replay workers are forked before any thread exists
    procs = multiprocessing.get_context("fork").Pool(nproc)
    pool = ThreadPoolExecutor(max_workers=6)
    try:
        _run(ctx, quick, rng, W, nproc, procs, pool, timeout, timing, lap)
    finally:
        pool.shutdown(wait=False, cancel_futures=True)
        procs.terminate()
        procs.join()
    ctx.extra["timing_s"] = timing


def _run(ctx, quick, rng, W, nproc, procs, pool, timeout, timing, lap):
    import shutil

    def tlc(cfg, workers=W, small=False, module="DebFile"):
        # short runs are dominated by JIT compilation: C1 only halves their CPU time
        return pool.submit(core.run_tlc, module, cfg, ctx.work, workers=workers, want_tags=set(),
                           timeout=timeout, keep_raw=True, java_opts=C1 if (quick or small) else None)
    jobs = {"payload": tlc("MC_DebPayload_quick.cfg" if quick else "MC_DebPayload.cfg", 2 if quick else 4, quick, "DebPayload"),
            "content": tlc("MC_DebFile_content_emit.cfg" if quick else "MC_DebFile_content.cfg"),
            "sets": tlc("MC_DebFile_sets_quick.cfg" if quick else "MC_DebFile_sets.cfg"),
            "orders": tlc("MC_DebFile_orders_quick.cfg" if quick else "MC_DebFile_orders.cfg")}
    if not quick:
        jobs["orders_mid"] = tlc("MC_DebFile_orders_mid.cfg")
        jobs["matrix"] = tlc("MC_DebFile_matrix.cfg")
        jobs["nodecomp"] = tlc("MC_DebFile_nodecomp.cfg", 2, True)
    jobs["hist"] = tlc("MC_DebFileCache.cfg", 3, True, "DebFileCache")
    # the spec-level negative controls (six more JVMs) run in the thorough tier only
    negs = [] if quick else [(cfg, inv, tlc(cfg, 2, True)) for cfg, inv in NEGATIVE]
    negs += [] if quick else [(cfg, inv, tlc(cfg, 2, True, "DebFileCache")) for cfg, inv in NEGATIVE_HIST]
    negs += [] if quick else [(cfg, inv, tlc(cfg, 2, True, "DebPayload")) for cfg, inv in NEGATIVE_PAYLOAD]
    results = {}
    stats = {}

    def add_stats(st):
        for k, v in st.items():
            stats[k] = stats.get(k, 0) + v

    def result(name, tag=None):
        r = jobs[name].result()
        if r.violated:
            raise core.MachineryError("specification %s (%s) violates %s\n%s" % (MODULE_OF.get(name, "DebFile"), name, r.violated, r.tail))
        results[name] = r
        out = (read_tagged(r, tag) if isinstance(tag, str) else tuple(read_tagged(r, t) for t in tag)) if tag else None
        shutil.rmtree(os.path.dirname(r.raw_path), ignore_errors=True)
        return out

    # ---- the payload layer first: every concretisation below draws control values and file names from the
    #      shapes TLC calls exact (spec/DebPayload.tla); the replay workers read them from the scratch directory
    vals, pnames = result("payload", ("VAL", "NAME"))
    lap("wait_tlc")
    shapes = B.shape_tables(vals, pnames)
    B.save_shapes(ctx.work, shapes)
    ctx.extra["payload_shapes"] = {"values_exact": len(shapes["val_exact"]), "values_other": len(shapes["val_diag"]),
                                   "names_exact": len(shapes["name_exact"]), "names_other": len(shapes["name_diag"]),
                                   "values_with_lookalike_boundary": len([v for v in shapes["val_exact"] if "s" in v or "v" in v]),
                                   "names_ending_in_white_space": len([n for n in shapes["name_exact"] if n[-1] in "bvsu"])}
    ctx.sample("payload shapes (x non-space, b blank, v VT/FF, s FS..RS/NEL/LS/PS, u NBSP.., n LF): exact values e.g. %s; exact names e.g. %s; outside the statement e.g. value %s, name %s"
               % ([v for v in shapes["val_exact"] if "s" in v][:3], [n for n in shapes["name_exact"] if n[-1] in "bu"][:3],
                  [(l["v"], l["dom"]) for l in shapes["val_diag"] if "s" in l["v"]][:2], [(l["nm"], l["dom"]) for l in shapes["name_diag"] if l["dom"] == "unspec"][:2]))
    pseed = rng.getrandbits(48)
    prng = random.Random(pseed)
    n_ex, n_dg = (110, 90) if quick else (1500, 1500)
    pv_e = [{"v": v, "dom": "exact"} for v in prng.sample(shapes["val_exact"], min(n_ex, len(shapes["val_exact"])))]
    pn_e = [{"nm": n, "dom": "exact"} for n in prng.sample(shapes["name_exact"], min(n_ex, len(shapes["name_exact"])))]
    pv_d = prng.sample(shapes["val_diag"], min(n_dg, len(shapes["val_diag"])))
    d1 = [l for l in shapes["val_diag"] if l["dom"] == "unspec"]           # the DESIGN D1 zone is always represented
    pv_d = prng.sample(d1, min(12, len(d1))) + pv_d[:max(0, len(pv_d) - 12)]
    pn_d = prng.sample(shapes["name_diag"], min(n_dg, len(shapes["name_diag"])))
    payload_job = procs.apply_async(P.work_payload, ((pseed, pv_e, pn_e, pv_d, pn_d, ctx.work),))

    # ---- code -> spec, recording: random packages opened by the real code
    ntr = 250 if quick else 2500
    tseeds = [rng.getrandbits(48) for _ in range(ntr)]
    trace_jobs = [procs.apply_async(_work_traces, ((ch, ctx.work),)) for ch in chunks(tseeds, nproc)]
    sseeds = [rng.getrandbits(48) for _ in range(80 if quick else 800)]
    session_jobs = [procs.apply_async(_work_sessions, ((ch, ctx.work),)) for ch in chunks(sseeds, nproc)]
    hseeds = [rng.getrandbits(48) for _ in range(64 if quick else 600)]

    pending = []        # (label, async result)
    n_pkg = 0

    # ---- the contents TLC enumerated, with the complete table of expected answers
    probes = sorted(result("content", "PROBE"), key=lambda c: json.dumps(c["pkg"], sort_keys=True))
    lap("wait_tlc")
    if not probes:
        raise core.MachineryError("no PROBE lines from the content configuration")
    nconc = 1 if quick else 2
    # concretisations shared by the member-list cases
    concs = []
    for i, pr in enumerate(probes):
        if i % (8 if quick else 4) == 0:
            qn = sorted(pr["probe"]["has"]["data"]["plain"])
            concs.append((pr["probe"], B.Conc(rng, pr["pkg"], qn, canonical=(i == 0))))
    mid = probes[len(probes) // 2]
    ctx.sample("content case: pkg=%s -> scripts=%s md5=%s; file names e.g. %s" % (
        json.dumps(mid["pkg"], separators=(",", ":")), json.dumps(mid["probe"]["scripts"], separators=(",", ":")),
        json.dumps(mid["probe"]["md5"], separators=(",", ":")),
        json.dumps(sorted(concs[len(concs) // 2][1].names.values())[:3], ensure_ascii=False)))
    ctx.extra["content_cases"] = len(probes)
    lap("prepare_content")

    # ---- spec -> code (1): every member list TLC enumerated
    per_why = {}
    set_cases = None
    verdicts = {}
    for name in ("sets", "orders") if quick else ("sets", "orders", "orders_mid"):
        cases = sorted(result(name, "CASE"), key=lambda c: c["mem"])
        lap("wait_tlc")
        if not cases:
            raise core.MachineryError("no CASE lines from configuration %s" % name)
        if name == "sets":
            set_cases = cases
        ctx.extra["member_lists_" + name] = len(cases)
        for c in cases:
            per_why[c["why"] or "ok"] = per_why.get(c["why"] or "ok", 0) + 1
            if len(c["mem"]) == 3:
                verdicts[tuple(c["mem"])] = c
        seed = rng.getrandbits(30)
        for ch in chunks(list(enumerate(cases)), nproc * 3):
            pending.append((name, procs.apply_async(_work_members, ((ch, concs, seed, 8 if quick else 3, ctx.work),))))
        ctx.distinct.update((name, tuple(c["mem"])) for c in cases)
        ctx.evaluations += len(cases)
        m3 = cases[len(cases) // 3]
        ctx.sample("member list (%s): %s -> %s%s" % (name, m3["mem"], m3["st"], " (" + m3["why"] + ")" if m3["why"] else ""))
        lap("dispatch_" + name)
    ctx.extra["open_verdicts"] = per_why

    # ---- spec -> code (2): every content, complete query table, across the 25 compression pairs
    tasks = []
    for i, pr in enumerate(probes):
        for k in range(nconc):
            sd = rng.getrandbits(32)
            mem, exp = content_members(i, k, random.Random(sd + 1), verdicts)
            tasks.append((i, k, pr, sd, mem, exp))
    for ch in chunks(tasks, nproc * 2):
        pending.append(("content", procs.apply_async(_work_content, ((ch, ctx.work, quick),))))
    lap("dispatch_content")

    # ---- spec -> code (0): two packages open at once, interleaved / repeated queries, mutation, re-open,
    #      partial reads, ArFile-level calls, faults of the caller's file object (its TLC run is the longest: awaited last)
    hlines, fdoms = result("hist", ("HTAB", "FDOM"))
    lap("wait_tlc")
    if not fdoms or set(fdoms[0]) != {"dom", "exc"}:
        raise core.MachineryError("no FDOM line (fault domain) from the history configuration")
    for ch in chunks(hseeds, nproc):
        pending.append(("hist", procs.apply_async(_work_hist, ((ch, hlines, 60 if quick else 90, ctx.work, fdoms[0]),))))
    ctx.extra["fault_domain"] = fdoms[0]
    ctx.extra["history_table_lines"] = len({json.dumps(t, sort_keys=True) for t in hlines})

    # ---- thorough: the 5 x 5 matrix x contents, exactly as TLC printed it
    if not quick:
        mp = sorted(result("matrix", "PROBE"), key=lambda c: json.dumps([c["mem"], c["pkg"]], sort_keys=True))
        lap("wait_tlc")
        # a PROBE line is printed only for a member list TLC accepted
        tasks = [(i, 1, pr, rng.getrandbits(32), pr["mem"], {"st": "ok", "unspec": False}) for i, pr in enumerate(mp)]
        for ch in chunks(tasks, nproc * 2):
            pending.append(("matrix", procs.apply_async(_work_content, ((ch, ctx.work, quick),))))
        ctx.extra["matrix_cases"] = len(mp)

    # ---- code -> spec, validation (TLC) while the replay workers are busy
    traces, sessions = [], []
    for j in trace_jobs:
        ts, st = j.get(timeout)
        traces += ts
        add_stats(st)
    for j in session_jobs:
        ts, st = j.get(timeout)
        sessions += [t for t in ts if t]
        add_stats(st)
    lap("record_traces")
    # the two trace validations (two TLC runs) go side by side
    sess_val = pool.submit(H.validate_sessions, CtxView(ctx, "sessions"), sessions, C1 if len(sessions) < 500 else None)
    rejected, info = validate(CtxView(ctx, "traces"), traces)
    lap("validate_traces")
    ctx.evaluations += len(traces)
    for i in range(len(traces)):
        ctx.distinct.add(("trace", i))
    ok_tr = [t for t in traces if t["events"][0]["st"] == "ok" and len(t["events"]) > 3]
    if ok_tr:
        ctx.sample("recorded trace: " + json.dumps({"mem": ok_tr[0]["mem"], "pkg": ok_tr[0]["pkg"], "events": ok_tr[0]["events"][:3]},
                                                  separators=(",", ":")))
    found = {}          # label -> [(case, message)]: at most two replay files per kind of evidence
    for i in rejected:
        t = traces[i - 1]
        at = info.get(i, 0)
        ev = t["events"][at] if at < len(t["events"]) else None
        found.setdefault("trace", []).append((
            {"kind": "trace", "given": t["given"], "events": t["events"], "first_unexplained_event": at + 1},
            "members %r: recorded behaviour not explained by DebFile.tla: event %d %r (after %d accepted events)"
            % (t["mem"], at + 1, ev, at)))
    ctx.extra["traces_recorded"] = len(traces)
    ctx.extra["traces_rejected"] = len(rejected)
    ctx.extra["trace_open_verdicts"] = {k: sum(1 for t in traces if t["events"][0]["st"] == k)
                                        for k in sorted({t["events"][0]["st"] for t in traces})}

    # ---- code -> spec (2): recorded two-package sessions validated against DebFileCache.tla
    srej, sinfo = sess_val.result()
    lap("validate_sessions")
    ctx.evaluations += len(sessions)
    for i in range(len(sessions)):
        ctx.distinct.add(("session", i))
    for i in srej:
        t = sessions[i - 1]
        at = sinfo.get(i, 0)
        ev = t["events"][at] if at < len(t["events"]) else None
        found.setdefault("session", []).append((
            {"kind": "session", "given": t["given"], "objs": t["objs"], "events": t["events"], "first_unexplained_event": at + 1},
            "two packages open (members %r / %r): recorded history not explained by DebFileCache.tla: event %d %r (after %d accepted events)"
            % (t["objs"][0]["mem"], t["objs"][1]["mem"], at + 1, ev, at)))
    if sessions:
        ctx.sample("two-package session: " + json.dumps({"objs": sessions[0]["objs"], "events": sessions[0]["events"][:4]},
                                                        separators=(",", ":"))[:700])
    ctx.extra["sessions_recorded"] = len(sessions)
    ctx.extra["sessions_rejected"] = len(srej)
    ctx.extra["session_events"] = sum(len(t["events"]) for t in sessions)

    # ---- thorough: dpkg-deb as an independent packer
    if not quick:
        dpkg_leg(ctx, probes, set_cases)
        lap("dpkg_leg")

    # ---- collect the replay results (in dispatch order: deterministic)
    per_label = {}
    hist_queries = 0
    for label, ar in pending:
        got = ar.get(timeout)
        n, fails, drifts = got[:3]
        add_stats(got[-1])
        if label == "hist":
            hist_queries += got[3]
            n *= 2          # two packages per history
        n_pkg += n
        per_label[label] = per_label.get(label, 0) + n
        for d in drifts:
            ctx.drift(d)
        for key, msg, case in fails:
            found.setdefault(label, []).append((case, msg))
    n, fails, drifts, count = payload_job.get(timeout)
    n_pkg += n
    per_label["payload"] = n
    for d in drifts:
        ctx.drift(d)
    for key, msg, case in fails:
        found.setdefault("payload", []).append((case, msg))
    obs = count.pop("notes", {})
    ctx.extra["unspecified_payload_observations"] = obs
    for what, notes in sorted(obs.items()):
        for note in notes[:2]:          # observations in the unspecified zone (diagnostic, never a verdict)
            ctx.sample("unspecified payload: " + note, limit=10)
    for k, c in sorted(count.items()):
        for i in range(c if k.endswith(":exact") else 0):
            ctx.case_seen(("payload", k, i), True)
    ctx.extra["payload_cases"] = count
    ctx.extra["history_steps_replayed"] = hist_queries
    for label in ("content", "matrix", "hist"):
        for i in range(per_label.get(label, 0)):
            ctx.case_seen((label, i), True)
    ctx.extra["packages_per_configuration"] = per_label
    for label in ("payload", "hist", "sets", "orders", "orders_mid", "content", "matrix", "session", "trace"):
        for case, msg in found.get(label, [])[:1 if label in ("sets", "orders", "orders_mid", "matrix") else 2]:
            ctx.violation(case, msg)
    if found:
        ctx.extra["violating_cases"] = {k: len(v) for k, v in found.items()}
    lap("collect_replays")

    # ---- design-level runs: nodecomp + negative controls
    if not quick:
        result("nodecomp")
    ncontrols = {}
    for cfg, inv, f in negs:
        r = f.result()
        shutil.rmtree(os.path.dirname(r.raw_path), ignore_errors=True)
        ncontrols[cfg] = r.violated
        account(ctx, "DebFileCache" if "Cache" in cfg else "DebPayload" if "Payload" in cfg else "DebFile", r, count=False)
        if r.violated != inv:
            raise core.MachineryError("negative control %s: expected %s to be violated, TLC says %r" % (cfg, inv, r.violated))
    lap("wait_tlc")
    for name, r in results.items():
        account(ctx, MODULE_OF.get(name, "DebFile"), r)
    ctx.extra["spec_negative_controls"] = ncontrols
    decompressor_diag(ctx)
    surface_audit(ctx)
    changelog_diag(ctx)
    ev = {}
    for t in traces:
        for e in t["events"]:
            ev[e["op"]] = ev.get(e["op"], 0) + 1
    ctx.extra["trace_events_per_action"] = ev
    ctx.extra["model_constants"] = {
        "Universe": "debian-binary, control.tar[.gz|.bz2|.xz|.lzma], data.tar[...], _gpgorigin, control.tar.zst, data.tar.gz.bak, control.tar.Z (15 names)",
        "sets": "all 2^13 subsets of 13 names (thorough: 2^15 of 15)" if quick else "all 2^15 subsets", "orders": "injective sequences of length <= %d" % (3 if quick else 4),
        "orders_mid": None if quick else "injective sequences of length <= 5 over 9 names",
        "content": "32 script subsets x partial maps {f1,f2%s} -> {11,12} x md5 subsets" % ("" if quick else ",f3"),
        "matrix": None if quick else "25 compression pairs x 32 script subsets x {f1} -> {11,12} x md5 subsets",
        "payload": "DebPayload: every sequence over {x,b,v,s,u,n,r} up to length %d and over %s up to length 7" % (
            (4, "{x,b,s,n}") if quick else (5, "{x,b,s,u,n}")),
        "spellings": SPELLINGS, "trace packages": "<= 9 files, 18 foreign member names, random order"}
    ctx.extra["tlc"] = {n: {"distinct": r.distinct, "generated": r.generated, "wall_s": round(r.wall, 1)} for n, r in results.items()}
    ctx.extra["packages_built_and_opened"] = n_pkg
    add_stats(worker_stats())           # what the parent process itself concretised (shared concs, dpkg-deb leg)
    ctx.extra["file_object_kinds"] = {k[4:]: v for k, v in sorted(stats.items()) if k.startswith("how:")}
    ctx.extra["aligned_cases"] = {k[8:]: v for k, v in sorted(stats.items()) if k.startswith("aligned:")}
    ctx.extra["payload_drawn"] = {k: v for k, v in sorted(stats.items()) if k.startswith(("value:", "name:"))}
    ctx.extra["history_steps_per_kind"] = {k[5:]: v for k, v in sorted(stats.items()) if k.startswith("step:")}
    ctx.extra["session_events_per_kind"] = {k[6:]: v for k, v in sorted(stats.items()) if k.startswith("event:")}
    if not stats.get("step:fault-in-domain") or not stats.get("step:ar") or not stats.get("step:re") or not stats.get("step:close"):
        ctx.drift("history leg without %s steps in this run" % "/".join(
            k for k in ("fault-in-domain", "ar", "re", "close") if not stats.get("step:" + k)))
    missing = [k for k in HOWS_SHARED + HOWS_NAMED + HOWS_KINDS + HOWS_FLAKY if not stats.get("how:" + k)]
    if missing:
        ctx.drift("file-object kinds not drawn in this run: %s" % ", ".join(missing))
    ctx.traces += n_pkg + len(traces) + len(sessions)


def dpkg_leg(ctx, probes, set_cases):
    """the same contents packed by dpkg-deb (independent ar/tar writer); expected verdict = the CASE
    line TLC printed for the member list dpkg-deb produced, expected answers = the PROBE table"""
    rng = ctx.rng
    verdict = {tuple(c["mem"]): c for c in set_cases}
    variants = [("gzip", True), ("xz", True), ("none", True), ("xz", False), ("none", False)]
    done, skipped = 0, {}
    cand = [p for p in probes if True]
    rng.shuffle(cand)
    for i, pr in enumerate(cand[:40]):
        qn = sorted(pr["probe"]["has"]["data"]["plain"])
        conc = B.Conc(rng, pr["pkg"], qn, canonical=(i == 0), align=False)
        z, uni = variants[i % len(variants)]
        wd = os.path.join(ctx.work, "dpkg")
        os.makedirs(wd, exist_ok=True)
        path, why = B.dpkg_build(wd, conc, z, uni)
        if not path:
            skipped[why[:60]] = skipped.get(why[:60], 0) + 1
            continue
        try:
            names = B.ar_names(path)
            c = verdict.get(tuple(names or ()))
            if c is None:
                skipped["member list %r not in the model" % (names,)] = 1
                continue
            from debian.debfile import DebFile
            try:
                deb, st = DebFile(filename=path), "ok"
            except Exception as e:
                deb, st = None, classify(e)
            msg = None
            if st != c["st"]:
                msg = "dpkg-deb -Z%s package with members %r: %s, specification says %s" % (z, names, st, c["st"])
            elif st == "ok":
                seed = rng.getrandbits(32)
                msg = check_content(deb, pr["probe"], conc, random.Random(seed), "full", ctx.drift)
                if msg:
                    msg = "dpkg-deb -Z%s package: %s" % (z, msg)
            done += 1
            ctx.case_seen(("dpkg", i), True)
            if msg:
                ctx.violation({"kind": "dpkg", "probe": pr["probe"], "conc": conc.to_json(), "z": z, "uniform": uni,
                               "exp": {"st": c["st"], "unspec": c["unspec"]}}, msg)
                break           # one replay file from this leg is enough
        finally:
            drop(path)
    ctx.extra["dpkg_deb_packages"] = done
    if skipped:
        ctx.extra["dpkg_deb_skipped"] = skipped
    ctx.traces += done


def replay(ctx, case):
    if case["kind"] == "pkg":
        conc = B.Conc.from_json(case["conc"])
        return run_pkg(case["mem"], case["exp"], case["probe"], conc, case["style"], case["how"], case["level"],
                       case["seed"], ctx.work)
    if case["kind"] == "dpkg":
        conc = B.Conc.from_json(case["conc"])
        wd = os.path.join(ctx.work, "dpkg")
        os.makedirs(wd, exist_ok=True)
        path, why = B.dpkg_build(wd, conc, case["z"], case["uniform"])
        if not path:
            return None
        from debian.debfile import DebFile
        try:
            deb, st = DebFile(filename=path), "ok"
        except Exception as e:
            deb, st = None, classify(e)
        if st != case["exp"]["st"]:
            return "dpkg-deb package: %s, specification says %s" % (st, case["exp"]["st"])
        return check_content(deb, case["probe"], conc, random.Random(0), "full") if st == "ok" else None
    if case["kind"] == "payload":
        return P.run_case(case, ctx.work)[0]
    if case["kind"] == "hist":
        return H.run_hist(case, ctx.work)
    if case["kind"] == "session":
        t = H.record_session(random.Random(0), ctx.work, given=case["given"])
        if t is None:
            return "a package of the session can no longer be opened"
        rejected, info = H.validate_sessions(ctx, [t], java_opts=C1, with_controls=False)
        if rejected:
            return "history still not explained by the specification at event %d" % (info.get(1, 0) + 1)
        return None
    if case["kind"] == "trace":
        t = record_trace(random.Random(0), ctx.work, given=case["given"])
        rejected, info = validate(ctx, [t], with_controls=False)
        if rejected:
            return "behaviour still not explained by the specification at event %d" % (info.get(1, 0) + 1)
        return None
    return "unknown case kind"
