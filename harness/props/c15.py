"""C15 -- changelog parsing is total and strictness-consistent; output is a normal form.

spec:      spec/Changelog.tla (shared with C04): parse_changelog as a five-state automaton over 24 line
           classes (one named branch per branch of the loop, guard table + the if/elif cascade of the
           code, incremental outputs warn / destination / close / next state), the end-of-input and
           empty-file rules, the formatter, Formattable, and the editing calls new_block / add_change
           (with the "insert before the trailing blank lines" rule) / attribute assignment.
           spec/TraceChangelog.tla: trace validation (shared with C04).
model checking
   lts     closed, history-free (documents abstracted away, counters saturated), all 24 classes in
           every reachable control state, both allow_empty_author settings: Total, Deterministic,
           CascadeAgrees (guard table = if/elif cascade), StrictIffWarn (the strict run is the lenient
           run cut at the first warning), SlurpOnlyFromHeading, TrailingHasTarget; end-of-input rule.
           PayloadFree (round 6): the report of a warning branch QUOTES a piece of the offending line (Quoted: the
           whole line -- HJunk, CJunk, the rejected bare ' --', the one-space trailer --, one key=value item, the
           urgency value, the folded key); that piece is data: for every class in every reachable state the outcome
           of the report (Report: none / report / crash) is the same for every payload kind (PayloadKinds = plain |
           fmt: the free-text pieces of the line hold text that means something to a formatting mini-language --
           '%', '%s', '%d', '%(x)s', '{}', '{0}', lone braces, backslash escapes, '$x').  In the domain: the statement
           quantifies over every input text and junk lines are named in its quantifier.
   text    bounded: every text of <= 5 lines (thorough: <= 7 lines) obtained from a well-formed one
           by one mutation (thorough also: <= 4 lines by two mutations) -- insert a line of any class,
           delete or duplicate a line -- and every prefix of it: NormalForm (Formattable(D) => Blocks(Parse(Format(D))) = Blocks(D) /\\ Format(Parse(
           Format(D))) = Format(D)), CleanRoundTrip, StrictIffWarn, and the C04 invariants on the
           unmutated texts.
   edit    <= 2 (thorough 3 resp. 4) editing calls on the empty changelog and on every changelog parsed
           from a short (mutated) text: NormalFormEdited.
           Spec-level negative controls (all in the thorough tier, the first and the fourth in the
           quick tier; each must make TLC report the named invariant): Bug = "noBranch:CNoDetailsReject" ->
           Total; "twoBranches" -> Deterministic; "strictSkips:CEnd" -> StrictIffWarn; "diagFormats:CJunk" (quick and
           thorough: the report of the branch uses the quoted line as a format string) -> PayloadFree;
           "trailingFirst" -> NormalForm; "authorOnTruncated" (drops the domain guard) ->
           NormalFormEdited.
   hist    formatting as part of the history (shared with C04): on every two-block changelog parsed from
           a well-formed text, <= 3 (thorough 4) calls out of Fmt (str(changelog) / str(block)), attribute
           assignment on ANY block through the block object, in-place container edits (other_pairs[k] = v,
           changes().append / insert / del, add_trailing_line), new_block, add_change: FormatIsCurrent
           (every observed output is the reference Format of the CURRENT document), NormalFormHist.
           Negative controls Bug = "OlderBlocksMemo" (quick and thorough) and "BlockRenderCache"
           (thorough): the two round-2 seeded changes -> FormatIsCurrent.
   proc    call histories of one PROCESS (round 5): every complete one-block text of <= 4 lines with <= 2
           mutations out of the warning classes (defective headings, one-space / bare trailer, junk; the same
           line twice) is parsed 3 times (thorough: texts of <= 5 lines; 4 times on <= 3 lines) in one process,
           strict or lenient in every order, the other allow_empty_author setting in the last call where a bare
           ' --' line makes it matter: ProcHistoryFree (every call has the outcome of the reference parse,
           whatever was parsed before in whatever mode), StrictIffWarnProc (the statement across calls: ANY
           strict parse of a text raises exactly when ANY lenient parse of it warns).  Negative controls
           Bug = "HeadingMemo" (quick and thorough: split heading memoised per process, keyed by the line text,
           diagnostics on a miss only -> StrictIffWarnProc) and "DiagOnce" (thorough: every diagnostic reported
           once per process -> ProcHistoryFree).
   unset   None as an edit value (round 5): <= 2 (thorough 3) calls out of the six attributes assigned None,
           new_block with / without arguments, add_change, version / author assigned a value, on the empty
           changelog and on every prefix of a one-block text; Changelog.version = None has two outcomes in the
           model (unset, or kept as a value -- today the version "None"): NormalFormEdited over both.  Negative
           control Bug = "unsetFormatsEmpty" (None stored as an empty version: 'pkg () dist' is no heading ->
           NormalFormEdited).
binding:   (a) every edge of the closed LTS (control state x class) is replayed: shortest class path to
               the source state + the class (+ the shortest warning-free completion to a state where
               the end-of-input rule is silent, so that every warning kind is also seen as the ONLY
               warning of a text), concretized, parsed before and after the line; the
               predicted incremental output (warning, block opened / closed, where the line went) is
               compared with the real parser (diagnostic), the C15 laws are verdicts; every edge carries the payload
               kinds of the specification and the outcome of its report per kind (EDGE fields q, rep): it is replayed in
               canonical form, with random payloads and with the kind "fmt" -- the edge's own line and the completion
               are written by cc.conc_haz, which puts format-string hazards (cc.FMT_HAZ) into every free-text piece of
               a line of ANY class (heading comment / items / urgency value, change text, maintainer name and address,
               mode lines, keywords, comments, old-format markers 1 - 5, junk); "the quoted line is in a message,
               verbatim" is a diagnostic;
           (b) every CASE text of the bounded configuration x both allow_empty_author settings,
               concretized (eight old-format shapes, editor mode lines, $Id$ keywords, '# ' and
               '/* */' comments, one-space trailers, bare ' --', junk, defective headers);
           (c) every CASE of the edit configuration: the editing calls are applied to the real object
               with well-formed arguments (DESIGN D3);
           (d) random mutated changelogs of up to 60 lines parsed prefix by prefix, and random editing
               histories of up to 12 calls, recorded with independently classified lines and interned
               contents and validated by TLC (full mode; a trace rejected there is re-validated in
               verdict mode: rejected again = violation, otherwise specification drift).  Every
               validation run also contains two hand-written golden traces (must be accepted) and
               seven corruptions of them (must be rejected).
           (c') every formatting history of the hist configuration: the calls are made on the real object
               (formatting before and between the edits as in the history); the last output must equal
               the concretized reference output of TLC and satisfy the fixpoint law;
           sizes (notes/SIZE_STRESS.md): every 40th bounded text, every third LTS edge, every tenth
               recorded history and a handful of big texts are size-stressed (lines up to 65537
               characters, package names / versions of 33 ... 1025 characters, epochs >= 2**31, 100
               distributions / pairs, runs of 100 - 1000 lines, 100 - 1000 blocks, 100 - 1000 older
               entries below a formatting history); the laws are self-consistency, so no expectation
               changes;
           (b') every call history of the proc configuration: the text is written afresh (identical lines where
               TLC says so) and parsed in this process in TLC's order; the verdict is the statement across
               the calls (cc.run_calls), TLC's outcome per call a diagnostic.  Recorded the other way round:
               40 (thorough 400) texts -- a well-formed changelog with ONE line replaced by a defective line of
               the same role, sometimes put in twice, or a randomly mutated one -- parsed 2 .. 6 times in a
               random strict / lenient order, validated by TLC (TraceChangelog!TProc; golden trace + three
               corruptions in every run).
           objects / order: EVERY text of EVERY leg is parsed several times in this process, strict / lenient in
               one of the call orders TLC enumerated in the proc configuration (LLL LLS LSL LSS SLL SLS SSL SSS
               and their prefixes; rotating), and the statement is read across the calls: every strict call
               raises exactly when every lenient call warns.  Random concretizations are written afresh for
               every judged text (no line of it has been through the parser before: a process-level memo keyed
               by the line text cannot hide what the first call does), the LTS edge texts with the warning-free
               completion -- the texts whose ONLY warning is the edge's -- come first.  Both
               allow_empty_author values in random order (every repetition must agree); earlier
               Changelog objects are kept alive and re-verified after other objects were used.
           forms: every text arrives in one of the documented input forms (str, bytes, StringIO, BytesIO, real
               file, lists of str / bytes lines with and without newlines, generator, tuple,
               parse_changelog() on a new / used object) -- identical verdicts; the "empty file" rule
               exists for the text forms only (spec: PEofF, FormsAgree).
           file-object kinds / alignment (notes/SIZE_STRESS.md part 4): the parser only iterates its input, so
               every kind of object that yields lines is a form: real file text / binary / unbuffered
               (buffering=0), io.BufferedReader over a raw stream returning 1 .. 7 bytes per read, GzipFile
               over a REAL compressed file (fileno() names the compressed file), BZ2File, LZMAFile,
               SpooledTemporaryFile, TextIOWrapper, a generator of bytes lines (cc.FILE_KINDS; they are drawn
               in every leg, C04 included).  replay_aligned: well-formed changelogs (and one defective line
               after the offset) in which the end of a change line inside a block, of a later heading, of the
               blank line between two blocks, of a trailer and the very end fall exactly at, one before and
               one after a byte offset 2^k, k = 9 .. 17 (quick: 12, 13, 16, 17 and two others), by a padding
               change line; each through a rotating file-object kind; the C15 laws plus FormsAgree (same
               blocks / same "does it warn" as the str form).  ctx.extra["aligned_cases"],
               ctx.extra["file_object_kinds"].
           format-string hazards: besides the "fmt" edges every fourth bounded text and process history is written
               with hazards in every line, every generator of lines, authors and change texts (mutations of the recorded
               traces, single defects, editing calls, C04's texts as well) draws them now and then.
           faults of caller-supplied inputs (notes/SIZE_STRESS.md part 5; harness/changelog_faults.py, shared with C04):
               the constructor / parse_changelog iterate over an object of the caller.  A FAULT STEP -- a faulting twin
               of an input (the iterator / readline raises OSError, ValueError, KeyError or a private exception at the
               first / a middle / the last line; the input ends early at a line end, inside a line, inside a multi-byte
               character; every input form) is parsed strict or lenient -- is an ordinary step of the histories: (i)
               between two calls (or before the first) of the strict / lenient call order of one text in four, in every
               leg (cc.run_calls), by a new object, on the same or another text; (ii) among the earlier parses of the
               object under test in the forms reused_text / reused_obj (cc.prior_parses).  The faulted call itself is
               never judged by C15 (the statement speaks of input TEXTS; what came out is evidence: fault_steps); the
               calls after it -- same object, other objects, new objects -- are judged like all others (spec: a parse
               depends on its own input only; Mode "reuse" enumerates rs.carry for C04, Mode "proc" keeps rs.memo empty).
           characters: notes/SIZE_STRESS.md part 2 (non-NFC text and twins, case-mapping hazards, U+FEFF at
               the start of a text / line, joiners, non-BMP, look-alike white space inside tokens, tab
               indentation).
           version setter: Changelog.version / set_version with a valid version plus leading / trailing
               white space or a newline (SetVersionWS) is outside DESIGN D3 but "unspecified-but-
               consistent": either ValueError, or the changelog still formats to a normal form
               (negative control Bug = "acceptsNewlineVersion" -> NormalFormEdited).  Block-level
               assignment (block.version = ...) does not validate and stays under D3.
verdict observables (the statement): the lenient constructor returns; number of warnings > 0 <=> the
           strict constructor raises ChangelogParseError, no other exception type; whenever str()
           succeeds (ChangelogCreateError = "cannot be formatted", any other exception is a
           violation) re-parsing gives the same (package, version, distributions, urgency, changes,
           author, date) per block and str() again gives the identical text.
add_change: WHERE the line is inserted among the block's change lines is not stated by C04 / C15: the
           spec action is nondeterministic over the position (TLC explores all of them; the trace module
           accepts the position the code took; the history replay accepts any of TLC's position variants).
           Verdicts there: the normal form of whatever results, blocks of parse(str(cl)) = blocks the object
           exposes, the added line present exactly once with every other change line intact (added_once).
           A position other than today's rule ("before the trailing blank lines") is drift only; the
           quiet-expected mutant c15-add-change-appends must leave the check at exit 0.
diagnostic (spec drift, never an alarm): warning predictions, block / change / trailing counts, block
           contents, formattability.
None as an edit value: None is the library's own "not set" value (default of every new_block argument; str()
           answers ChangelogCreateError for it -- the statement's "can be formatted" clause exists because of
           it), so assigning None (cl.attr = None, cl.set_attr(None), block.attr = None; six attributes) IS in
           the domain of the editing calls, with the weak law only: whatever the call makes of it (attribute
           unset; kept as some value -- cl.version = None stores the version "None" today; rejected with an
           exception) the changelog is unformattable or formats to a normal form.  WHICH of these happens is
           not stated (diagnostic).  Other malformed values (empty strings, embedded newlines ...) stay excluded
           by DESIGN D3: for them the unchanged tree itself does not give a normal form.
API surface (notes/API_SURFACE.md):
   Changelog(text) / Changelog(text, strict=..., allow_empty_author=...)   every leg (cc.new_changelog)
   Changelog().parse_changelog(...) on a new / on a used object            forms reuse_* / reused_* (all legs)
   input forms str, bytes, lists / tuple / generator of str / bytes lines, file objects of every kind
                                                                           all legs (rotating), replay_aligned
   the same text parsed again in the same process (strict / lenient, any order)   all legs (call orders from TLC), (b'), proc traces
   str(cl), bytes(cl), cl.write_to_open_file(f), str(block)                format histories (c'), edit traces
   new_block(...) with / without arguments, add_change                     (c), (c'), edit traces
   cl.attr = v / cl.set_attr(v) / block.attr = v, v well-formed            (c), (c'), edit traces
   the same with v = None                                                  (c) unset configuration, edit traces
   cl.version = valid version + white space                                SetVersionWS (unspecified-but-consistent)
   block.other_pairs[k] = v, block.changes() edited in place, add_trailing_line   (c'), edit traces
   the same with a FAULTING file object / iterator (raises at line k, early EOF, EOF inside a character)
                                                                           fault steps of the call histories (never judged themselves;
                                                                           the following calls are), earlier parses of reused objects
   payload of a line (any class): plain / format-string hazards            lts edges x PayloadKinds (TLC), every 4th text / history
   max_blocks, encoding != utf-8                                           only in the unjudged earlier parses of a reused object
                                                                           (out of the statement: it speaks of the whole text)
unspecified: author / date assigned to a block that has no trailer because the input ended inside it
           (str() does not emit a trailer for such a block, so the value cannot survive), and a
           trailing line added to such a block with add_trailing_line (it is formatted right after the
           change lines and reads back as one of them); executed, any outcome accepted.  The guard is
           evaluated by TLC (Specified).
"""
import json
from collections import deque
from concurrent.futures import ThreadPoolExecutor

import core
import changelog_common as cc
from lts import skey

MANIFEST = dict(
    technique="TLA+ spec Changelog (parse_changelog as five-state automaton over 24 line classes with incremental outputs, EOF / empty-file rules, formatter, editing calls) model-checked by TLC: closed LTS (Total, Deterministic, StrictIffWarn) and bounded mutated texts / edit histories (NormalForm); every LTS edge, every bounded text and every edit history replayed into Changelog with both allow_empty_author settings; prefix-closure traces of mutated changelogs and random edit histories validated by TLC (TraceChangelog)",
    text="TLC explores the closed control-state space of the parser (5 states x flags, 24 line classes, both allow_empty_author settings) and checks that exactly one branch handles every class in every state, that the if/elif cascade equals the guard table, and that a strict run raises exactly when the lenient run has warned, including the end-of-input and empty-file rules. A bounded configuration enumerates every text of up to 6 lines that is one or two line mutations (insert any class, delete, duplicate) away from a well-formed changelog, plus all prefixes, and checks that whatever the parser builds, if it can be formatted, formats to a fixpoint of parse-then-format with the same blocks; an edit configuration does the same after up to 4 editing calls on empty or parsed changelogs. All of these texts and histories are concretized (old-format markers, mode lines, keywords, comments, one-space and bare trailers, junk, defective headers) and replayed into the real class: the lenient constructor must return, warnings > 0 must coincide with ChangelogParseError from the strict constructor, and str() output must re-parse to the same blocks and the identical text. Random mutated changelogs of up to 60 lines and random editing histories are recorded by prefix closure with independently classified lines and validated by TLC.",
    note="Round 6: the diagnostics quote pieces of the input line, which are data whatever characters they hold (PayloadFree over PayloadKinds plain / fmt in the closed configuration, every edge replayed with format-string hazards -- percent directives, braces, backslash escapes -- in every free-text piece of lines of every class; negative control diagFormats:CJunk); faults of caller-supplied inputs are unjudged steps of the call histories (notes/SIZE_STRESS.md part 5). Round 5: a parse depends on nothing but its own input also across the parses of one PROCESS (Mode proc: every text is parsed several times, strict / lenient in every order TLC enumerates, the statement is read across the calls; negative controls HeadingMemo / DiagOnce); None as an edit value is in the domain with the weak law 'unformattable or a normal form' (negative control unsetFormatsEmpty); file-object kinds and block-boundary alignment per notes/SIZE_STRESS.md part 4. Small scope: closed LTS over classes (unbounded length), normal-form law exhaustively for <= 6 lines / <= 2 mutations / <= 4 edits; longer inputs sampled. The C15 verdicts are the self-consistency laws of the statement; TLC's predictions of warnings, counts and contents are diagnostics (drift). Unspecified: author/date assigned on a block without trailer. Lines never contain a str.splitlines() boundary character (DESIGN D1); editing calls get well-formed values (D3). Fourteen spec-level negative controls (among them the two formatter caches of the round-2 seeded changes, the process-level heading memo and the empty version of round 5) and corrupted control traces are required to fail (quick tier: seven of them). Formatting is part of every history (formatted before and between edits, edits on older blocks and in place); sizes follow notes/SIZE_STRESS.md.",
    design="5 (C15)")

SUBSET = '{"Junk", "EndNoDetails", "EndOneSpace", "Vim", "HashComment", "TopBadKV", "Old8"}'

CFG = """CONSTANTS
  Mode = "%(mode)s"
  Classes %(classes)s
  AEAs = {TRUE, FALSE}
  MaxLines = %(lines)d
  MaxBlocks = %(blocks)d
  MaxBody = %(body)d
  MaxLead = %(lead)d
  MaxSep = 1
  Budget = %(budget)d
  MaxEdits = %(edits)d
  Bug = "%(bug)s"
  Emit = %(emit)s
%(extra)sSPECIFICATION Spec
%(invs)s
CHECK_DEADLOCK FALSE
"""
TEXT_INVS = ["BookkeepingOK", "StrictIffWarn", "SlurpOnlyFromHeading", "TrailingHasTarget", "NoWarning", "RoundTrip",
             "BlocksAsWritten", "NormalForm", "FormsAgree", "CleanRoundTrip"]
EDIT_INVS = ["BookkeepingOK", "NormalForm", "NormalFormEdited"]
PROC_INVS = ["BookkeepingOK", "StrictIffWarn", "ProcHistoryFree", "StrictIffWarnProc"]
PROC_CLASSES = '= {"TopBadKV", "TopDupKey", "TopBadUrg", "Junk", "EndOneSpace", "EndNoDetails"}'
UNSET_OPS_USED = "  EditOpsUsed <- UnsetFocusOps\n"
# (CascadeAgrees is a constant-level formula: it is checked in MC_Changelog_lts.cfg only)
LTS_INVS = ["LtsTypeOK", "Total", "Deterministic", "PayloadFree", "StrictIffWarn", "SlurpOnlyFromHeading", "TrailingHasTarget"]


def cfg(mode, classes="<- AllClasses", lines=0, blocks=0, body=0, budget=0, edits=0, bug="none", emit=True, invs=(), lead=1, extra=""):
    invs = list(invs)
    if emit and mode == "proc":
        invs.append("EmitProc")
    if emit and mode == "text":
        invs.append("EmitText")
    if emit and mode == "edit":
        invs.append("EmitEdit")
    return CFG % dict(mode=mode, classes=classes, lines=lines, blocks=blocks, body=body, budget=budget, edits=edits, lead=lead, extra=extra,
                      bug=bug, emit="TRUE" if emit else "FALSE", invs="\n".join("INVARIANT " + i for i in invs))


NEG_CONTROLS = [
    ("noBranch:CNoDetailsReject", cfg("lts", bug="noBranch:CNoDetailsReject", emit=False, invs=LTS_INVS), {"Total"}),
    ("twoBranches", cfg("lts", bug="twoBranches", emit=False, invs=LTS_INVS), {"Deterministic"}),
    ("strictSkips:CEnd", cfg("lts", bug="strictSkips:CEnd", emit=False, invs=LTS_INVS), {"StrictIffWarn"}),
    # the report of a branch uses the input line it quotes as a format string (round-6 seeded change)
    ("diagFormats:CJunk", cfg("lts", bug="diagFormats:CJunk", emit=False, invs=LTS_INVS), {"PayloadFree"}),
    ("trailingFirst", cfg("text", classes="= {}", lines=5, blocks=2, body=1, budget=0, bug="trailingFirst", emit=False,
                          invs=["NormalForm"]), {"NormalForm"}),
    ("authorOnTruncated", cfg("edit", classes="= {}", lines=2, blocks=1, body=1, budget=0, edits=1, bug="authorOnTruncated",
                              emit=False, invs=EDIT_INVS), {"NormalFormEdited"}),
    ("acceptsNewlineVersion", cfg("edit", classes="= {}", lines=2, blocks=1, body=1, budget=0, edits=1, bug="acceptsNewlineVersion",
                                  emit=False, invs=EDIT_INVS), {"NormalFormEdited"}),
    # process-level memo of the split heading, keyed by the line text (round-5 seeded change): the statement across calls
    ("HeadingMemo", cfg("proc", classes='= {"TopBadKV"}', lines=3, blocks=1, body=1, budget=2, edits=2, bug="HeadingMemo", emit=False,
                        invs=["StrictIffWarnProc"], lead=0), {"StrictIffWarnProc"}),
    ("DiagOnce", cfg("proc", classes='= {"Junk", "EndOneSpace"}', lines=3, blocks=1, body=1, budget=1, edits=2, bug="DiagOnce", emit=False,
                     invs=["ProcHistoryFree"], lead=0), {"ProcHistoryFree"}),
    # version = None stored as an empty version: 'pkg () dist' is no heading (round-5 seeded change)
    ("unsetFormatsEmpty", cfg("edit", classes="= {}", lines=3, blocks=1, body=1, budget=0, edits=1, bug="unsetFormatsEmpty", emit=False,
                              invs=EDIT_INVS, lead=0, extra=UNSET_OPS_USED), {"NormalFormEdited"}),
]
QUICK_CONTROLS = ("noBranch:CNoDetailsReject", "diagFormats:CJunk", "trailingFirst", "HeadingMemo", "unsetFormatsEmpty")


def neg_control(ctx, name, text, want):
    r = ctx.tlc("Changelog", text, count=False, workers=1, want_tags=set(), java_opts=cc.jopts(ctx))
    if r.violated not in want:
        raise core.MachineryError("spec-level negative control Bug=%s: expected one of %s violated, TLC reports %r"
                                  % (name, sorted(want), r.violated))
    return r.violated


# ------------------------------------------------------------------ (a) LTS edges

def lts_paths(edges):
    """shortest class path from the initial control state to every control state, per aea"""
    out = {}
    for e in edges:
        if e["c"] != "EOF":
            out.setdefault((e["aea"], skey(e["from"])), []).append(e)
    init = {"st": "FH", "old": "none", "w": 0, "nb": 0, "nonblank": False}
    paths = {}
    for aea in (False, True):
        k0 = (aea, skey(init))
        paths[k0] = []
        q = deque([k0])
        while q:
            k = q.popleft()
            for e in out.get(k, []):
                k2 = (aea, skey(e["to"]))
                if k2 not in paths:
                    paths[k2] = paths[k] + [e["c"]]
                    q.append(k2)
    return paths


def observe_counts(text, aea):
    o = cc.construct(text, aea=aea)
    if o.exc:
        return None
    try:
        cl = o.cl
        return dict(w=o.nwarn, nb=len(cl), ini=len(cl.initial_blank_lines), msgs=o.msgs,
                    ch=[len(b.changes()) for b in cl], tr=[len(getattr(b, "_trailing")) for b in cl])
    except AttributeError:
        return dict(w=o.nwarn, nb=len(o.cl), ini=None, ch=None, tr=None, msgs=o.msgs)


def lts_completions(edges, eof):
    """for every control state the shortest class sequence of NON-WARNING branches that leads to a
    state where the end-of-input rule does not warn: appended to an edge text it makes the edge's own
    warning (if any) the only one after the path, so every warning kind is seen in isolation"""
    out = {}
    for e in edges:
        if e["c"] != "EOF" and e["out"]["w"] == 0:
            out.setdefault((e["aea"], skey(e["from"])), []).append(e)
    comp = {}
    for k0 in {(e["aea"], skey(e["to"])) for e in edges if e["c"] != "EOF"}:
        seen = {k0: []}
        q = deque([k0])
        while q:
            k = q.popleft()
            if k in eof and eof[k]["w"] == 0:
                comp[k0] = seen[k]
                break
            for e in out.get(k, []):
                k2 = (e["aea"], skey(e["to"]))
                if k2 not in seen:
                    seen[k2] = seen[k] + [e["c"]]
                    q.append(k2)
    return comp


def replay_edge(ctx, rng, e, path, eof, canonical, completion=(), stress=False, kind=None):
    """-> violation message or None; diagnostics go to ctx.drift.  kind: payload kind of the specification
    (PayloadKinds) for the edge's own line and the completion -- "fmt": their free-text pieces hold format-string
    hazards (the path to the source state stays random); None: random."""
    aea = e["aea"]
    classes = path + [e["c"]]
    full = classes + list(completion)
    haz = None if kind is None else (kind == "fmt")
    lines_full, _ = cc.conc_text(rng, path, canonical=canonical, stress=stress)
    lines_full = lines_full + cc.conc_text(rng, full[len(path):], canonical=canonical, stress=stress, haz=haz)[0]
    lines = lines_full[:len(classes)]
    case = {"kind": "text", "lines": lines, "aea": aea, "classes": classes, "payload_kind": kind}
    # the text with the completion comes first and (random concretizations) every judged text is written
    # afresh: no line of it has been through the parser in this process before, so what the first call
    # (strict or lenient, per the plan) does with it is seen
    # (the prefix without the edge's own line is the text of another edge -- the last one of the shortest path)
    for n in (len(lines_full), len(lines)):
        judged = lines_full[:n] if canonical or n == len(lines_full) else \
            cc.conc_text(rng, path, stress=stress)[0] + cc.conc_text(rng, full[len(path):n], stress=stress, haz=haz)[0]
        form = rng.choice(cc.FORMS_W)
        msg, info = cc.c15_laws(cc.join(judged), aea, rng, form)
        if info.get("repeat_drift"):
            ctx.drift("edge %s --%s--> %s: %s" % (e["from"]["st"], e["c"], e["to"]["st"], info["repeat_drift"]))
        if msg:
            case["form"] = form
            case["lines"] = judged
            case["classes"] = full[:n]
            case["plan"] = info.get("plan")
            return case, msg
    # diagnostics: the incremental output of the branch, seen through the end-of-input rule on both sides
    if len(lines) < 2:
        return None, None
    a, b = observe_counts(cc.join(lines[:-1]), aea), observe_counts(cc.join(lines), aea)
    if a is None or b is None or a["ch"] is None:
        return None, None
    ef, et = eof[(aea, skey(e["from"]))], eof[(aea, skey(e["to"]))]
    out = e["out"]
    if not e["from"]["nonblank"] or not e["to"]["nonblank"]:
        return None, None            # the empty-file rule hides the step
    dw = out["w"] + et["w"] - ef["w"]
    dnb = (1 if out["close"] != "no" else 0) + (1 if et["close"] == "eof" else 0) - (1 if ef["close"] == "eof" else 0)
    what = "edge %s --%s/%s--> %s" % (e["from"]["st"], e["c"], e["b"], e["to"]["st"])
    if b["w"] - a["w"] != dw:
        ctx.drift("%s: warnings change by %d, specification says %d (%r)" % (what, b["w"] - a["w"], dw, lines[-1]))
    if b["nb"] - a["nb"] != dnb:
        ctx.drift("%s: blocks change by %d, specification says %d (%r)" % (what, b["nb"] - a["nb"], dnb, lines[-1]))
    if out["dest"] == "ini" and b["ini"] != a["ini"] + 1:
        ctx.drift("%s: line not stored as initial line (%r)" % (what, lines[-1]))
    if out["dest"] == "tr" and (not b["tr"] or sum(b["tr"]) != sum(a["tr"]) + 1):
        ctx.drift("%s: line not stored as trailing line (%r)" % (what, lines[-1]))
    if out["dest"] == "chg" and sum(b["ch"]) != sum(a["ch"]) + 1:
        ctx.drift("%s: line not stored as change line (%r)" % (what, lines[-1]))
    # the report quotes the line as DATA (spec: Quoted / Report): the text of the line is in one of the messages, verbatim
    if out["w"] == 1 and e.get("q") == "line" and e.get("rep", {}).get(kind or "plain") == "report" and len(lines[-1]) < 4096 \
            and not any(lines[-1] in m for m in b["msgs"]):
        ctx.drift("%s: no diagnostic quotes the offending line verbatim (%r; messages %r)" % (what, lines[-1], b["msgs"][-2:]))
    return None, None


# ------------------------------------------------------------------ (b) bounded texts

def replay_text(ctx, rng, case, aea, canonical, stats, stress=False, alive=None, haz=None):
    classes = case["t"]
    lines, _ = cc.conc_text(rng, classes, canonical=canonical, stress=stress, haz=haz)
    text = cc.join(lines)
    form = rng.choice(cc.FORMS_W)
    msg, info = cc.c15_laws(text, aea, rng, form)
    if alive is not None and info.get("cl") is not None:
        alive.add(info["cl"], "text %s" % "".join(c[0] for c in classes))
    if info.get("repeat_drift"):
        ctx.drift("text %s aea=%s: %s" % ("".join(c[0] for c in classes), aea, info["repeat_drift"]))
    if msg:
        return {"kind": "text", "lines": lines, "aea": aea, "classes": classes, "form": form, "plan": info.get("plan")}, msg
    if cc.form_kind(form) == "lines" and not text.strip():
        return None, None           # blank-only text as lines: no "empty file" rule (PEofF); TLC's predictions below are for the text forms
    # diagnostics against TLC's predictions
    stats["warned"] += info["nwarn"] > 0
    stats["formattable"] += bool(info["fmt"])
    if (info["nwarn"] > 0) != (case["nw"] > 0):
        ctx.drift("text %s aea=%s: %d warnings, specification predicts %d (%r)" % ("".join(c[0] for c in classes), aea, info["nwarn"], case["nw"], lines))
    if info["fmt"] != case["fmt"]:
        ctx.drift("text %s aea=%s: formattable=%s, specification predicts %s" % (classes, aea, info["fmt"], case["fmt"]))
    if not case["wf"]:
        try:
            sh = cc.shape_of(info["cl"])
        except AttributeError:
            sh = None
        if sh is not None and sh != case["doc"]:
            ctx.drift("text %s aea=%s: shape %r, specification predicts %r (%r)" % (classes, aea, sh, case["doc"], lines))
    return None, None


def replay_big(ctx, rng, quick):
    """a handful of size-stressed texts (notes/SIZE_STRESS.md): hundreds / a thousand blocks, runs of
    hundreds of change lines, very long lines, long names and versions, many distributions and
    pairs, epochs >= 2**31, boundary dates -- well-formed and with a few line mutations (stressed junk,
    old-format markers ...).  The C15 laws need no expectation: they are self-consistency."""
    n = 0
    base = ["Blank", "TopOK", "Blank", "Change", "Change", "Blank", "EndOK", "Blank", "TopOK", "Change", "EndOK", "Blank"]
    struct = {"ini": [1], "bl": [{"ch": [3, 4, 5, 6], "tr": [8]}, {"ch": [10], "tr": [12]}]}
    plans = [("payload", False), ("lines", False), ("blocks", False), ("payload", False)] if quick else \
        [(m, b) for m in ("payload", "lines", "blocks") for b in (False, False, True)] * 3
    for j, (mode, big) in enumerate(plans):
        lines, _c, _s = cc.stress_case(rng, base, struct, mode, big)
        for nmut in ((0, 2) if quick else (0, 1, 3)):
            ls = list(lines)
            for _ in range(nmut):
                t, _k = cc.conc_line(rng, rng.choice(cc.ALL_CLASSES), stress=True)
                ls.insert(rng.randint(0, len(ls)), t)
            aea = bool((j + nmut) % 2)
            form = rng.choice(cc.FORMS)
            msg, _info = cc.c15_laws(cc.join(ls), aea, rng, form)
            ctx.case_seen(("big", mode, j, nmut), True)
            n += 1
            if msg:
                keep = len(ls) <= 400
                ctx.violation({"kind": "text", "lines": ls if keep else ls[:400], "aea": aea, "classes": [], "truncated": not keep, "form": form,
                               "plan": _info.get("plan")},
                              "size-stressed text (%s, %d lines, longest %d characters): %s" % (mode, len(ls), max(map(len, ls)), msg))
                return n
    return n


# ------------------------------------------------------------------ (b') call histories of one process

def replay_proc(ctx, rng, cases, quick):
    """every call history TLC enumerated in the "proc" configuration: the text (identical lines where TLC
    says so) is written afresh and parsed in this process in TLC's order; the statement across the calls
    is the verdict (cc.run_calls), TLC's outcome per call (warnings / raised) a diagnostic"""
    n = 0
    for ci, c in enumerate(cases):
        lines = cc.conc_same(rng, c["t"], c["same"], stress=(ci % 50 == 13), haz=True if ci % 4 == 2 else None)
        calls = [(x["s"], x["a"]) for x in c["calls"]]
        form = rng.choice(cc.TEXT_FORMS if not "".join(lines).strip() else cc.FORMS_W)
        msg, obs = cc.run_calls(cc.join(lines), calls, form)
        ctx.case_seen(("proc", tuple(c["t"]), tuple(c["same"]), tuple(calls)), True)
        n += 1
        if msg:
            ctx.violation({"kind": "proc", "lines": lines, "calls": [list(x) for x in calls], "form": form, "classes": c["t"]}, msg)
            if len(ctx.violations) >= 5:
                break
            continue
        for x, e in zip(c["calls"], obs):
            if (e["sr"] != x["r"]) if x["s"] else ((e["w"] > 0) != (x["w"] > 0)):
                ctx.drift("process history %s on %s: call outcome %s, specification predicts %s" % (
                    "".join("S" if k[0] else "L" for k in calls), "/".join(c["t"]),
                    e["sr"] if x["s"] else e["w"], x["r"] if x["s"] else x["w"]))
                break
    return n


def replay_aligned(ctx, rng, quick):
    """notes/SIZE_STRESS.md part 4: texts in which a line end -- of a change line inside a block, of a later
    heading, of the blank line between two blocks, of a trailer, the very end -- falls exactly at, one
    before and one after a byte offset 2^k (k = 9 .. 17), handed over through every kind of file object
    (and as str / bytes).  The C15 laws need no expectation (self-consistency)."""
    n = 0
    kinds = {}
    ks = cc.ALIGN_K if not quick else (12, 13, 16, 17) + tuple(rng.sample([9, 10, 11, 14, 15], 2))
    file_forms = [f for f in cc.LINE_FORMS if f not in ("list", "list_nl", "list_bytes", "tuple", "reuse_list", "iter")]
    fi = rng.randrange(len(file_forms))
    for k in ks:
        _cls, base, _c = cc.gen_wellformed(rng, rng.choice([12, 20]))
        while sum(1 for l in base if cc.classify(l)[0] == "TopOK") < 2:
            _cls, base, _c = cc.gen_wellformed(rng, 20)
        pos = cc.aligned_positions(base)
        for where in sorted(pos):
            for delta in (-1, 0, 1):
                if quick and (n + k) % 2 and where in ("trailer", "change"):
                    continue            # quick: a rotating half of the two cheaper positions
                lines = cc.align_lines(base, pos[where], 2 ** k + delta, wide=bool((k + delta) % 2))
                if lines is None:
                    continue
                if rng.random() < 0.4:          # and one defective line AFTER the steered offset
                    t, _k = cc.conc_line(rng, rng.choice(cc.ALL_CLASSES))
                    lines.insert(rng.randint(pos[where] + 2, len(lines)), t)
                fi += 1
                form = file_forms[fi % len(file_forms)] if n % 5 else rng.choice(cc.TEXT_FORMS)
                aea = bool(n % 2)
                msg, info = cc.c15_laws(cc.join(lines), aea, rng, form)
                kinds[form] = kinds.get(form, 0) + 1
                ctx.case_seen(("aligned", k, where, delta), True)
                n += 1
                if not msg and form != "str":
                    # the input FORM is not part of the text (spec: FormsAgree): handed over as a str the same
                    # text gives the same blocks and the same answer to "does it warn"
                    o = cc.construct(cc.join(lines), aea=aea, form="str")
                    if o.exc or info.get("cl") is None:
                        msg = "lenient constructor raised %s" % o.exc
                    elif cc.blocks_of(o.cl) != cc.blocks_of(info["cl"]) or (o.nwarn > 0) != (info["nwarn"] > 0):
                        msg = "the same text gives other blocks / warnings when handed over as %s (%d blocks, %d warnings) than as a str (%d blocks, %d warnings)" % (
                            form, len(info["cl"]), info["nwarn"], len(o.cl), o.nwarn)
                if msg:
                    ctx.violation({"kind": "text", "lines": lines, "aea": aea, "classes": [], "form": form, "plan": info.get("plan")},
                                  "text whose %s line ends at byte offset 2^%d%+d, input form %s: %s" % (where, k, delta, form, msg))
                    return n, kinds
    return n, kinds


# ------------------------------------------------------------------ (c) edit histories

def replay_edit(ctx, rng, case, canonical, stats):
    from debian.changelog import Changelog
    classes, aea, ops = case["t"], case["aea"], case["ops"]
    lines, _ = cc.conc_text(rng, classes, canonical=canonical)
    calls = [[op, cc.conc_edit(rng, op, canonical, uid=i), rng.randrange(6)] for i, op in enumerate(ops)]
    rec = {"kind": "edit", "lines": lines, "aea": aea, "classes": classes, "calls": calls, "specified": case["spec"],
           "form": rng.choice(cc.TEXT_FORMS if not "".join(lines).strip() else cc.FORMS_W)}
    msg = run_edit(rec)
    if isinstance(msg, tuple):          # diagnostics
        fmt_ok = msg[1]
        stats["formattable"] += fmt_ok
        stats["unspecified"] += not case["spec"]
        if fmt_ok not in case.get("fmts", [case["fmt"]]):
            ctx.drift("edit %s %s: formattable=%s, specification predicts %s" % (classes, ops, fmt_ok, case["fmt"]))
        return None, None
    return rec, msg


def run_edit(rec):
    """-> message (violation) or (None, formattable)"""
    from debian.changelog import Changelog
    if rec["lines"]:
        o = cc.construct(cc.join(rec["lines"]), aea=rec["aea"], form=rec.get("form", "str"))
        if o.exc:
            return "lenient constructor raised %s" % o.exc
        cl = o.cl
    else:
        cl = Changelog()
    for op, arg, how in rec["calls"]:
        err = cc.apply_edit(cl, op, arg, how)
        if err:
            return ("%s(%r) raised %s" % (op, arg, err[4:])) if err.startswith("EXC:") else err[4:]
    s, err = cc.fmt(cl)
    if s is None:
        if err != "unformattable":
            return "str() raised %s" % err[4:]
        return (None, False)
    if rec["specified"]:
        msg = cc.fixpoint(cl, s)
        if msg:
            return msg
    else:
        cc.fixpoint(cl, s)              # unspecified zone: executed, any outcome accepted
    return (None, True)


# ------------------------------------------------------------------ the check

def run(ctx):
    quick = ctx.tier == "quick"
    rng = ctx.rng
    ctx.assumptions += [
        "closed LTS over 24 line classes (texts of any length); normal-form law exhaustively for %s and <= %d editing calls" % (("<= 5 lines with 1 mutation", 2) if quick else ("<= 7 lines with 1 mutation, <= 4 lines with 2 mutations", 4)),
        "the C15 verdicts are the statement's self-consistency laws; TLC's predictions of warnings / counts / contents are diagnostics",
        "unspecified: author/date assigned, or a trailing line added, on a block without trailer (input ended inside the block)",
        "lines never contain a str.splitlines() boundary character (DESIGN D1); editing calls get well-formed values (D3)",
        "trusted: TLC, the concretizer, the independent line classifier, the projections",
    ]
    import time
    t_phase = [time.time()]
    c_phase = [time.process_time()]
    phases = ctx.extra.setdefault("phase_wall_s", {})
    phases_cpu = ctx.extra.setdefault("phase_cpu_s", {})     # (this process only: what the replay legs cost without the machine's load)

    def lap(name):
        t_phase.append(time.time())
        c_phase.append(time.process_time())
        phases[name] = round(t_phase[-1] - t_phase[-2], 1)
        phases_cpu[name] = round(c_phase[-1] - c_phase[-2], 1)
    # ---- (d) code -> spec: record first (the recorder does not depend on TLC)
    ntr, nedit, maxlines = (70, 60, 40) if quick else (1000, 1000, 60)
    traces = []
    for i in range(ntr):
        _cls, lines, _ = cc.gen_wellformed(rng, rng.choice([5, 10, 20, maxlines]))
        lines = cc.mutate(rng, lines, rng.choice([1, 1, 2, 3, 5]), maxlines)
        if i % 9 == 4:
            lines = [rng.choice(["", "", " ", "\t", "  "]) for _ in range(rng.randint(1, 4))]       # blank-only texts: the forms differ
        traces.append(cc.record_parse_trace(lines, aea=bool(i % 2), wf=False, doc_every=5, form=cc.FORMS[i % len(cc.FORMS)]))
    for i in range(nedit):
        if i % 6 == 0:
            lines = []
        else:
            _cls, lines, _ = cc.gen_wellformed(rng, rng.choice([4, 8, 14]))
            lines = cc.mutate(rng, lines, rng.choice([0, 0, 1, 1, 2]), 16)
        t = cc.record_edit_trace(rng, lines, aea=bool(i % 2), nops=rng.randint(1, 12), wf=False, stress=(i % 10 == 9),
                                 form=rng.choice(cc.TEXT_FORMS if not "".join(lines).strip() else cc.FORMS))
        if t is None:
            ctx.violation({"kind": "text", "lines": lines, "aea": bool(i % 2), "classes": []},
                          "lenient constructor raised %s" % cc.construct(cc.join(lines), aea=bool(i % 2)).exc)
            continue
        traces.append(t)
    # call histories of one process: one text (often with a single defective line, sometimes put in twice),
    # parsed 2 .. 6 times strict / lenient in a random order
    nproc = 40 if quick else 400
    for i in range(nproc):
        if i % 4 == 3:
            _cls, lines, _ = cc.gen_wellformed(rng, rng.choice([5, 10, 20]))
            lines = cc.mutate(rng, lines, rng.choice([0, 1, 2, 3]), 24)
        else:
            lines, _i = cc.gen_single_defect(rng, rng.choice([6, 10, 14]))
        if not lines:
            continue
        traces.append(cc.record_proc_trace(lines, aea=bool(i % 2), calls=cc.random_calls(rng, lines),
                                           form=rng.choice(cc.TEXT_FORMS if not "".join(lines).strip() else cc.FORMS_W)))
    lap("record_traces")
    W = 4 if quick else 8
    jobs = [("lts", "MC_Changelog_lts.cfg", 1, {"EDGE"})]
    if quick:
        jobs += [("text", "MC_Changelog_c15_mut_quick.cfg", W, {"CASE"}),
                 ("edit", "MC_Changelog_c15_edit_quick.cfg", W, {"CASE"}),
                 ("proc", "MC_Changelog_c15_proc_quick.cfg", 2, {"CASE"}),
                 ("unset", "MC_Changelog_c15_unset_quick.cfg", 2, {"CASE"})]
    else:
        jobs += [("proc", cfg("proc", classes=PROC_CLASSES, lines=5, blocks=1, body=1, budget=2, edits=3, invs=PROC_INVS, lead=0).replace("AEAs = {TRUE, FALSE}", "AEAs = {FALSE}"), W, {"CASE"}),
                 ("proc4", cfg("proc", classes='= {"TopBadKV", "EndOneSpace", "EndNoDetails"}', lines=3, blocks=1, body=1, budget=2, edits=4, invs=PROC_INVS, lead=0), W, {"CASE"}),
                 ("unset", cfg("edit", classes='= {"EndNoDetails"}', lines=3, blocks=1, body=1, budget=1, edits=2, invs=EDIT_INVS, lead=0, extra=UNSET_OPS_USED).replace("AEAs = {TRUE, FALSE}", "AEAs = {FALSE}"), W, {"CASE"}),
                 ("unset3", cfg("edit", classes="= {}", lines=2, blocks=1, body=1, budget=0, edits=3, invs=EDIT_INVS, lead=0, extra=UNSET_OPS_USED).replace("AEAs = {TRUE, FALSE}", "AEAs = {FALSE}"), W, {"CASE"})]
        jobs += [("text", cfg("text", lines=4, blocks=2, body=2, budget=2, invs=TEXT_INVS), W, {"CASE"}),
                 ("text7", cfg("text", lines=7, blocks=2, body=2, budget=1, invs=TEXT_INVS), W, {"CASE"}),
                 ("edit", cfg("edit", classes='= {"Junk", "EndNoDetails"}', lines=3, blocks=1, body=1, budget=1, edits=3, invs=EDIT_INVS, lead=0), W, {"CASE"}),
                 ("edit4", cfg("edit", classes="= {}", lines=1, blocks=1, body=1, budget=0, edits=4, invs=EDIT_INVS), W, {"CASE"})]
    jobs += [("hist", cc.hist_cfg(3, 1), 2 if quick else 6, {"CASE"})] + ([] if quick else [("hist4", cc.hist_cfg(4, 0), 6, {"CASE"})])
    res = {}
    # quick: two of the negative controls (closed automaton, normal-form law); thorough: all five
    controls_now = [n for n in NEG_CONTROLS if not quick or n[0] in QUICK_CONTROLS]
    with ThreadPoolExecutor(max_workers=5 if quick else 3) as ex:
        f_traces = ex.submit(cc.validate, ctx, traces)
        futs = {name: ex.submit(ctx.tlc_must_hold, "Changelog", c, workers=w, want_tags=tags, java_opts=cc.jopts(ctx)) for name, c, w, tags in jobs[1:]}
        futs["lts"] = ex.submit(ctx.tlc_must_hold, "Changelog", jobs[0][1], workers=1, want_tags={"EDGE"}, java_opts=cc.jopts(ctx))
        negs = {name: ex.submit(neg_control, ctx, name, text, want) for name, text, want in controls_now}
        for bug, want in (cc.HIST_NEG[1:] if quick else cc.HIST_NEG):
            negs[bug] = ex.submit(neg_control, ctx, bug, cc.hist_cfg(3, 0, bug=bug, emit=False), want)
        f_reuse = None if quick else ex.submit(cc.reuse_controls, ctx)
        for name, f in futs.items():
            res[name] = f.result()
        ctx.extra["spec_negative_controls"] = {name: f.result() for name, f in negs.items()}
        if f_reuse is not None:
            ctx.extra["spec_negative_controls"].update(f_reuse.result())
    ctx.tlc_runs.sort(key=lambda x: (-x["distinct"], str(x["violated"])))

    lap("tlc")
    # ---- the ORDERS in which every text of every leg is parsed strict / lenient: the call orders of the "proc" configuration
    pcases = []
    for name in ("proc", "proc4"):
        if name in res:
            for c in res[name].printed.get("CASE", []):
                if not isinstance(c, dict):
                    raise core.MachineryError("unparsable CASE line %r" % (c,))
                pcases.append(c)
    plans = {tuple(x["s"] for x in c["calls"]) for c in pcases}
    plans = sorted(plans | {p[:2] for p in plans})          # (a prefix of a call history is a call history: TLC went through it)
    if len(plans) < 8:
        raise core.MachineryError("the proc configuration produced %d call orders only" % len(plans))
    cc.PLANS = plans
    ctx.extra["call_orders"] = ["".join("S" if x else "L" for x in p) for p in plans]
    # ---- (a) the closed LTS
    edges = [e for e in res["lts"].printed.get("EDGE", []) if isinstance(e, dict)]
    branches = {}
    for e in edges:
        branches[e["b"]] = branches.get(e["b"], 0) + 1
    missing = {"HTop", "HBlank", "HMode", "HComment", "HOld", "HJunk", "CChange", "CEnd", "CNoDetailsReject",
               "CNoDetailsAccept", "CBlank", "CComment", "CJunk", "STrailing", "Eof"} - set(branches)
    if missing:
        raise core.MachineryError("branches never taken in the closed configuration: %s" % sorted(missing))
    ctx.extra["lts"] = {"states": res["lts"].distinct, "edges": len(edges), "edges_per_branch": branches,
                        "dead_branch": "SChanges (slurp-to-end is only entered from NextHeadingOrEof, in the code as in the specification)"}
    paths = lts_paths(edges)
    eof = {(e["aea"], skey(e["from"])): e["out"] for e in edges if e["c"] == "EOF"}
    comp = lts_completions(edges, eof)
    n_edges = 0
    n_fmt = [0]
    step_edges = sorted((e for e in edges if e["c"] != "EOF"), key=lambda e: (e["aea"], skey(e["from"]), e["c"]))
    for e in step_edges:
        k = (e["aea"], skey(e["from"]))
        if k not in paths:
            raise core.MachineryError("LTS state without path: %r" % (k,))
        # payload kinds of the specification: every edge once in canonical form, with every kind TLC lists for it
        # (rep: kind -> outcome of the branch's report) and with random payloads
        kinds = sorted(e.get("rep") or ())
        if kinds != ["fmt", "plain"] or any(v == "crash" for v in e["rep"].values()):
            raise core.MachineryError("EDGE line without the payload kinds of the specification: %r" % (e,))
        plan = [None, "fmt", None, "plain", "fmt", None]
        for j in range(3 if quick else 6):
            case, msg = replay_edge(ctx, rng, e, paths[k], eof, canonical=(j == 0),
                                    completion=comp.get((e["aea"], skey(e["to"])), ()),
                                    stress=(j > 0 and (n_edges // 3) % 3 == 0 and plan[j] != "fmt"), kind=plan[j])
            if plan[j] == "fmt":
                n_fmt[0] += 1
            ctx.case_seen(("edge", k[0], k[1], e["c"]), True)
            n_edges += 1
            if msg:
                ctx.violation(case, msg)
                break
        if len(ctx.violations) >= 5:
            break
    ctx.extra["lts_edges_replayed"] = n_edges
    ctx.extra["lts_edges_with_format_hazards"] = n_fmt[0]
    ctx.extra["model_constants"] = {"classes": len(cc.ALL_CLASSES), "AEAs": [True, False],
                                    "text": "MaxLines 5, Budget 1" if quick else "MaxLines 4 / Budget 2 and MaxLines 7 / Budget 1",
                                    "edit": "MaxLines 3, Budget 1, 3 classes, MaxEdits 2" if quick else "MaxLines 3, Budget 1, 2 classes, MaxEdits 3 and MaxLines 1, Budget 0, MaxEdits 4"}
    e = step_edges[len(step_edges) // 3]
    ctx.sample("lts edge: " + json.dumps(e, separators=(",", ":")))

    lap("replay_lts")
    # ---- (b) bounded mutated texts
    cases = {}
    for name in ("text", "text7"):
        for c in (res[name].printed.get("CASE", []) if name in res else []):
            if not isinstance(c, dict):
                raise core.MachineryError("unparsable CASE line %r" % (c,))
            cases.setdefault((tuple(c["t"]), c["aea"]), c)
    keys = sorted(cases, key=lambda k: (len(k[0]), k))
    stats = {"warned": 0, "formattable": 0}
    n_text = 0
    kconc = 1
    alive = cc.Alive()
    for ki, k in enumerate(keys):
        c = cases[k]
        if ki % 997 == 0:
            m = alive.recheck()
            if m:
                ctx.violation({"kind": "alive", "note": m}, m)
                break
        for j in range(kconc):
            case, msg = replay_text(ctx, rng, c, k[1], canonical=False, stats=stats, stress=(ki % 40 == 7),
                                    alive=alive if ki % 450 == 0 else None, haz=True if ki % 4 == 1 else None)
            ctx.case_seen(("text", k), len(k[0]) > 0)
            n_text += 1
            if msg:
                ctx.violation(case, msg)
                break
        if len(ctx.violations) >= 5:
            break
    ctx.extra["bounded_texts"] = {"states": sum(res[n].distinct for n in ("text", "text7") if n in res), "distinct_texts_x_aea": len(keys), "replayed": n_text,
                                  "with_warnings": stats["warned"], "formattable": stats["formattable"]}
    k = keys[len(keys) * 2 // 3]
    lines, _ = cc.conc_text(rng, list(k[0]))
    ctx.sample("mutated text %s aea=%s -> %s; TLC: nw=%d fmt=%s shape=%s" % (
        "/".join(k[0]), k[1], json.dumps(cc.join(lines), ensure_ascii=False), cases[k]["nw"], cases[k]["fmt"], json.dumps(cases[k]["doc"])))

    n_text += replay_big(ctx, rng, quick)
    lap("replay_texts")
    n_al, kinds = replay_aligned(ctx, rng, quick)
    n_text += n_al
    ctx.extra["aligned_cases"] = n_al
    ctx.extra["file_object_kinds"] = kinds
    lap("replay_aligned")
    # ---- (b') call histories of one process
    pcases.sort(key=lambda c: (len(c["t"]), json.dumps(c, sort_keys=True)))
    n_proc = replay_proc(ctx, rng, pcases, quick)
    n_text += n_proc
    ctx.extra["process_histories"] = {"states": sum(res[n].distinct for n in ("proc", "proc4") if n in res), "cases": len(pcases), "replayed": n_proc,
                                      "distinct_texts": len({(tuple(c["t"]), tuple(c["same"])) for c in pcases})}
    if pcases:
        c = pcases[len(pcases) // 2]
        ctx.sample("process history: text %s (same-line map %s) parsed %s; TLC: %s" % (
            "/".join(c["t"]), c["same"], " ".join(("S" if x["s"] else "L") + ("+aea" if x["a"] else "") for x in c["calls"]),
            json.dumps([x["r"] if x["s"] else x["w"] for x in c["calls"]])))
    lap("replay_proc")
    m = alive.recheck()
    if m:
        ctx.violation({"kind": "alive", "note": m}, m)
    # ---- (c') formatting as part of the history: TLC's reference output for every history that ends in a formatting call
    hcases = []
    for name in ("hist", "hist4"):
        if name in res:
            hcases += [c for c in res[name].printed.get("CASE", []) if isinstance(c, dict)]
    hcases.sort(key=lambda c: (len(c["ops"]), len(c["t"]), json.dumps(c, sort_keys=True)))
    hseen = set()
    hcases = [c for c in hcases if not (cc.json_key([c["t"], c["ops"]]) in hseen or hseen.add(cc.json_key([c["t"], c["ops"]])))]
    n_hist = cc.replay_hist_cases(ctx, rng, hcases, c04=False, nconc=1 if quick else 2, nstress=5 if quick else 60, alive=alive)
    ctx.extra["format_histories"] = {"states": sum(res[n].distinct for n in ("hist", "hist4") if n in res), "cases": len(hcases), "replayed": n_hist}
    n_text += n_hist
    lap("replay_format_histories")
    # ---- (c) edit histories
    estats = {"formattable": 0, "unspecified": 0}
    n_edit = 0
    ecases = {}
    for name in ("edit", "edit4", "unset", "unset3"):
        if name in res:
            for c in res[name].printed.get("CASE", []):
                if not isinstance(c, dict):
                    raise core.MachineryError("unparsable CASE line %r" % (c,))
                # (an Unset.. call has two outcomes in the model -- unset, or kept as a value: one history, the
                #  real object takes one of them; it is judged only where every outcome is Specified)
                k0 = ecases.setdefault((tuple(c["t"]), c["aea"], tuple(c["ops"])), c)
                k0.setdefault("fmts", []).append(c["fmt"])
                k0["spec"] = k0["spec"] and c["spec"]
    ekeys = sorted(ecases, key=lambda k: (len(k[2]), len(k[0]), k))
    for k in ekeys:
        case, msg = replay_edit(ctx, rng, ecases[k], canonical=False, stats=estats)
        ctx.case_seen(("edit", k), len(k[2]) > 0)
        n_edit += 1
        if msg:
            ctx.violation(case, msg)
            if len(ctx.violations) >= 5:
                break
    ctx.extra["edit_histories"] = {"states": sum(res[n].distinct for n in ("edit", "edit4", "unset", "unset3") if n in res), "replayed": n_edit,
                                   "with_None_assigned": sum(1 for k in ekeys if any(o.startswith("Unset") for o in k[2])),
                                   "formattable": estats["formattable"], "in_unspecified_zone": estats["unspecified"]}
    k = ekeys[len(ekeys) * 3 // 4]
    ctx.sample("edit history: text %s aea=%s ops=%s; TLC: formattable=%s specified=%s" % (
        "/".join(k[0]), k[1], "/".join(k[2]), ecases[k]["fmt"], ecases[k]["spec"]))

    import changelog_faults as cf
    ctx.extra["fault_steps"] = cf.stats()           # what came out of the faulted parses (never judged)
    lap("replay_edits")
    # ---- (d) code -> spec (recorded before, validated by TLC in parallel with the model checking)
    viol, drift, info = f_traces.result()
    lap("wait_trace_validation")
    ctx.traces += n_edges + n_text + n_edit + len(traces)
    ctx.evaluations += len(traces)
    for i in range(len(traces)):
        ctx.distinct.add(("trace", i))
    ctx.extra["traces"] = {"parse": ntr, "edit": sum(1 for t in traces if t["kind"] == "edit"), "process": sum(1 for t in traces if t["kind"] == "proc"),
                           "events": sum(len(t["lines"]) if t["kind"] == "parse" else len(t["ops"]) for t in traces),
                           "rejected": len(viol), "drifting": len(drift)}
    for i in drift[:10]:
        t = traces[i - 1]
        at = info.get(i, 0)
        ctx.drift("%s trace %d: diagnostic mismatch at event %d (%r)" % (
            t["kind"], i, at + 1, (t["text"][at] if t["kind"] == "parse" and at < len(t["text"]) else [t["calls"][at][k] for k in ("op", "i", "x")] if t["kind"] == "edit" and at < len(t["calls"]) else
                                   t["ops"][at] if t["kind"] == "proc" and at < len(t["ops"]) else None)))
    tp = traces[0]
    ctx.sample("parse trace, last event of %d: %s" % (len(tp["lines"]), json.dumps({k: v for k, v in tp["lines"][-1].items() if k != "doc"}, separators=(",", ":"))))
    te = [t for t in traces if t["kind"] == "edit"][-1]
    ctx.sample("edit trace, first event of %d: %s" % (len(te["ops"]), json.dumps(te["ops"][0], separators=(",", ":"))))
    tq = traces[-1]
    ctx.sample("process trace (%d lines): %s" % (len(tq["lines"]), json.dumps(tq["ops"], separators=(",", ":"))))
    for i in viol[:5]:
        t = traces[i - 1]
        at = info.get(i, 0)
        if t["kind"] == "proc":
            ctx.violation({"kind": "trace", "trace": {"kind": "proc", "text": t["text"], "aea": t["aea"], "calls": t["calls"], "iform": t["iform"]},
                           "first_unexplained_event": at + 1},
                          "the text was parsed %s in one process; call %d: %s" % (
                              "/".join("strict" if c[0] else "lenient" for c in t["calls"]), at + 1,
                              "strict %s although a lenient parse of the same text emitted %s warning(s)" % (
                                  ("raised", "no") if t["ops"][min(at, len(t["ops"]) - 1)]["sr"] else ("returned", "a"))
                              if at < len(t["ops"]) and t["ops"][at]["s"] and t["ops"][at]["ok"] else
                              "observation not explained by the specification: %s" % json.dumps(t["ops"][at] if at < len(t["ops"]) else None)))
        elif t["kind"] == "parse":
            ev = {k: v for k, v in t["lines"][at].items() if k != "doc"} if at < len(t["lines"]) else None
            ctx.violation({"kind": "trace", "trace": {"kind": "parse", "text": t["text"], "aea": t["aea"], "wf": False, "iform": t["iform"]},
                           "first_unexplained_event": at + 1},
                          "parsing the first %d lines (last: %r): %s" % (at + 1, t["text"][at] if at < len(t["text"]) else None, law_message(ev)))
        else:
            ev = t["ops"][at] if at < len(t["ops"]) else None
            ctx.violation({"kind": "trace", "trace": {"kind": "edit", "text": t["text"], "aea": t["aea"], "wf": t["wf"], "calls": t["calls"], "iform": t["iform"]},
                           "first_unexplained_event": at + 1},
                          "call %d %r: %s" % (at + 1, [t["calls"][at][k] for k in ("op", "i", "x", "arg")] if at < len(t["calls"]) else None, law_message(ev)))


def law_message(ev):
    if ev is None:
        return "trace not explained by the specification"
    if "ok" in ev and not ev["ok"]:
        return "the constructor raised an exception other than ChangelogParseError in strict mode"
    if "sr" in ev and ev["sr"] != (ev["w"] > 0):
        return "strict %s but lenient emitted %d warning(s)" % ("raised" if ev["sr"] else "returned", ev["w"])
    if ev.get("fmt") and not ev.get("nf"):
        return "the formatted output is not a normal form (re-parsing changes the blocks or the text)"
    if not ev.get("nf", True):
        return "an editing call or str() raised an unexpected exception"
    return "observation not explained by the specification: %s" % json.dumps(ev)[:300]


def replay(ctx, case):
    kind = case["kind"]
    if kind == "text":
        if case.get("truncated"):
            return "the size-stressed text was too large to record; re-run ./check C15 with the same seed"
        import random
        if case.get("plan"):            # the recorded order first (a replay runs in a new process: every line is new to it)
            msg, _ = cc.c15_laws(cc.join(case["lines"]), case["aea"], None, case.get("form", "str"), plan=case["plan"])
            if msg:
                return msg
        for seed in range(4):           # the laws also cover repeated parses in varying order
            msg, _ = cc.c15_laws(cc.join(case["lines"]), case["aea"], random.Random(seed), case.get("form", "str"))
            if msg:
                return msg
        return None
    if kind == "proc":
        msg, _obs = cc.run_calls(cc.join(case["lines"]), [tuple(c) for c in case["calls"]], case.get("form", "str"))
        return msg
    if kind == "hist":
        return cc.run_hist(dict(case, contents=cc.norm_contents(case["contents"]), tail_contents=cc.norm_contents(case.get("tail_contents", []))), c04=False)
    if kind == "alive":
        return "cross-object interference is not replayable from a single case; re-run ./check C15 (%s)" % case.get("note")
    if kind == "edit":
        msg = run_edit(case)
        return None if isinstance(msg, tuple) else msg
    if kind == "trace":
        t = cc.rerecord(case["trace"])
        if t is None:
            return "lenient constructor raised"
        viol, _drift, info = cc.validate(ctx, [t])
        if viol:
            return "event %d still violates the statement" % (info.get(1, 0) + 1)
        return None
    return "unknown case kind"
