"""X04 (extra) -- list views II: the uploaders interpretation, sort()/sort_elements() and reformatting.

spec:      spec/ListSort.tla      reference on top of the C11 token alphabet (ListView.tla is EXTENDed read-only):
                                  the '>' rule of the uploaders list (TrueSep/Spans/ValsOf), ITEMS = value + the
                                  comment lines inside it + the comment lines in front of it (ItemsOf), key kinds,
                                  ordered permutations (IsSortedPerm), the documented shape of a reformatted field
                                  (Shape/HasShape), the run-time contract of format_field (FmtVerdict), abstract
                                  actions XAppend..XSortTo
           spec/ListSortImpl.tla  token-list layer transcribed from _parse_uploaders_list_value, sort_elements,
                                  _update_field, one_value_per_line_trailing_separator and the edit calls; TLC checks
                                  over EVERY layout within the bounds (3 interpretations) x every renaming of the
                                  words x every call sequence: ReaderAgrees, ReadTotal, Refines (values AND comment
                                  attachment), RoundTrip, EditResult, StillValid, WriteBack, ShapeOK, KhidTight, and
                                  (Assert) that the stable sort is an ordered permutation of the items.
                                  TLC FINDS the two open findings (MC_ListSortImpl_find_trail/_find_hidden.cfg) and
                                  verifies the repaired design (MC_ListSortImpl_fixed*.cfg); negative controls
                                  SortDropsComments, SepAlways, NoNlBeforeCmt, FmtNoTrailSep
           spec/ListSortFmt.tla   every formatter output stream up to 4 (5) symbols with its verdict; the shipped
                                  formatter (Ship) always passes the contract and has the documented shape (ASSUME);
                                  negative controls BadShip = nocont / nosep
           spec/TraceListSort.tla validation of recorded executions against the reference
binding:   (a) CASE lines of ListSortImpl (layout, calls, expected list after each call, expected outcome of leaving
               the with-block, predicted text) replayed on real documents through LIST_*_INTERPRETATION views; an
               execution that matches TLC's prediction in every observable passes (the prediction satisfied the
               invariants); every other execution goes to (b)
           (b) recorded executions -- mismatching replays, random long layouts x random call sequences over several
               with-blocks (fresh and re-entered list objects), size-stressed layouts -- are validated by TLC
               (TraceListSort) together with corrupted control traces
           (c) CASE/SHIP lines of ListSortFmt replayed through format_field with a scripted formatter / the real
               one_value_per_line_trailing_separator
leaks:     every observed list is mutated after it was recorded; all documents, views and list objects of a run stay
           alive; the same list object is entered again (reopen) and sorted again; one process runs thousands of
           sorts/formats on different objects (a shared default argument / module level state shows up as foreign
           values or a wrong first line); a second view of the field opened BEFORE the with-block must still show the
           old values afterwards (stale) and must not write
size:      notes/SIZE_STRESS.md -- words / blank runs / comment lines of boundary lengths (1..8193), field names of
           1..257 characters (the indent of a reformatted field is len(name)+2), lists of 2..257 values (1000 in the
           thorough tier) with comment lines in front of every k-th value, sorted/reversed/reformatted; TLC treats
           words as numbers, so the order and the split are length-independent by construction, counts are real.

Verdict observables: list(view) on open and after every call; the outcome of leaving the with-block; a fresh parse
of dump(): the real reader shows the reference list, the written field text lexed back into layout tokens is a valid
field whose items (reference reader) are the abstract items -- every value with the comment lines in front of it and
inside it --, after reformat_when_finished it has the documented shape and indent; everything outside the field is
byte-identical; ValueError on leaving only for an empty list / a trailing comment (plus the open finding).
Unspecified (executed, not judged): order among items with equal keys; comment attachment after a remove; text order
of values that share their first word; the last item of an uploaders field that ends in a non-separating comma;
editing an uploaders list that holds an item without '>'; ValueReferences held across a sort; empty lists.
"""
import json
import re
import threading

import core

MANIFEST = None     # an EXTRA: not one of the twenty registered property checks
EXTRA = dict(
    title="list views II: uploaders interpretation, sort()/sort_elements(), reformat_when_finished()/format_field",
    statement=(
        "(a) For every syntactically valid field value, LIST_UPLOADERS_INTERPRETATION yields exactly the pieces of the "
        "text cut at the commas whose nearest preceding word ends in '>' (or that have no word before them), with comment "
        "lines removed, surrounding whitespace stripped and empty pieces dropped; reading never fails; while every item "
        "ends in '>' append/remove/replace/value references behave as for the other list views (domain: if the last piece "
        "ends in a non-separating comma only 'does not fail' is required). "
        "(b) After sort()/sort_elements(key, reverse) the list is a permutation of its items that is ordered by the key "
        "(descending with reverse; the order among equal keys is not specified), every value keeps the comment lines in "
        "front of it and inside it, and leaving the with-block writes a syntactically valid field that re-reads as exactly "
        "these items while every other field stays byte-identical (comment lines behind the last value may be dropped; "
        "after a remove only the values are compared). "
        "(c) After reformat_when_finished() the field is written as one value per line -- the first after one blank (or "
        "after a newline and its comment lines), every further one indented by len(name)+2 blanks with its comment lines "
        "directly above it, a trailing separator after every value of a comma list -- and re-reads as the same items; "
        "format_field returns the concatenation of a well-formed formatter output and raises ValueError for a comment "
        "token that is not directly behind a newline, a value token directly behind a newline or behind another value "
        "token, an empty line, a line starting in column 0 and an output that does not end in a newline."),
    technique=(
        "TLA+ specs ListSort (reference, EXTENDS the C11 module ListView read-only), ListSortImpl (token-list layer "
        "transcribed from the code, model-checked over all bounded layouts x word renamings x call sequences, two code "
        "defects switchable), ListSortFmt (formatter contract); TLC-emitted cases replayed into the real views and "
        "format_field; recorded executions validated by TLC (TraceListSort) with corrupted controls"))

# open findings of this extra: exactly these divergences become KNOWN-FINDING lines (see run())
KNOWN = [
    dict(id="X04-uploaders-trailing-comma",
         signature="LIST_UPLOADERS_INTERPRETATION cannot read a field whose last item is followed by a comma but does not "
                   "end in '>' (e.g. 'Uploaders: a <x>, b,'): _parse_uploaders_list_value passes a negative count to "
                   "consume_many, tokens are lost and the view raises ValueError('Value parser did not fully cover ...')"),
    dict(id="X04-sort-hidden-separator",
         signature="sort()/sort_elements() on a comma or uploaders list: when the value that becomes first is preceded by "
                   "comment lines with a separator-only line between them (e.g. 'F: b\\n#c1\\n ,\\n#c2\\n a') only the "
                   "separator token is dropped, a blank continuation line remains and leaving the with-block raises "
                   "ValueError (document untouched) unless reformat_when_finished() was called"),
]
KNOWN_IDS = {k["id"] for k in KNOWN}
K_TRAIL, K_HIDDEN = "X04-uploaders-trailing-comma", "X04-sort-hidden-separator"

SP, NL, CT, CTS, CM, SEP, WS, CM0 = -1, -2, -3, -4, -5, -6, -7, -10
NEWA, NEWW, ABSENT, UNKNOWN, BADTOK = 97, 98, 96, 99999, 88888
UNKNOWN_CM = CM0 - 9999

# ------------------------------------------------------------------ concretization
# stems: distinct and prefix-free, so that the text order of two values is decided inside their first words and
# equals the order of the word numbers (the stems are handed out in sorted order)
STEMS = sorted(["amd64", "arm64", "bar", "baz", "debhelper", "foo", "gcc", "hurd", "i386", "java", "kfreebsd", "libc6",
                "linux", "mips", "naïve", "ocaml", "perl", "python3", "qemu", "ruby", "sparc", "tex", "udev", "vim", "wget",
                "x32", "yacc", "zsh", "中文", "Margrete", "Someone", "Zed", "Åse", "dpkg", "e2", "9base", "Q", "o-o", "s.t", "u+v"])
assert not any(a != b and b.startswith(a) for a in STEMS for b in STEMS)
DECO = {"sp": ["", "", "-any", "-dev", ":any", "=1", "[x]", "#1"],
        "cm": ["", "", " (>= 1.0)", " | alt", ":any", " <!nocheck>", "  two  blanks", " #r", " [amd64 i386]"],
        "odd": ["", "", " Name", " von Something", " J.", " <unfinished", " <m>x", ">="],
        "even": [" <%s@example.org>", "<x@y>", " Name <a@b.c>", ">", "  <%s@debian.org>", " (nick) <n@n>"]}
BLANKS = [" ", " ", "  ", "\t", " \t", "   "]
CMT_FORMS = ["# c%d\n", "#c%d\n", "# note %d, with comma\n", "#%d\n", "#  %d  two  words \n", "# é中 %d\n", "# Field: like %d\n"]
FIELDS = ["Uploaders", "Architecture", "Depends", "Build-Depends", "X-List", "Provides", "a-b", "F", "Uploaders2"]
BEFORE = ["Package: foo\n", "Source: s\nSection: misc\n", "# leading comment\nPackage: foo\n", "P: b,\n a,\n# c\n c\n"]
AFTER = ["Description: short\n long text\n .\n more, text\n", "Zz: y\n", "# comment of the next field\nZz: z y\n",
         "Priority: optional\n#c1\n#c2\nHomepage: http://x\n", "Last: x"]
BOUNDS = [1, 2, 7, 8, 9, 15, 16, 17, 31, 32, 33, 63, 64, 65, 71, 72, 73, 79, 80, 81, 127, 128, 129, 255, 256, 257,
          1023, 1024, 1025, 4095, 4096, 4097, 8191, 8192, 8193]
COUNTS = [2, 3, 9, 10, 11, 16, 17, 31, 32, 33, 99, 100, 101, 255, 256, 257]


def heavy_len(rng):
    return rng.choice(BOUNDS[:26]) if rng.random() < 0.75 else rng.choice(BOUNDS[26:])


def is_cm(t):
    return t == CM or t <= CM0


class Conc:
    """concrete text for one layout: a text per word number and comment number, blank runs, the surrounding fields"""

    def __init__(self, rng, mode, lay, extra_ids=(NEWA, NEWW, ABSENT), canonical=False, stress=False, longname=False):
        self.mode = mode
        self.lay = list(lay)
        ids = sorted({t for t in lay if t >= 1} | set(extra_ids))
        if len(ids) <= len(STEMS) and not (stress and len(ids) > 12):
            stems = STEMS[:len(ids)] if canonical else sorted(rng.sample(STEMS, len(ids)))
        else:
            stems = ["w%05d" % k for k in range(len(ids))]
        self.word = {}
        for wid, stem in zip(ids, stems):
            self.word[wid] = self.decorate(rng, wid, stem, canonical, stress and rng.random() < (0.5 if len(ids) < 40 else 0.03))
        self.cmt = {}
        self.tab = False if canonical else rng.random() < 0.4
        self.field = "F" if canonical else rng.choice(FIELDS)
        if longname:
            self.field = "X-" + "n" * max(0, heavy_len(rng) % 300 - 2)
        self.before = BEFORE[0] if canonical else rng.choice(BEFORE)
        self.after = AFTER[1] if canonical else rng.choice(AFTER)
        self.texts = []
        for t in lay:
            if t >= 1:
                self.texts.append(self.word[t])
            elif t in (SP, WS):
                if stress and rng.random() < (0.3 if len(lay) < 100 else 0.01):
                    self.texts.append(rng.choice([" ", "\t", " \t"]) * heavy_len(rng))
                else:
                    self.texts.append(" " if canonical else rng.choice(BLANKS))
            elif t == NL:
                self.texts.append("\n")
            elif t in (CT, CTS):
                self.texts.append("\t" if (self.tab and t == CT) else " ")
            elif is_cm(t):
                self.texts.append(self.comment(rng, t, canonical, stress and rng.random() < (0.3 if len(lay) < 100 else 0.01)))
            elif t == SEP:
                self.texts.append(",")
            else:
                raise core.MachineryError("layout token %r" % (t,))
        self.idiom = 0 if canonical else rng.randrange(4)
        self.index()

    def decorate(self, rng, wid, stem, canonical, big):
        mode = self.mode
        if mode == "up":
            even = wid % 2 == 0
            if canonical:
                return stem + (" <%s@example.org>" % stem if even else "")
            if big:
                n = heavy_len(rng)
                return stem + (" " + "x" * n + " <%s@example.org>" % stem if even else " " + "y" * n)
            d = rng.choice(DECO["even" if even else "odd"])
            return stem + (d % stem if "%s" in d else d)
        if canonical:
            return stem
        if big:
            n = heavy_len(rng)
            return stem + ("-" + "x" * n if mode == "sp" else " (>= " + "1" * n + ")")
        return stem + rng.choice(DECO[mode])

    def comment(self, rng, cid, canonical=False, big=False):
        if cid not in self.cmt:
            k = CM0 - cid if cid <= CM0 else 0
            if canonical:
                self.cmt[cid] = "# c%d\n" % k
            elif big:
                self.cmt[cid] = "#" + rng.choice(["c", " c,", "# "]) * heavy_len(rng) + " %d\n" % k
            else:
                self.cmt[cid] = rng.choice(CMT_FORMS) % k
        return self.cmt[cid]

    def index(self):
        self.word_id = {}
        for wid, w in self.word.items():
            if self.word_id.setdefault(w, wid) != wid:
                raise core.MachineryError("ambiguous word text %r" % w)
        self.cmt_id = {c: cid for cid, c in self.cmt.items()}
        if len(self.cmt_id) != len(self.cmt):
            raise core.MachineryError("ambiguous comment text")

    # -- (de)serialisation for replay files
    def to_json(self):
        return {"mode": self.mode, "word": {str(k): v for k, v in self.word.items()}, "cmt": {str(k): v for k, v in self.cmt.items()},
                "tab": self.tab, "field": self.field, "before": self.before, "after": self.after, "texts": self.texts,
                "lay": self.lay, "idiom": self.idiom}

    @classmethod
    def from_json(cls, j):
        c = cls.__new__(cls)
        c.mode, c.tab, c.field, c.before, c.after = j["mode"], j["tab"], j["field"], j["before"], j["after"]
        c.word = {int(k): v for k, v in j["word"].items()}
        c.cmt = {int(k): v for k, v in j["cmt"].items()}
        c.texts, c.lay, c.idiom = list(j["texts"]), list(j["lay"]), j.get("idiom", 0)
        c.index()
        return c

    def value_text(self):
        return "".join(self.texts)

    def document(self):
        return self.before + self.field + ":" + self.value_text() + self.after

    # -- the inverse of the concretization: text -> layout tokens
    def lex(self, text, widths=None):
        """a field text (behind the colon) or a value text as layout tokens; a blank run is ONE SP, every
        continuation character is CT; unknown words / comment lines get numbers TLC never expects.
        widths (a list): filled with one number per token, for a CT the length of the run of SPACES the
        line starts with (-1 when a tab is among its leading blanks), else 0"""
        toks = []
        sp_mode = self.mode == "sp"
        parts = text.split("\n")
        for li, body in enumerate(parts):
            has_nl = li < len(parts) - 1
            if not has_nl and body == "":
                break
            if li > 0 and body.startswith("#"):
                toks.append(self.cmt_id.get(body + "\n", UNKNOWN_CM) if has_nl else UNKNOWN_CM)
                continue
            if li > 0:
                if body[:1] in (" ", "\t"):
                    if widths is not None:
                        run = re.match(r"[ \t]*", body).group(0)
                        widths += [0] * (len(toks) - len(widths)) + [-1 if "\t" in run else len(run)]
                    toks.append(CT)
                    body = body[1:]
                else:
                    toks.append(BADTOK)
            if sp_mode:
                for m in re.finditer(r"[ \t]+|[^ \t]+", body):
                    x = m.group(0)
                    toks.append(SP if x[0] in " \t" else self.word_id.get(x, UNKNOWN))
            else:
                for pi, part in enumerate(body.split(",")):
                    if pi:
                        toks.append(SEP)
                    core_ = part.strip(" \t")
                    if not core_:
                        if part:
                            toks.append(SP)
                        continue
                    if part[0] in " \t":
                        toks.append(SP)
                    toks.append(self.word_id.get(core_, UNKNOWN))
                    if part[-1] in " \t":
                        toks.append(SP)
            if has_nl:
                toks.append(NL)
        if widths is not None:
            widths += [0] * (len(toks) - len(widths))
        return toks

    def code_of(self, value_text):
        return [t for t in self.lex(value_text) if not is_cm(t)]

    def canon_text(self, codes):
        """text for a value that is not in the list (new / absent words): single blanks"""
        out = []
        for c in codes:
            if c >= 1:
                if c not in self.word:
                    raise core.MachineryError("no text for word %r" % c)
                out.append(self.word[c])
            else:
                out.append({SP: " ", WS: " ", NL: "\n", CT: "\t" if self.tab else " ", CTS: " ", SEP: ","}[c])
        return "".join(out)


# ------------------------------------------------------------------ driving the real code

def interp_of(mode):
    from debian._deb822_repro.parsing import (LIST_SPACE_SEPARATED_INTERPRETATION, LIST_COMMA_SEPARATED_INTERPRETATION,
                                              LIST_UPLOADERS_INTERPRETATION)
    return {"sp": LIST_SPACE_SEPARATED_INTERPRETATION, "cm": LIST_COMMA_SEPARATED_INTERPRETATION,
            "up": LIST_UPLOADERS_INTERPRETATION}[mode]


def parse(text):
    from debian._deb822_repro import parse_deb822_file
    return parse_deb822_file(text.splitlines(keepends=True))


def key_of(kind, w):
    return {"text": w, "par": (w % 2) * 100000 + w, "half": (w + 1) // 2, "neg": -w, "const": 0}[kind]


KEEP_ALIVE = []      # every session of a run stays alive (leak probe: nothing may depend on garbage collection)


class Session:
    """a with-block on the list view of one field of a parsed document"""

    def __init__(self, text, conc, idiom=0):
        self.conc = conc
        self.file = parse(text)
        self.para = next(iter(self.file))
        self.mode, self.field = conc.mode, conc.field
        self.view = self.para.as_interpreted_dict_view(interp_of(self.mode))
        self.idiom = idiom
        self.lst = None
        self.stale = None
        if len(KEEP_ALIVE) < 20000:
            KEEP_ALIVE.append(self)

    def open_values(self):
        """(values, None) or (None, exception)"""
        try:
            r = list(self.view[self.field])
            self.stale = self.view[self.field]          # a second list object, read again after the with-block
            return r, None
        except Exception as e:
            return None, e

    def enter(self):
        if self.idiom % 2 == 0:
            self.lst = self.view[self.field]
        else:
            self.lst = self.para.get_kvpair_element(self.field).interpret_as(interp_of(self.mode))
        self.lst.__enter__()
        return self.lst

    def reenter(self):
        self.lst.__enter__()
        return self.lst

    def leave(self):
        try:
            self.lst.__exit__(None, None, None)
            return "ok", ""
        except ValueError as e:
            return "ValueError", str(e)
        except Exception as e:
            return "EXC:%s" % type(e).__name__, str(e)

    def dump(self):
        try:
            return self.file.dump()
        except Exception as e:
            return "<dump() raised %s: %s>" % (type(e).__name__, str(e)[:80])


def show(lst):
    try:
        r = list(lst)
    except Exception as e:
        return ["<list() raised %s>" % type(e).__name__]
    return r


def call(conc, lst, c):
    """one call on the open list; c = dict(op, v, w, i, kind, rev, api); returns 'ok' | 'ValueError' | 'EXC:<type>'"""
    op = c["op"]
    try:
        if op == "append":
            lst.append(c["v"])
        elif op == "remove":
            lst.remove(c["v"])
        elif op == "replace":
            lst.replace(c["v"], c["w"])
        elif op == "refset":
            list(lst.iter_value_references())[c["i"] - 1].value = c["w"]
        elif op == "refremove":
            list(lst.iter_value_references())[c["i"] - 1].remove()
        elif op == "sep":
            lst.append_separator()
        elif op == "sep0":
            lst.append_separator(space_after_separator=False)
        elif op == "nl":
            lst.append_newline()
        elif op == "cmt":
            lst.append_comment(c["text"])
        elif op == "reformat":
            lst.reformat_when_finished()
        elif op == "sort":
            kind, rev, api = c["kind"], c["rev"], c.get("api", 0)

            def first(text):
                codes = conc.code_of(text)
                return codes[0] if codes else 0
            if api % 2 == 0:
                kw = {}
                if kind != "text" or api == 2:
                    kw["key"] = lambda s: key_of(kind, first(s))
                if rev or api == 2:
                    kw["reverse"] = rev
                lst.sort(**kw)
            else:
                kw = {}
                if kind != "text" or api == 3:
                    kw["key"] = lambda ve: key_of(kind, first(ve.convert_to_text_without_comments()))
                lst.sort_elements(reverse=rev, **kw)
        else:
            raise core.MachineryError("op %r" % op)
        return "ok"
    except core.MachineryError:
        raise
    except ValueError:
        return "ValueError"
    except Exception as e:
        return "EXC:%s" % type(e).__name__


def around(conc, text):
    pre = conc.before + conc.field + ":"
    if not text.startswith(pre) or not text.endswith(conc.after) or len(text) < len(pre) + len(conc.after):
        return None
    return text[len(pre):len(text) - len(conc.after)]


def read_field(text, conc, want_list=True):
    """fresh parse: (value list of the field or None, field names | message)"""
    try:
        f = parse(text)
        if f.find_first_error_element() is not None:
            return None, "error element in a fresh parse"
        paras = list(f)
        if len(paras) != 1:
            return None, "%d paragraphs in a fresh parse" % len(paras)
        names = list(paras[0].keys())
        if not want_list:
            return [], names
        return list(paras[0].as_interpreted_dict_view(interp_of(conc.mode))[conc.field]), names
    except Exception as e:
        return None, "fresh parse raised %s: %s" % (type(e).__name__, e)


def up_items_ok(codes_list):
    return all(c and c[-1] >= 1 and c[-1] % 2 == 0 for c in codes_list)


class Exec:
    """executes with-blocks on one document and records the events for TraceListSort"""

    def __init__(self, conc, rng=None):
        self.conc = conc
        self.text = conc.document()
        self.cur = self.text
        self.events = []
        self.script = []
        self.names0 = None
        self.sess = None
        self.last = []          # texts the view showed last
        self.ncm = sum(1 for t in conc.lay if is_cm(t))
        self.calls = 0
        self.stale_msgs = []

    def obs(self, texts):
        self.last = list(texts)
        r = [self.conc.code_of(x) for x in texts]
        if isinstance(texts, list):
            texts.reverse()      # leak probe: mutating the returned list has no effect on the view
            del texts[:]
        return r

    def text_for(self, codes):
        """the text of a model value: the one the view shows now, else canonical text of its words"""
        codes = list(codes)
        for t in self.last:
            if self.conc.code_of(t) == codes:
                return t
        return self.conc.canon_text(codes)

    def open(self, idiom=0, reopen=False):
        conc = self.conc
        if reopen:
            try:
                lst = self.sess.reenter()
                self.events.append(dict(op="reopen", res="ok", obs=self.obs(show(lst)), doc="ok"))
            except Exception as e:
                self.events.append(dict(op="reopen", res="EXC:%s" % type(e).__name__, obs=[], doc="ok"))
                return False
            self.script.append({"reopen": True, "calls": []})
            self.calls = 0
            return True
        try:
            self.sess = Session(self.cur, conc, idiom)
            if self.names0 is None:
                self.names0 = list(self.sess.para.keys())
                if self.sess.dump() != self.cur:
                    raise ValueError("dump() of the untouched document differs from the input")
            opened, exc = self.sess.open_values()
        except Exception as e:
            self.events.append(dict(op="open", res="EXC:%s" % type(e).__name__, obs=[], doc="ok", msg=str(e)[:200]))
            return False
        if exc is not None:
            kind = "ValueError" if isinstance(exc, ValueError) else "EXC:%s" % type(exc).__name__
            self.events.append(dict(op="open", res=kind, obs=[], doc="ok", msg="%s: %s" % (type(exc).__name__, str(exc)[:300])))
            return False
        self.stale_expect = list(opened)
        self.events.append(dict(op="open", res="ok", obs=self.obs(opened), doc="ok"))
        try:
            self.sess.enter()
        except Exception as e:
            self.events.append(dict(op="enter", res="EXC:%s" % type(e).__name__, obs=[], doc="ok"))
            return False
        self.script.append({"idiom": idiom, "calls": []})
        self.calls = 0
        return True

    def do(self, c):
        """c: op + model arguments (codes); the concrete call is recorded in the script"""
        conc = self.conc
        cc = dict(op=c["op"], i=c.get("i", 0), kind=c.get("kind", ""), rev=bool(c.get("rev", False)), api=c.get("api", 0))
        if c.get("v"):
            cc["v"] = c["vtext"] if "vtext" in c else self.text_for(c["v"])
        if c.get("w"):
            cc["w"] = c["wtext"] if "wtext" in c else self.text_for(c["w"])
        if c["op"] == "cmt":
            cid = CM0 - self.ncm
            self.ncm += 1
            form = c.get("form", 0)
            k = CM0 - cid
            raw = ["c%d appended" % k, "# c%d, appended\n" % k, "#c%d" % k][form % 3]
            cc["text"] = raw
            from debian._deb822_repro.parsing import _format_comment
            conc.cmt[cid] = _format_comment(raw)
            conc.index()
            cc["i"] = cid
        r = call(conc, self.sess.lst, cc)
        ev = dict(op=c["op"], v=list(c.get("v") or []), w=list(c.get("w") or []), i=cc["i"], kind=cc["kind"], rev=cc["rev"],
                  res=r, obs=self.obs(show(self.sess.lst)), doc="ok")
        self.events.append(ev)
        self.script[-1]["calls"].append({k: v for k, v in cc.items()})
        self.calls += 1
        return ev

    def close(self):
        conc = self.conc
        r, msg = self.sess.leave()
        after = self.sess.dump()
        mid = around(conc, after)
        doc = "ok"
        got, names = None, None
        readable = "ok"
        if mid is None:
            doc = "text outside the field changed: %r" % after[:300]
        else:
            got, names = read_field(after, conc)
            if got is None and str(names).startswith("fresh parse raised"):
                got, names = read_field(after, conc, want_list=False)
                readable = "failed"
            if got is None:
                doc = names
            elif names != self.names0:
                doc = "field names %r -> %r" % (self.names0, names)
            elif r != "ok" and after != self.cur:
                doc = "%s on leaving but the document changed" % r
            elif self.calls == 0 and after != self.cur:
                doc = "open+close without change altered the document"
        # the second view that was opened before the with-block: still its own (old) list, and it never writes
        if self.sess.stale is not None:
            st = show(self.sess.stale)
            if st != self.stale_expect:
                self.stale_msgs.append("a view opened before the with-block shows %r afterwards, it showed %r" % (st, self.stale_expect))
            elif self.sess.dump() != after:
                self.stale_msgs.append("reading a second view changed the document")
        widths = []
        ev = dict(op="close", res=r, msg=msg[:200], read=readable, obs=self.obs(got) if got is not None else [],
                  lay2=conc.lex(mid, widths) if mid is not None else [BADTOK], ind=widths, doc=doc)
        self.events.append(ev)
        if r == "ok" and doc == "ok":
            self.cur = after
        return ev

    def trace(self):
        return {"mode": self.conc.mode, "lay": list(self.conc.lay), "namelen": len(self.conc.field),
                "events": [{k: v for k, v in e.items() if k != "msg"} for e in self.events]}


def tlc_event_fill(t):
    """every event gets every field TraceListSort reads"""
    for e in t["events"]:
        e.setdefault("v", [])
        e.setdefault("w", [])
        e.setdefault("i", 0)
        e.setdefault("kind", "")
        e.setdefault("rev", False)
        e.setdefault("obs", [])
        e.setdefault("lay2", [])
        e.setdefault("ind", [])
        e.setdefault("read", "ok")
        e.setdefault("doc", "ok")
    return t


# ------------------------------------------------------------------ (a) replay of a TLC case

def run_case(case, conc):
    """replay one CASE of ListSortImpl; returns (Exec, mismatches, fatal, known): mismatches = observables that differ
    from TLC's prediction (the arbiter TraceListSort then decides), fatal = a violation no trace can express"""
    ex = Exec(conc)
    mism = []
    text = ex.text
    if case["fails"] or not case["dom"]:
        # outside UpDomain: reading must not fail, the values are not judged
        ok = ex.open(conc.idiom)
        ev = ex.events[0]
        if ev["res"] == "ValueError" and "did not fully cover" in ev.get("msg", ""):
            return ex, mism, None, K_TRAIL
        if not ok:
            return ex, mism, "reading %r as an uploaders list raised %s" % (conc.value_text(), ev.get("msg") or ev["res"]), None
        ex.close()
        return ex, mism, None, None
    if not ex.open(conc.idiom):
        ev = ex.events[-1]
        return ex, mism, "opening the view of %r raised %s %s" % (conc.value_text(), ev["res"], ev.get("msg", "")), None
    if ex.events[0]["obs"] != case["v0"]:
        mism.append("values on open %r, the reference reader gives %r (field text %r)" % (ex.last, case["v0"], conc.value_text()))
    for k, e in enumerate(case["ops"]):
        c = dict(op=e["op"], v=e["v"], w=e["w"], i=e["i"], kind=e["kind"], rev=e["rev"], api=(conc.idiom + k) % 4, form=k)
        if e["op"] == "cmt":
            c["i"] = 0
        ev = ex.do(c)
        if ev["res"].startswith("EXC:"):
            return ex, mism, "call %d %s raised %s" % (k + 1, e["op"], ev["res"][4:]), None
        if ev["res"] != e["r"]:
            mism.append("call %d %s: outcome %s, model %s" % (k + 1, e["op"], ev["res"], e["r"]))
        if ev["obs"] != e["vals"]:
            mism.append("call %d %s: the view shows %r, model %r" % (k + 1, e["op"], ev["obs"], e["vals"]))
    ev = ex.close()
    known = None
    if ev["res"].startswith("EXC:"):
        return ex, mism, "leaving the with-block raised %s: %s" % (ev["res"][4:], ev["msg"]), None
    if ev["doc"] != "ok":
        return ex, mism, "leaving the with-block: %s" % ev["doc"], None
    want = "ok" if case["cres"] in ("ok", "nowrite") else "ValueError"
    writable = bool(case["vals"]) and case["tail"] != "cmt"
    if case["cres"] == "ValueError" and writable and case["khid"] and not case["reform"]:
        # TLC predicts the open finding (the defect is part of the transcription)
        if ev["res"] == "ValueError":
            known = K_HIDDEN
        else:
            mism.append("the write-back succeeded although the model (with the open finding) refuses")
    elif ev["res"] != want:
        mism.append("leaving the with-block: %s, model %s" % (ev["res"], case["cres"]))
    if ev["res"] == "ok":
        if case["vals"] and ev["obs"] != case["vals"]:
            mism.append("the field re-parses to %r, model %r" % (ev["obs"], case["vals"]))
        if case["vals"] and ev["lay2"] != case["out"]:
            mism.append("text written %r = %r, model predicts %r" % (around(conc, ex.cur), ev["lay2"], case["out"]))
        if case["reform"] and case["cres"] == "ok" and ev["lay2"] == case["out"]:
            # (the predicted text is Shape: every CT followed by a blank run is an indent of the formatter)
            bad = [w for k, w in enumerate(ev["ind"]) if ev["lay2"][k] == CT and ev["lay2"][k + 1] == SP and k + 2 < len(ev["lay2"])
                   and ev["lay2"][k + 2] >= 1 and (k == 0 or ev["lay2"][k - 1] == NL or is_cm(ev["lay2"][k - 1])) and w != len(conc.field) + 2
                   and not inner_line(ev["lay2"], k, conc.mode)]
            if bad:
                mism.append("indents %r of the reformatted field, documented len(name)+2 = %d" % (bad, len(conc.field) + 2))
    if ex.stale_msgs:
        return ex, mism, ex.stale_msgs[0], None
    return ex, mism, None, known


def inner_line(lay, k, mode):
    """diagnostic pre-filter only (TLC decides): the continuation line at k continues a comma value"""
    if mode == "sp":
        return False
    j = k - 1
    while j >= 0 and (lay[j] in (SP, NL, CT) or is_cm(lay[j])):
        j -= 1
    return j >= 0 and lay[j] >= 1


def emit_cfg(modes, maxw, maxt, maxc, edits, medits, minvals, kindsel, allperms, slice_k, slice_r, dups=True):
    return """CONSTANTS
  Modes = {%s}
  MaxW = %d
  MaxT = %d
  MaxC = %d
  Dups = %s
  MaxEdits = %d
  Edits = %s
  KindSel = "%s"
  MinVals = %d
  AllPerms = %s
  Emit = TRUE
  SliceK = %d
  SliceR = %d
  DefectTrailComma = TRUE
  DefectHiddenSep = TRUE
  Exempt = TRUE
  SortDropsComments = FALSE
  SepAlways = FALSE
  NoNlBeforeCmt = FALSE
  FmtNoTrailSep = FALSE
SPECIFICATION Spec
INVARIANT LayoutValid
INVARIANT ReaderAgrees
INVARIANT ReadTotal
INVARIANT Refines
INVARIANT RoundTrip
INVARIANT TailOK
INVARIANT EditResult
INVARIANT StillValid
INVARIANT WriteBack
INVARIANT RefuseOnlyWhen
INVARIANT ShapeOK
CHECK_DEADLOCK FALSE
""" % (", ".join('"%s"' % m for m in modes), maxw, maxt, maxc, "TRUE" if dups else "FALSE", medits,
       "TRUE" if edits else "FALSE", kindsel, minvals, "TRUE" if allperms else "FALSE", slice_k, slice_r)


# ------------------------------------------------------------------ (b) layouts and random executions

def can_follow(mode, p2, p, has_c, first, t):
    """generator side mirror of ListView!CanFollow (TLC re-checks every generated layout: TLayoutOK)"""
    w = lambda x: x >= 1
    if p == 0:
        return t in (SP, NL) or w(t) or (mode == "cm" and t == SEP)
    if p == SP:
        return (w(t) and (mode == "sp" or not w(p2))) or (mode == "cm" and t == SEP) or (t == NL and (has_c or first))
    if w(p):
        return t in (SP, NL) or (mode == "cm" and t == SEP)
    if p == SEP:
        return t in (SP, NL, SEP) or w(t)
    if p in (NL, CM):
        return t in (CM, CT)
    if p == CT:
        return t == SP or w(t) or (mode == "cm" and t == SEP)
    return False


def gen_layout(rng, mode, nwords, nids):
    """random walk through the layout automaton; words get distinct random numbers out of 1..nids (so the values
    are in no particular order), a few single-word items repeat an earlier one; comment lines are numbered"""
    W = 1
    gm = "sp" if mode == "sp" else "cm"
    lay = []
    weights = {W: 5, SP: 3, NL: 2, CT: 1, CM: 2, SEP: 4 if gm == "cm" else 0}
    sep_heavy = rng.random() < 0.3
    cmt_heavy = rng.random() < 0.5
    while True:
        p = lay[-1] if lay else 0
        p2 = lay[-2] if len(lay) > 1 else 0
        line = []
        for x in reversed(lay):
            if x in (NL, CM):
                break
            line.append(x)
        has_c = any(x >= 1 or x == SEP for x in line)
        first = NL not in lay
        nw = sum(1 for x in lay if x >= 1)
        if p == NL and nw >= nwords and nw > 0 and rng.random() < 0.8:
            break
        opts = []
        for t in (W, SP, NL, CT, CM, SEP):
            if t == SEP and gm != "cm":
                continue
            if can_follow(gm, p2, p, has_c, first, t):
                wt = weights[t]
                if t == SEP and sep_heavy:
                    wt *= 2
                if t == CM and cmt_heavy:
                    wt *= 3
                opts.append((t, wt))
        lay.append(rng.choices([o[0] for o in opts], weights=[o[1] for o in opts])[0])
        if len(lay) > 400:
            raise core.MachineryError("layout generator does not terminate")
    # pieces between separators (sp: every word)
    pieces, cur = [], []
    for k, t in enumerate(lay):
        if gm == "cm" and t == SEP:
            pieces.append(cur)
            cur = []
        elif t >= 1:
            cur.append(k)
            if gm == "sp":
                pieces.append(cur)
                cur = []
    pieces.append(cur)
    pieces = [p for p in pieces if p]
    nw = sum(len(p) for p in pieces)
    if mode == "up":
        idx = rng.sample(range(1, max(nids // 2, nw) + 1), nw)
    else:
        idx = rng.sample(range(1, max(nids, nw) + 1), nw)
    singles = []
    for piece in pieces:
        for j, k in enumerate(piece):
            last = j == len(piece) - 1
            if len(piece) == 1 and singles and rng.random() < 0.15:
                lay[k] = rng.choice(singles)
                continue
            i = idx.pop()
            if mode == "up":
                gt = (rng.random() < 0.9) if last else (rng.random() < 0.25)
                lay[k] = 2 * i if gt else 2 * i - 1
                if len(piece) == 1 and gt:
                    singles.append(lay[k])
            else:
                lay[k] = i
                if len(piece) == 1:
                    singles.append(i)
    n = 0
    for k, t in enumerate(lay):
        if t == CM:
            lay[k] = CM0 - n
            n += 1
    return lay


def stress_layout(rng, mode, kind, n):
    """COUNT dimension: n values (shuffled numbers, a few identical) in one line / one per line with a comment line in
    front of every 3rd / leading separators; 'hidden': a separator-only line between the comment lines of one value"""
    if mode == "up":
        ids = [2 * k for k in rng.sample(range(1, 4 * n + 1), n)]
    else:
        ids = rng.sample(range(1, 4 * n + 1), n)
    for k in range(len(ids)):
        if n >= 3 and k and rng.random() < 0.05:
            ids[k] = ids[rng.randrange(k)]
    sep = [SEP] if mode != "sp" else []
    lay = []
    nc = 0

    def cm():
        nonlocal nc
        nc += 1
        return CM0 - (nc - 1)
    if kind == "oneline":
        lay = [SP]
        for k, w in enumerate(ids):
            lay += [w] + (sep + [SP] if k < n - 1 else [])
        lay += [NL]
    elif kind == "perline":
        lay = [SP]
        for k, w in enumerate(ids):
            if k:
                lay += ([cm()] if k % 3 == 1 else []) + [CT, SP]
            lay += [w] + sep + [NL]
    elif kind == "leadsep":
        lay = [SP, ids[0], NL]
        for k, w in enumerate(ids[1:]):
            lay += ([cm(), cm()] if k % 5 == 0 else []) + [CT] + (sep + [SP] if sep else [SP]) + [w, NL]
    elif kind == "hidden":      # ... w NL #c CT , NL #c CT w ...  (comma / uploaders lists only)
        lay = [SP, ids[0], NL]
        for k, w in enumerate(ids[1:]):
            if k % 4 == 0:
                lay += [cm(), CT, SEP, NL, cm(), CT, w, NL]
            else:
                lay += [CT, SEP, SP, w, NL]
    else:
        raise core.MachineryError(kind)
    return lay


OPS = (["sort"] * 6 + ["reformat"] * 2 + ["append"] * 3 + ["remove"] * 2 + ["replace", "refset", "refremove", "nl", "cmt", "cmt"])


def record_trace(rng, mode, lay, nsessions, nops, stress=False, longname=False, forced=None, script=None):
    """execute random with-blocks on a real document; returns the Exec (trace + what replay needs).
    With `script` (recorded concrete sessions) the same calls are executed again."""
    if script is None:
        ids = sorted({t for t in lay if t >= 1})
        top = (max(ids) if ids else 0) + 40
        pool = [w for w in range(1, top + 1) if w not in ids]
        if mode == "up":
            fresh = [w for w in pool if w % 2 == 0]
        else:
            fresh = pool
        fresh = rng.sample(fresh, min(len(fresh), 6 if not stress else 3))
        conc = Conc(rng, mode, lay, extra_ids=fresh + [ABSENT + 1000], stress=stress, longname=longname)
    else:
        conc = Conc.from_json(script["conc"])
        fresh = []
    ex = Exec(conc)
    if script is not None:
        for sn, s in enumerate(script["sessions"]):
            if not ex.open(s.get("idiom", 0), reopen=s.get("reopen", False)):
                break
            for c in s["calls"]:
                ex_call_scripted(ex, dict(c))
            ev = ex.close()
            if ev["doc"] != "ok" or ev["read"] != "ok":
                break
        return ex
    absent = conc.word[ABSENT + 1000]
    for sn in range(nsessions):
        reopen = sn > 0 and rng.random() < 0.35 and ex.events[-1]["op"] == "close" and ex.events[-1]["res"] == "ok"
        if not ex.open(rng.randrange(4), reopen=reopen):
            break
        codes = ex.events[-1]["obs"]
        editable = mode != "up" or up_items_ok(codes)
        plan = forced[sn] if forced and sn < len(forced) else None
        n = len(plan) if plan is not None else (rng.randint(0, nops) if editable else 0)
        for k in range(n):
            now = ex.events[-1]["obs"]
            op = plan[k] if plan is not None else rng.choice(OPS + (["sep", "sep0"] if mode != "sp" else []))
            where = None
            if "@" in op:
                op, _, where = op.partition("@")
            c = dict(op=op)
            if op == "sort":
                if where:
                    kind, _, rv = where.partition("/")
                    c["kind"], c["rev"] = kind, rv == "r"
                else:
                    c["kind"] = rng.choice(["text"] * 4 + ["par", "half", "neg", "const"])
                    c["rev"] = rng.random() < 0.4
                c["api"] = rng.randrange(4)
            elif op == "append":
                if fresh and rng.random() < 0.8:
                    w = fresh.pop()
                    c["v"] = [w]
                elif now:
                    single = [v for v in now if len(v) == 1]
                    if not single:
                        continue
                    c["v"] = rng.choice(single)
                else:
                    continue
            elif op in ("remove", "replace"):
                if now and rng.random() < 0.9:
                    c["v"] = rng.choice(now) if not where else now[{"first": 0, "last": -1, "mid": len(now) // 2}[where]]
                else:
                    c["v"] = [ABSENT + 1000]
                    c["vtext"] = absent
                if op == "replace":
                    if not fresh:
                        continue
                    c["w"] = [fresh.pop()]
            elif op in ("refset", "refremove"):
                if not now:
                    continue
                c["i"] = rng.randint(1, len(now))
                if op == "refset":
                    if not fresh:
                        continue
                    c["w"] = [fresh.pop()]
            elif op == "cmt":
                c["form"] = rng.randrange(3)
            ex.do(c)
            if ex.events[-1]["res"].startswith("EXC"):
                break
        ev = ex.close()
        if ev["doc"] != "ok" or ev["read"] != "ok" or ev["res"].startswith("EXC"):
            break
    return ex


def ex_call_scripted(ex, cc):
    """re-execute a recorded concrete call (replay of a trace case)"""
    conc = ex.conc
    c = dict(op=cc["op"], i=cc.get("i", 0), kind=cc.get("kind", ""), rev=cc.get("rev", False), api=cc.get("api", 0))
    if "v" in cc:
        c["v"] = conc.code_of(cc["v"])
        c["vtext"] = cc["v"]
    if "w" in cc:
        c["w"] = conc.code_of(cc["w"])
        c["wtext"] = cc["w"]
    if cc["op"] == "cmt":
        raw = cc["text"]
        form = 0 if raw.endswith("appended") else 1 if raw.endswith("\n") else 2
        c["form"] = form
    return ex.do(c)


def corrupt(t, how):
    import copy
    t = copy.deepcopy(t)
    ev = t["events"]
    for n, e in enumerate(ev):
        if how == "unsorted" and e["op"] == "sort" and e["res"] == "ok" and e["kind"] in ("text", "neg", "par") and len(e["obs"]) >= 2 \
                and e["obs"][0][0] != e["obs"][-1][0]:
            e["obs"][0], e["obs"][-1] = e["obs"][-1], e["obs"][0]          # not ordered any more
            return t
        if how == "lost" and e["op"] == "sort" and e["res"] == "ok" and len(e["obs"]) >= 2:
            e["obs"] = e["obs"][1:]                                         # a value vanished in the sort
            return t
        if how == "comment" and e["op"] == "close" and e["res"] == "ok" and any(x["op"] in ("sort", "reformat") for x in ev[:n]) \
                and not any(x["op"] in ("remove", "refremove", "close") for x in ev[:n]):
            L = e["lay2"]

            def next_word(k):
                for j in range(k, len(L)):
                    if L[j] >= 1:
                        return j
                return None
            cms = [k for k, x in enumerate(L) if is_cm(x)]
            starts = [k for k, x in enumerate(L) if x == CT and k > 0 and (L[k - 1] == NL or is_cm(L[k - 1]))]
            for k in cms:
                for q in starts:
                    if next_word(q) is not None and next_word(k) is not None and next_word(q) != next_word(k) \
                            and not (q > 0 and is_cm(L[q - 1])):
                        c = L[k]
                        if q > k:
                            L.insert(q, c)
                            del L[k]
                        else:
                            del L[k]
                            L.insert(q, c)
                        return t                                            # the comment line now precedes another value
        if how == "shape" and e["op"] == "close" and e["res"] == "ok" and any(x["op"] == "reformat" for x in ev[:n]) \
                and not any(x["op"] == "close" for x in ev[:n]) and t["mode"] != "sp" and SEP in e["lay2"]:
            k = len(e["lay2"]) - 1 - e["lay2"][::-1].index(SEP)
            del e["lay2"][k]                                                # no trailing separator behind the last value
            return t
        if how == "indent" and e["op"] == "close" and e["res"] == "ok" and any(x["op"] == "reformat" for x in ev[:n]) \
                and not any(x["op"] == "close" for x in ev[:n]):
            L = e["lay2"]
            ks = [k for k in range(len(L) - 2) if L[k] == CT and L[k + 1] == SP and L[k + 2] >= 1 and k > 0 and L[k - 1] == NL
                  and k > 1 and (L[k - 2] == SEP or t["mode"] == "sp")]
            if ks:
                e["ind"][ks[0]] += 1
                return t
        if how == "refuse" and e["op"] == "close" and e["res"] == "ok" and e["obs"] and any(x["op"] == "sort" for x in ev[:n]):
            e["res"] = "ValueError"
            return t
        if how == "doc" and e["op"] == "close":
            e["doc"] = "text outside the field changed"
            return t
        if how == "open" and e["op"] == "open" and len(e["obs"]) >= 1 and t["mode"] == "up":
            # the uploaders view split at a comma inside a name / glued two uploaders
            v = e["obs"][0]
            if SEP in v:
                k = v.index(SEP)
                e["obs"][0:1] = [v[:k], [x for x in v[k + 1:] if x != SP][0:]]
                return t
            if len(e["obs"]) >= 2:
                e["obs"][0:2] = [e["obs"][0] + [SEP, SP] + e["obs"][1]]
                return t
    return None


CONTROL_KINDS = ("unsorted", "lost", "comment", "shape", "indent", "refuse", "doc", "open")


def validate(ctx, traces, with_controls=True, known=None, nrec=None):
    known = KNOWN_IDS if known is None else known
    tl = [tlc_event_fill(t) for t in traces]
    controls = []
    made = {}
    if with_controls:
        for how in CONTROL_KINDS:
            for t in tl:
                c = corrupt(t, how)
                if c:
                    controls.append(c)
                    made[how] = made.get(how, 0) + 1
                    break
    env = {"TRACE_DIAG": "0", "KNOWN_HIDDEN": "1" if K_HIDDEN in known else "0", "KNOWN_TRAIL": "1" if K_TRAIL in known else "0"}
    acc, _, r = core.validate_traces(ctx, "TraceListSort", "TraceListSort.cfg", tl, extra_env=env, controls=controls)
    rejected = [i for i in range(1, len(tl) + 1) if i not in acc]
    # REJECT lines are notes of the trace module: this (accepted) trace needed an open finding
    notes = {}
    for v in r.printed.get("REJECT", []):
        if isinstance(v, list) and len(v) >= 2 and v[0] in acc and v[0] <= len(tl):
            notes[v[0]] = K_HIDDEN if v[1] == "known-hidden" else K_TRAIL
    validate.notes = notes
    info = {}
    if rejected:
        nrec = len(tl) if nrec is None else nrec
        pick = [i for i in rejected if i > nrec][:3]           # replayed TLC cases first (small), then recorded executions
        pick += [i for i in rejected if i <= nrec][:5 - len(pick)]
        sub = [tl[i - 1] for i in pick]
        env["TRACE_DIAG"] = "1"
        _, prog, _ = core.validate_traces(ctx, "TraceListSort", "TraceListSort.cfg", sub, extra_env=env)
        for j, i in enumerate(pick):
            info[i] = prog.get(j + 1, 0)
    return rejected, info, made


# ------------------------------------------------------------------ (c) the formatter contract

def run_fmt_case(case, name, vals, cmts):
    """one output stream of a scripted formatter through format_field; returns None or a message"""
    from debian._deb822_repro.formatter import FormatterContentToken as F, format_field, COMMA_SEPARATOR_FT
    stream, text = [], []
    nv = nc = 0
    for y in case["st"]:
        if y == "V":
            stream.append(F.value_token(vals[nv % len(vals)]))
            text.append(vals[nv % len(vals)])
            nv += 1
        elif y == "C":
            stream.append(F.comment_token(cmts[nc % len(cmts)]))
            text.append(cmts[nc % len(cmts)])
            nc += 1
        elif y == "S":
            stream.append(F.separator_token(","))
            text.append(",")
        else:
            s = {"n": "\n", "b": " ", "nb": "\n ", "x": "x"}[y]
            stream.append(s)
            text.append(s)
    try:
        got = format_field(lambda n, s, t: iter(stream), name, COMMA_SEPARATOR_FT, iter([]))
        out = "accept"
    except ValueError:
        got, out = None, "reject"
    except Exception as e:
        got, out = None, "EXC:%s" % type(e).__name__
    if case["verdict"] == "unspec":
        return None if out in ("accept", "reject") else "format_field raised %s for the formatter output %r" % (out[4:], case["st"])
    if out != case["verdict"]:
        return "format_field: %s for the formatter output %r, contract says %s" % (out, case["st"], case["verdict"])
    if out == "accept" and got != name + ":" + "".join(text):
        return "format_field returned %r for the output %r of the formatter" % (got, "".join(text))
    return None


def run_ship_case(case, name, vals, cmts):
    """the real one_value_per_line_trailing_separator on an input of value/comment/separator tokens"""
    from debian._deb822_repro.formatter import (FormatterContentToken as F, format_field, COMMA_SEPARATOR_FT,
                                                SPACE_SEPARATOR_FT, one_value_per_line_trailing_separator)
    sep = SPACE_SEPARATOR_FT if case["mode"] == "sp" else COMMA_SEPARATOR_FT
    toks = []
    nv = nc = 0
    for y in case["inp"]:
        if y == "V":
            toks.append(F.value_token(vals[nv % len(vals)]))
            nv += 1
        elif y == "C":
            toks.append(F.comment_token(cmts[nc % len(cmts)]))
            nc += 1
        else:
            toks.append(F.separator_token(" " if case["mode"] == "sp" else ","))
    exp = [name, ":"]
    nv = nc = 0
    for y in case["out"]:
        if y == "V":
            exp.append(vals[nv % len(vals)])
            nv += 1
        elif y == "C":
            exp.append(cmts[nc % len(cmts)])
            nc += 1
        else:
            exp.append({"n": "\n", "b": " ", "i": " " * (len(name) + 2), "S": ","}[y])
    exp = "".join(exp)
    for as_list in (False, True):
        try:
            got = format_field(one_value_per_line_trailing_separator, name, sep, list(toks) if as_list else iter(toks))
        except Exception as e:
            return "format_field(one_value_per_line_trailing_separator) raised %s: %s for the tokens %r" % (type(e).__name__, e, case["inp"])
        if got != exp:
            return "one_value_per_line_trailing_separator gave %r for the tokens %r, documented %r" % (got, case["inp"], exp)
    return None


# ------------------------------------------------------------------ the check

def run(ctx):
    quick = ctx.tier == "quick"
    rng = ctx.rng
    ctx.assumptions += [
        "layout tokens of C11 (word, comma, blanks, newline, continuation blank, comment line) plus numbered comment lines; words with an even number end in '>'; design bounds quick: <=3 words/6 tokens/1 comment line x 1 call (the emission runs check the same invariants on the emitted slices of the layouts <=7 tokens); thorough: <=3 words/8 tokens/2 comment lines x every renaming x 7 key/reverse pairs, 2 calls on <=6 tokens, 3 calls on <=2 words/5 tokens, comma and uploaders layouts <=10 tokens for the hidden separator; replayed cases: slices of these chosen by the seed",
        "text order = order of the word numbers: the concretization hands out prefix-free stems in sorted order; values that share their first word are identical (KeyDomain), otherwise the order is not judged",
        "order among items with equal keys, comment attachment after a remove, ValueReferences across a sort, empty lists, editing an uploaders list with an item without '>', the value of a last uploaders item that ends in a non-separating comma: unspecified (executed, document level only)",
        "the written text is lexed back into layout tokens by the inverse of the concretization (trusted); which tokens form values / which comment lines belong to a value is decided by TLC (reference reader)",
        "size: words/blank runs/comment lines up to 8193 characters, field names up to 257+ characters, lists up to 257 values (1000 thorough) with comment lines, sorted and reformatted",
        "trusted: TLC, the concretizer and its lexer, the projections list(view), dump(), byte comparison around the field",
    ]
    design = {}

    def design_run():
        try:
            w = 4
            cfgs = ["MC_ListSortImpl_quick.cfg"] if quick else ["MC_ListSortImpl.cfg", "MC_ListSortImpl_two.cfg", "MC_ListSortImpl_deep.cfg",
                                                                 "MC_ListSortImpl_hidden.cfg", "MC_ListSortImpl_fixed.cfg", "MC_ListSortImpl_fixed_hidden.cfg"]
            design["runs"] = [(c, ctx.tlc_must_hold("ListSortImpl", c, workers=w)) for c in cfgs]
            neg = {}
            todo = [("ListSortImpl", "MC_ListSortImpl_find_trail.cfg", "ReadTotal"), ("ListSortFmt", "MC_ListSortFmt_neg_cont.cfg", "ASSUME")]
            if not quick:
                todo += [("ListSortImpl", "MC_ListSortImpl_find_hidden.cfg", "WriteBack"), ("ListSortImpl", "MC_ListSortImpl_neg_drop.cfg", "Refines"),
                         ("ListSortImpl", "MC_ListSortImpl_neg_sep.cfg", "Refines"), ("ListSortImpl", "MC_ListSortImpl_neg_nl.cfg", "WriteBack"),
                         ("ListSortImpl", "MC_ListSortImpl_neg_fmt.cfg", "ShapeOK"), ("ListSortFmt", "MC_ListSortFmt_neg_sep.cfg", "ASSUME")]
            for mod, cfg, inv in todo:
                if inv == "ASSUME":
                    try:
                        ctx.tlc(mod, cfg, count=False, workers=1)
                        raise core.MachineryError("negative control %s: the assumption ShippedPasses holds" % cfg)
                    except core.MachineryError as e:
                        if "Assumption" not in str(e) or "is false" not in str(e):
                            raise
                        neg[cfg] = "ShippedPasses false"
                    continue
                r = ctx.tlc(mod, cfg, count=False, workers=2)
                if r.violated != inv:
                    raise core.MachineryError("negative control %s: expected %s to fail, TLC says %r" % (cfg, inv, r.violated))
                neg[cfg] = r.violated
            design["neg"] = neg
        except BaseException as e:
            design["error"] = e

    def emit_run():
        try:
            s = ctx.seed
            if quick:
                emits = [emit_cfg(["sp", "cm", "up"], 3, 7, 1, False, 1, 2, "some", False, 9, s % 9),       # a layout with >= 2 values: sort / reformat
                         emit_cfg(["sp", "cm", "up"], 3, 7, 1, True, 2, 2, "some", False, 300, s % 300),   # two calls, with the edit calls
                         emit_cfg(["up"], 3, 7, 1, True, 0, 0, "one", False, 2, s % 2)]                    # reading uploaders fields
            else:
                emits = [emit_cfg(["sp", "cm", "up"], 3, 7, 1, False, 1, 2, "all", True, 5, s % 5),
                         emit_cfg(["sp", "cm", "up"], 3, 8, 2, False, 1, 2, "some", False, 12, s % 12),
                         emit_cfg(["sp", "cm", "up"], 3, 7, 1, True, 2, 2, "some", False, 60, s % 60),
                         emit_cfg(["cm", "up"], 2, 10, 2, False, 1, 2, "one", False, 16, s % 16, dups=False),
                         emit_cfg(["up"], 3, 8, 1, True, 0, 0, "one", False, 3, s % 3)]
            res = [None] * len(emits)

            def one(k):
                try:
                    res[k] = ctx.tlc("ListSortImpl", emits[k], workers=1, want_tags={"CASE"})
                except BaseException as e:
                    res[k] = e
            ths = [threading.Thread(target=one, args=(k,)) for k in range(len(emits))]
            for k in range(0, len(ths), 3):          # three emission runs at a time
                for th in ths[k:k + 3]:
                    th.start()
                for th in ths[k:k + 3]:
                    th.join()
            out = []
            for r in res:
                if isinstance(r, BaseException):
                    raise r
                if r.violated:
                    raise core.MachineryError("emission run violated %s" % r.violated)
                out += r.printed.get("CASE", [])
            if len(out) < 500:
                raise core.MachineryError("only %d cases emitted" % len(out))
            design["cases"] = out
        except BaseException as e:
            design["error"] = e

    def fmt_run():
        try:
            r = ctx.tlc_must_hold("ListSortFmt", "MC_ListSortFmt_quick.cfg" if quick else "MC_ListSortFmt.cfg", workers=1,
                                  want_tags={"CASE", "SHIP"})
            design["fmt"] = r
        except BaseException as e:
            design["error"] = e
    threads = [threading.Thread(target=f) for f in (design_run, emit_run, fmt_run)]
    for th in threads:
        th.start()
    hits = {}

    def hit(fid):
        hits[fid] = hits.get(fid, 0) + 1

    try:
        # ---- (b) code -> spec: recorded executions
        import time
        tm = {"t0": time.time()}
        ntr = 210 if quick else 1000
        execs = []
        for i in range(ntr):
            mode = ("sp", "cm", "up")[i % 3]
            lay = gen_layout(rng, mode, rng.randint(1, 7), 30)
            execs.append(record_trace(rng, mode, lay, rng.randint(1, 3), 5, stress=(i % 16 == 5), longname=(i % 16 == 9)))
        plan = []
        for rep in range(1 if quick else 3):
            modes = ("sp", "cm", "up")
            bigmode = modes[(ctx.seed + rep) % 3]
            for mode in modes:
                plan += [(mode, "oneline", rng.choice(COUNTS[:8]), [["sort@text/f"], ["sort@text/r", "reformat"]]),
                         (mode, "perline", rng.choice(COUNTS[3:9] if quick else COUNTS[3:12]), [["sort@neg/f"], ["reformat"], ["sort@par/f", "append", "sort@text/f"]]),
                         (mode, "leadsep", rng.choice(COUNTS[:9]), [["reformat", "sort@text/f"], ["sort@half/r"]])]
                if mode == bigmode or not quick:
                    plan += [(mode, "perline", rng.choice(COUNTS[12:]), [["sort@text/f", "reformat"]])]
            plan += [(rng.choice(["cm", "up"]), "hidden", rng.choice([9, 10, 33]), [["sort@text/f", "reformat"], ["sort@text/r"]]),
                     (rng.choice(["cm", "up"]), "hidden", rng.choice([5, 17]), [["sort@text/r"], ["sort@text/f"]])]
        if not quick:
            plan += [(("sp", "cm")[ctx.seed % 2], "perline", 1000, [["sort@text/f", "reformat"]])]
        for mode, kind, n, forced in plan:
            execs.append(record_trace(rng, mode, stress_layout(rng, mode, kind, n), len(forced), 0, stress=True,
                                      longname=rng.random() < 0.5, forced=forced))
        ctx.extra["stress_traces"] = len(plan)
        tm["recorded"] = time.time()

        # ---- (a) spec -> code: cases printed by TLC
        threads[1].join()
        if "error" in design:
            raise design["error"]
        cases = design["cases"]
        tm["emitted"] = time.time()
        arb = []          # (Exec, case, conc, mismatches)
        per_op = {}
        nrep = 0
        for ci, case in enumerate(cases):
            if len(ctx.violations) >= 5:
                break
            conc = Conc(rng, case["mode"], case["lay"], canonical=(ci % 4 == 0), stress=(ci % 8 == 2), longname=(ci % 8 == 6))
            ex, mism, fatal, known = run_case(case, conc)
            nrep += 1
            ops = case.get("ops", [])
            ctx.case_seen((case["mode"], tuple(case["lay"]), tuple((o["op"], o["kind"], o["rev"], json.dumps(o["v"]), o["i"]) for o in ops)),
                          bool(ops) or case["mode"] == "up")
            for o in ops:
                per_op[o["op"]] = per_op.get(o["op"], 0) + 1
            if fatal:
                ctx.violation({"kind": "case", "case": case, "conc": conc.to_json()}, fatal)
                continue
            if known:
                if known in KNOWN_IDS:
                    hit(known)
                else:
                    ctx.violation({"kind": "case", "case": case, "conc": conc.to_json()},
                                  "%s on %r" % (dict((k["id"], k["signature"]) for k in KNOWN).get(known, known), conc.value_text()))
                continue
            if mism:
                arb.append((ex, case, conc, mism))
            if ci in (len(cases) // 3, 2 * len(cases) // 3) and ops:
                ctx.sample("case %s %r: %s -> list %s, leaving: %s, text %s" % (
                    case["mode"], conc.value_text(), [(o["op"], o["kind"], o["rev"], o["v"]) for o in ops], case["vals"], case["cres"], case["out"]))
        tm["replayed"] = time.time()
        ctx.extra["cases_emitted"] = len(cases)
        ctx.extra["cases_replayed"] = nrep
        ctx.extra["cases_to_arbiter"] = len(arb)
        ctx.extra["calls_per_action"] = per_op
        ctx.extra["cases_by_outcome"] = {k2: sum(1 for c in cases if c.get("cres") == k2) for k2 in ("ok", "nowrite", "ValueError")}
        ctx.extra["cases_reader_fails"] = sum(1 for c in cases if c["fails"])
        ctx.traces += nrep

        # ---- the arbiter: TLC validates the recorded executions and the replays that differ from the prediction
        traces = [e.trace() for e in execs] + [a[0].trace() for a in arb]
        nrec = len(execs)
        rejected, info, made = validate(ctx, traces, nrec=nrec)
        ctx.traces += len(traces)
        ctx.evaluations += nrec
        for i in range(nrec):
            ctx.distinct.add(("trace", i))
        ctx.extra["controls"] = made
        for tid, fid in sorted(validate.notes.items()):      # accepted only because of an open finding
            hit(fid)
        for i in sorted(info, key=lambda i: (i <= nrec, i)):
            t = traces[i - 1]
            at = info.get(i, 0)
            ev = t["events"][at] if at < len(t["events"]) else None
            if i <= nrec:
                e = execs[i - 1]
                ctx.violation({"kind": "trace", "script": {"conc": e.conc.to_json(), "sessions": e.script}, "mode": t["mode"],
                               "first_unexplained_event": at + 1},
                              "recorded execution on field text %r not explained by ListSort: event %d %s (after %d accepted events)%s"
                              % (e.conc.value_text()[:300], at + 1, json.dumps(ev)[:600], at,
                                 "; " + e.events[at].get("msg", "") if at < len(e.events) and e.events[at].get("msg") else ""))
            else:
                ex, case, conc, mism = arb[i - 1 - nrec]
                ctx.violation({"kind": "case", "case": case, "conc": conc.to_json()},
                              "%s; the execution is not explained by ListSort at event %d %s" % (mism[0], at + 1, json.dumps(ev)[:400]))
        acc_arb = [a for k, a in enumerate(arb) if (nrec + k + 1) not in rejected]
        for ex, case, conc, mism in acc_arb[:20]:
            ctx.drift("replay differs from the prediction but is explained by the reference: %s" % mism[0][:300])
        for e in execs:
            if e.stale_msgs and len(ctx.violations) < 5:
                ctx.violation({"kind": "trace", "script": {"conc": e.conc.to_json(), "sessions": e.script}, "mode": e.conc.mode}, e.stale_msgs[0])
        t0 = max(execs[:60], key=lambda e: len(e.events))
        ctx.sample("recorded trace on %r: %s" % (t0.conc.value_text(), json.dumps(
            [[e["op"], e.get("v", []), e.get("kind", ""), e.get("rev", False), e["res"], e["obs"]] for e in t0.events[:6]], separators=(",", ":"))))
        ctx.extra["traces_recorded"] = nrec
        ctx.extra["traces_rejected"] = len(rejected)
        ctx.extra["trace_events"] = sum(len(t["events"]) for t in traces)
        ctx.extra["trace_max_values"] = max(len(e["obs"]) for t in traces for e in t["events"])
        ctx.extra["trace_sorts"] = sum(1 for t in traces for e in t["events"] if e["op"] == "sort")

        tm["validated"] = time.time()
        # ---- (c) the formatter contract
        threads[2].join()
        if "error" in design:
            raise design["error"]
        fr = design["fmt"]
        fcases, scases = fr.printed.get("CASE", []), fr.printed.get("SHIP", [])
        if len(fcases) < 1000 or len(scases) < 50:
            raise core.MachineryError("formatter model printed %d/%d cases" % (len(fcases), len(scases)))
        nf = 0
        for k, case in enumerate(fcases + scases):
            if len(ctx.violations) >= 5:
                break
            big = k % 16 == 3
            name = rng.choice(FIELDS) if not big else "X-" + "n" * heavy_len(rng)
            vals = [rng.choice(["foo", "bar (>= 1.0)", "a | b", "#not-a-comment", "x" * (heavy_len(rng) if big else 3), "naïve"]) for _ in range(3)]
            cmts = [rng.choice(["# c\n", "#\n", "#x, y\n", "#" + "c" * (heavy_len(rng) if big else 2) + "\n"]) for _ in range(3)]
            msg = run_fmt_case(case, name, vals, cmts) if "st" in case else run_ship_case(case, name, vals, cmts)
            nf += 1
            ctx.case_seen(("fmt", json.dumps(case, sort_keys=True)), True)
            if msg:
                ctx.violation({"kind": "fmt", "case": case, "name": name, "vals": vals, "cmts": cmts}, msg)
        tm["fmt"] = time.time()
        ctx.extra["phase_s"] = {k: round(v - tm["t0"], 1) for k, v in tm.items() if k != "t0"}
        ctx.traces += nf
        ctx.extra["fmt_cases"] = {"streams": len(fcases), "shipped": len(scases),
                                  "by_verdict": {v: sum(1 for c in fcases if c["verdict"] == v) for v in ("accept", "reject", "unspec")}}
    finally:
        for th in threads:
            th.join()
    if "error" in design:
        raise design["error"]
    ctx.extra["model"] = {"design_runs": [{"cfg": c, "distinct": r.distinct, "generated": r.generated, "wall_s": round(r.wall, 1)} for c, r in design["runs"]],
                          "negative_controls": design.get("neg")}
    ctx.extra["known_findings"] = {k["id"]: hits.get(k["id"], 0) for k in KNOWN}
    ctx.extra["extra"] = {"title": EXTRA["title"]}
    for k in KNOWN:
        if hits.get(k["id"]):
            print("KNOWN-FINDING: extra=X04 %s (%d occurrences; id=%s)" % (k["signature"], hits[k["id"]], k["id"]))


def replay(ctx, case):
    import random
    if case["kind"] == "case":
        conc = Conc.from_json(case["conc"])
        ex, mism, fatal, known = run_case(case["case"], conc)
        if fatal:
            return fatal
        if known:
            return None if known in KNOWN_IDS else "open finding %s" % known
        if not mism:
            return None
        rejected, info, _ = validate(ctx, [ex.trace()], with_controls=False)
        if rejected:
            return "%s (execution not explained by the reference at event %d)" % (mism[0], info.get(1, 0) + 1)
        return None
    if case["kind"] == "trace":
        ex = record_trace(random.Random(0), case["mode"], None, 0, 0, script=case["script"])
        if ex.stale_msgs:
            return ex.stale_msgs[0]
        rejected, info, _ = validate(ctx, [ex.trace()], with_controls=False)
        if rejected:
            at = info.get(1, 0)
            ev = ex.events[at] if at < len(ex.events) else None
            return "execution still not explained by the specification at event %d: %s" % (at + 1, json.dumps(ev)[:600])
        return None
    if case["kind"] == "fmt":
        c = case["case"]
        return (run_fmt_case if "st" in c else run_ship_case)(c, case["name"], case["vals"], case["cmts"])
    return "unknown case kind"
