"""X09 (extra) -- WHICH inputs parse_deb822_file accepts under each flag combination, and what it reports.

statement: EXTRA["statement"] (= header of spec/ReproAccept.tla).  C01 covers the lossless round trip of the
           accepting mode; this check covers acceptance / rejection, the error element, duplicate detection,
           is_valid_file and the independence from flags, input form and call history.
spec:      spec/ReproAccept.tla       (1) character level: Classify(runs) = the tests of tokenize_deb822_file in their
                                      order over runs of S blank/tab, R CR, H '#', C ':', D '-', P '.', N other
                                      '!'..'~', X other non-white; (2) line level: lines [class B C K F J, name id,
                                      spelling], the tokenizer automaton (one branch per branch of the loop) with the
                                      bookkeeping of the combiners, Result / Outcome / Expected per flag combination,
                                      three readings (code / strict / glue) where the documents leave it open (u1),
                                      the declarative grammar (IsErrD, SameParaD, DupD)
           spec/ReproAcceptCalls.tla  histories of calls with results kept alive / ruined by the caller (CallLocal,
                                      Untouched); negative controls LeakOpen, LeakPara
           spec/TraceReproAccept.tla  recorded histories: TLC classifies every line from its character runs,
                                      lower-cases names, computes Expected per file and must explain every event
model checking (quick / thorough):
           lines: EVERY line of <= 4 / 6 characters over the 8 classes (CR only last; 3 201 / 156 865 lines): EShape,
                  ERunAgrees, EStable
           files: EVERY file of <= 5 / 6 lines over B C K J F1a F1b F2a (19 608 / 137 257 files), one action per branch:
                  ITotality IRunAgrees IFirstErr IErrFree IParas IDup IValid IFlags IStutter + action property IPrefix
                  (quick: the ten invariants on the 2 801 files of <= 4 lines, ITotality / IRunAgrees and the emission
                  on all 19 608; thorough: everything on all 137 257)
           big:   12 / 14 large uniform files (1000 paragraphs, 257 / 1001 fields, 1000 continuation lines, duplicate
                  257 / 1001 fields apart, errors at the end; thorough: 65 k lines): BigInvariant (closed forms)
           calls: every history of <= 2 / 3 events over 6 files x 4 flag pairs (613 / 15 373): CallLocal, Untouched
           negative controls (each must make TLC report the named invariant; quick: two per run, by seed):
                  DashFirstOK -> EShape, CommentClosesField -> IFirstErr, DupAcrossBlank -> IParas,
                  CaseSensitiveDup -> IDup, LeakOpen -> CallLocal, LeakPara -> CallLocal
binding:   (a1) every CASE of `lines` (class string, TLC's class and name length) is concretized character by character
                and parsed in the contexts of the CTX table TLC printed (alone / after a field / between fields /
                after a blank line / after a comment, before a continuation line): outcome == TLC's for that class.
           (a2) every CASE of `files` and `big` (abstract lines + Expected) is concretized (seeded: names, spellings,
                values, comments, junk of 12 kinds, blank lines of several shapes, LF or CRLF, with / without final
                newline; every 6th (quick: 12th) case size-stressed) and parsed under ALL FOUR flag combinations (quick:
                the files of 5 lines under two of them, alternating) through rotating input forms; verdict = acc[flags] and, when a file element comes back, first error line, extent,
                number of error tokens, is_valid_file, paragraphs (names, has_duplicate_fields, class).  Lines TLC
                marked repeatable (IStutter) stand for runs of 2..1000 copies in size-stressed cases.
                probes: the result of the previous case is kept alive and re-observed afterwards; the same text is
                parsed twice and one result is ruined (fields deleted) before the other is re-observed; observers
                are called twice.
           (b)  every history of `calls` is executed on the real code, all live results re-observed after every event.
           (c)  real-looking files (debian/control, copyright, sources; Unicode in values and comments) with 0..4
                random mutations (duplicate / re-case / delete / swap / indent / unindent lines, cut the colon, '-' or
                non-ASCII in a name, junk, blank and comment lines inserted, paragraphs merged, CRLF, size blow-ups) are
                parsed in recorded histories (3..8 calls, different flags and forms, results kept alive, re-observed,
                ruined); lines are turned into character runs by a lexical table and TLC (TraceReproAccept)
                classifies them and must explain every event; corrupted control traces must be rejected.
size:      notes/SIZE_STRESS.md -- names of 1..1025 (and 4097) characters (two names differing in the last character
           only), values / comments / junk / continuation lines of 1..8193 and 65537 characters, blank lines of up to
           8193 blanks, 0..1001 fields per paragraph, 1000 paragraphs, 1000 continuation lines, runs of up to 1000
           repeated lines, error lines beyond line 65536 (thorough), identical lines, several live results.  Classify
           only adds run lengths and the automaton only counts lines: the model is length-independent by construction.
characters: notes/SIZE_STRESS.md part 2 -- names are US-ASCII by the statement, so every hazard (combining marks,
           ANGSTROM / OHM / KELVIN SIGN, full-width letters, dotted / dotless i, long s, sharp s, BOM, ZWJ, soft hyphen,
           bidi marks, U+1F600, U+10FFFF, NBSP and other look-alike blanks strictly inside a line, control characters)
           is a JUNK maker when it stands in a name and inert payload elsewhere; '#' ':' '-' '.' in every position;
           tab vs blank; CR before LF; U+0400..U+043F rotate through line ends (every UTF-8 trailing byte).

API surface (notes/API_SURFACE.md)
  entry point / variant                                              exercised by
  parse_deb822_file(list of str with newlines)                       a1 a2 b c (form list_str)
  ... list of str WITHOUT newlines (>= 2 lines)                      a2 b c (list_str_nonl)
  ... list of bytes with / without newlines, str and bytes mixed     a1 a2 b c (list_bytes, list_bytes_nonl, mixed)
  ... generator / iterator / tuple                                   a2 b c (gen, iter, tuple)
  ... text.splitlines(keepends=True) (the docstrings' own form)      a2 c when the text has no other line boundary
  ... io.StringIO, io.BytesIO, file opened 'rb', file opened 'r'     a2 b c (stringio, bytesio, file_rb, file_text)
      (utf-8, newline='')
  flags passed as keywords, False also by omission (the default)     every call: a False flag is omitted at random
  flags positionally                                                 out of domain: keyword-only by signature
  Deb822FileElement.find_first_error_element()                       every returned element, twice (same object)
  iter_recurse(only_element_or_token_type=Deb822ErrorElement),       every returned element: first item is that element
      iter_parts_of_type(Deb822ErrorElement)
  iter_tokens() / iter_recurse(...=Deb822ErrorToken)                 every returned element: same tokens, first one is
                                                                     the first token of the error element = the line
  is_valid_file                                                      every returned element, twice
  iter(file) / iter_parts_of_type(Deb822ParagraphElement)            every returned element (both, same objects)
  paragraph: keys() / iteration, kvpair field_name,                  every returned element
      has_duplicate_fields, isinstance(Deb822DuplicateFields...)
  ValueError type / message / raised by the call itself              every rejecting call
  tokenize_deb822_file, Deb822FileElement.new_empty_file,            out of domain: not the parse entry point
      from_kvpairs, debian.deb822 / copyright readers                (C01, C05, C10, C17 cover them)
verdict observables: outcome kind (ok / ValueError 'Syntax or Parse error' / ValueError 'Duplicate field') in acc[flags];
           quoted first error line; duplicate name (up to ASCII case) and paragraph number (0- or 1-based accepted);
           line where the text of find_first_error_element() starts; its last line and the number of error tokens
           where the readings agree; API consistency of the five ways to reach the error; is_valid_file; paragraph
           names / has_duplicate_fields / class where the readings agree; results of earlier calls unchanged.
unspecified (executed, never judged): see (u1)..(u4) in spec/ReproAccept.tla.
"""
import io
import json
import os
import random
import re
import time
from concurrent.futures import ThreadPoolExecutor

import core

MANIFEST = None          # an EXTRA: not one of the twenty registered property checks

EXTRA = dict(
    title="parse_deb822_file: acceptance under the two accept_* flags, first error element, duplicate detection, is_valid_file",
    statement=(
        "Classify every line of a file as blank (blanks/tabs, optional CR before the newline), comment (starts with '#'), "
        "field line `name:...` (name = one or more US-ASCII characters '!'..'~' without ':', not starting with '#' or '-', "
        "ending at the first colon), continuation line (starts with blank or tab, not blank) or junk (anything else); a "
        "continuation line is in place when a field line precedes it with no blank line in between; the error lines are "
        "the junk lines and the continuation lines not in place; paragraphs are maximal groups of field lines not "
        "separated by a blank line, and a paragraph has a duplicate when two of its names are equal up to ASCII case. "
        "Then for every file: with accept_files_with_error_tokens off parse_deb822_file raises ValueError (quoting the "
        "first error line) exactly when there is an error line, with it on it never raises for that reason and "
        "find_first_error_element() is None iff there is none, else an element whose text starts exactly at the first "
        "error line and consists of whole consecutive error lines (the same element and line are reached through "
        "iter_recurse, iter_parts_of_type and the first Deb822ErrorToken of iter_tokens); with "
        "accept_files_with_duplicated_fields off it raises ValueError (naming the field and the paragraph) exactly when "
        "some paragraph has a duplicate, with it on it never raises for that reason, and a returned paragraph is a "
        "Deb822DuplicateFieldsParagraphElement with has_duplicate_fields exactly when it has one, the paragraphs listing "
        "exactly the field names in order and original spelling; is_valid_file is true exactly when there is no error "
        "line, at least one paragraph and no duplicate. The two flags are independent, every ValueError is raised by the "
        "call itself, and the outcome depends only on the text and the flags: not on str/bytes, lines with or without "
        "newline characters, list/iterator/file-object input, any length or count, earlier calls, or earlier results "
        "kept alive or modified by the caller. Unspecified: after the first error line only what the readings "
        "'junk closes the open field or not' and 'an error line ends the paragraph or not' agree on; which ValueError "
        "when both flags are off and both defects present; names starting with '.' or containing DEL; CR elsewhere than "
        "before the newline; non-ASCII/other white space at the margin of a line or making up a line; inconsistent line "
        "endings, a single empty string, undecodable bytes."),
    technique=(
        "TLA+ specs ReproAccept (character-run classifier following tokenize_deb822_file; tokenizer automaton with one "
        "action per branch plus the combiners' bookkeeping; declarative grammar; three readings for the unspecified "
        "zone), ReproAcceptCalls (call histories, live results) and TraceReproAccept, model-checked by TLC: every line of "
        "<= 4-6 characters over 8 classes, every file of <= 5-6 lines over 7 line symbols with ten invariants, large "
        "uniform files with closed-form expectations, every call history of <= 2-3 events; six spec-level negative "
        "controls. Binding: all TLC cases concretized (seeded, character- and size-stressed) and replayed under all four "
        "flag combinations through twelve input forms with kept-alive / ruined results; recorded histories over mutated "
        "real-looking files validated by TLC from character runs, with corrupted controls."),
)

# Findings: real divergences of /repo from the statement on in-domain input, reported to the lead and kept quiet here.
# Each entry {id, signature, match}: match(case, msg) -> True turns exactly that divergence into a KNOWN-FINDING line;
# every other divergence stays a violation.
KNOWN = []

NEGS = [
    ("ReproAccept", "ReproAccept_lines.cfg", dict(MaxLen="3", DashFirstOK="TRUE"), "INVARIANT EShape", "EShape"),
    ("ReproAccept", "ReproAccept_files.cfg", dict(MaxLines="3", CommentClosesField="TRUE"), "INVARIANT IFirstErr", "IFirstErr"),
    ("ReproAccept", "ReproAccept_files.cfg", dict(MaxLines="3", DupAcrossBlank="TRUE"), "INVARIANT IParas", "IParas"),
    ("ReproAccept", "ReproAccept_files.cfg", dict(MaxLines="3", CaseSensitiveDup="TRUE"), "INVARIANT IDup", "IDup"),
    ("ReproAcceptCalls", "ReproAcceptCalls.cfg", dict(LeakOpen="TRUE"), "INVARIANT CallLocal", "CallLocal"),
    ("ReproAcceptCalls", "ReproAcceptCalls.cfg", dict(LeakPara="TRUE"), "INVARIANT CallLocal", "CallLocal"),
]
FLAGS = [(False, False), (False, True), (True, False), (True, True)]       # = ReproAccept!FlagPairs
CLS = {"Blank": "B", "Comment": "C", "Cont": "K", "Field": "F", "Junk": "J", "Unspec": "U"}

# ------------------------------------------------------------------ characters
_N = [chr(c) for c in range(0x21, 0x7f) if chr(c) not in "#:-."]
_LET = [c for c in _N if c.isalpha()]
_CTL = ["\x01", "\x07", "\x08", "\x0e", "\x1b"]                             # control characters that are not white space
_L1 = list("\u00e9\u00e0\u00df\u00e5\u00c5\u00d7\u00bf\u00aa\u00ad\u00b5")
# notes/SIZE_STRESS.md part 2 (none of them may ever count as a name character or as white space)
_UNI = (list("\u0105\u4e2d\u03a9\u0416\u3042\u2026\u0663\uff21\uff1a\uff03")
        + ["\u0301", "\u0308", "\u212b", "\u2126", "\u212a", "\uf9d0", "\ufb01", "\u1100", "\u1161", "\u0130", "\u0131", "\u017f",
           "\u03c2", "\U00010400", "\ufeff", "\u200d", "\u200c", "\u200b", "\u200e", "\u200f", "\U0001f600", "\U0010ffff"])
_TRAIL = [chr(0x400 + i) for i in range(64)]                              # utf-8: D0 80 .. D0 BF
X_POOL = {"ascii": _CTL, "uni": _CTL + _L1 + _UNI * 2 + _TRAIL[::7]}
INNER_WS = ["\u00a0", "\u2003", "\u3000", "\u0085", "\u2028", "\x0c", "\x0b", "\x1c"]      # white for \s, never at a margin
for _ch in X_POOL["uni"]:
    assert len(_ch) == 1 and not _ch.isspace() and not ("!" <= _ch <= "\x7f"), repr(_ch)
for _ch in INNER_WS:
    assert _ch.isspace() and _ch not in " \t\r\n"
SPLIT_CH = set("\x0b\x0c\x1c\x1d\x1e\x85\u2028\u2029\r")
CHAR_CANON = {"S": " ", "R": "\r", "H": "#", "C": ":", "D": "-", "P": ".", "N": "a", "X": "\u00e9"}

NAME_LEN = [33, 32, 31, 64, 65, 63, 129, 257, 128, 256, 17, 16, 73, 81, 127, 255, 15, 9, 72, 1025, 2, 1, 7, 8, 1024, 1023, 4097]
LINE_LEN = [4096, 8193, 1025, 257, 129, 4097, 8192, 65, 1024, 4095, 80, 33, 8191, 1023, 72, 2, 7, 16, 17, 31, 32, 63, 64, 71,
            73, 79, 81, 127, 128, 255, 256, 1, 8, 9, 15, 65537]
REP_COUNTS = [2, 3, 9, 10, 11, 16, 17, 31, 32, 33, 99, 100, 101, 255, 256, 257, 1000]

REAL_NAMES = ["Package", "Source", "Depends", "Build-Depends", "Description", "Architecture", "Maintainer", "Homepage",
              "Vcs-Git", "X-Custom", "Files", "License", "Standards-Version", "Rules-Requires-Root", "Multi-Arch"]
ODD_NAMES = ["a", "Z", "!x", "a#b", "X-Foo.bar", "9lives", "~t", "$%&", "x-", "q.", "A/B", "(c)", "@", "*star*", "name=with=eq",
             "k#", "I", "i", "K", "ss", "A-", "a.b.c", "[x]", "x--y", "Q9"]


def char_of(rng, c, mode, inner=False):
    if rng is None:
        return CHAR_CANON[c]
    if c == "S":
        return rng.choice(" \t ")
    if c == "N":
        return rng.choice(_N)
    if c == "X":
        if inner and mode == "uni" and rng.random() < 0.15:
            return rng.choice(INNER_WS)
        return rng.choice(X_POOL[mode])
    return CHAR_CANON[c]


_PAY = {"ascii": _N + list("#:-.") * 3, "uni": _N + list("#:-.") * 3 + _L1 + _UNI}
_PAYS = {k: v + [" "] * 8 + ["\t"] for k, v in _PAY.items()}


def payload(rng, n, mode="uni", tail=None):
    """n characters of inert text: no newline / CR, first and last character neither white nor look-alike white"""
    if n <= 0:
        return ""
    pool = _PAY[mode]
    if n > 200:
        m = rng.randint(23, 61)
        unit = "".join(rng.choices(_PAYS[mode], k=m))
        s = list((unit * (n // m + 1))[:n])
    else:
        s = rng.choices(_PAYS[mode], k=n)
        if mode == "uni" and n >= 3 and rng.random() < 0.2:
            s[rng.randrange(1, n - 1)] = rng.choice(INNER_WS)
    s[0] = rng.choice(pool)
    s[-1] = tail if tail else rng.choice(pool)
    return "".join(s)


def other_case(name, rng):
    for f in rng.sample([str.swapcase, str.upper, str.lower, str.title], 4):
        t = f(name)
        if t != name and t.lower() == name.lower() and len(t) == len(name) and t.isascii():
            return t
    return name


class Conc:
    """concretization of one abstract file (lines [c, n, v])"""

    def __init__(self, rng, mode="uni", big=False, canonical=False, eol="\n", seq=0, huge=False):
        self.rng, self.mode, self.big, self.canonical, self.eol, self.seq = rng, mode, big, canonical, eol, seq
        self.huge = huge
        self.names = {}
        self.same = (not canonical) and rng.random() < 0.25      # identical abstract lines -> identical text
        self.cache = {}
        self.lens = set()
        self.k = 0

    def _len(self, table):
        n = table[(self.seq + self.k) % len(table)]
        if n > 8193 and not self.huge:
            n = 8193
        self.k += 1
        self.lens.add(n)
        return n

    def base_name(self, nid):
        if nid in self.names:
            return self.names[nid]
        rng = self.rng
        taken = {v.lower() for v in self.names.values()}
        if self.canonical:
            nm = "Name%d" % nid
        elif self.big and nid <= 2 and not self.names:
            n = self._len(NAME_LEN)
            nm = rng.choice(_LET) + "".join(rng.choice(_N + list("#-.") * 2) for _ in range(min(n - 1, 40)))
            nm = (nm + "x" * n)[:n]
        elif self.big and nid <= 2 and len(self.names) == 1:
            first = list(self.names.values())[0]                  # differs from the first name in its last character only
            nm = first[:-1] + ("y" if first[-1].lower() != "y" else "z")
            if len(first) == 1:
                nm = "y" if first.lower() != "y" else "z"
        elif nid > 2:
            nm = "%s-%d" % (REAL_NAMES[nid % len(REAL_NAMES)], nid)
        else:
            nm = rng.choice(REAL_NAMES + ODD_NAMES)
        while nm.lower() in taken:
            nm = nm + rng.choice("abcxyz019")
        self.names[nid] = nm
        return nm

    def name(self, nid, v):
        b = self.base_name(nid)
        if v == 0:
            return b
        key = ("v", nid)
        if key not in self.cache:
            self.cache[key] = b.swapcase() if self.canonical else other_case(b, self.rng)
        return self.cache[key]

    def text(self, lo=1, hi=24):
        if self.big and self.rng.random() < 0.5:
            return payload(self.rng, self._len(LINE_LEN), self.mode, tail=_TRAIL[(self.seq + self.k) % 64] if self.mode == "uni" else None)
        t = _TRAIL[(self.seq + self.k) % 64] if self.mode == "uni" and self.rng.random() < 0.3 else None
        self.k += 1
        return payload(self.rng, self.rng.randint(lo, hi), self.mode, tail=t)

    def line(self, ab):
        c, nid, v = ab
        key = (c, nid, v)
        if self.same and key in self.cache:
            return self.cache[key]
        body = self._line(c, nid, v)
        self.cache[key] = body
        return body

    def _line(self, c, nid, v):
        rng = self.rng
        if self.canonical:
            return {"B": "", "C": "# c", "K": " k", "J": "junk"}.get(c) if c != "F" else self.name(nid, v) + ": v"
        if c == "B":
            if self.big and rng.random() < 0.3:
                return " " * self._len([n for n in LINE_LEN if n <= 8193])
            return rng.choice(["", "", " ", "\t", "  ", " \t ", "\t\t"])
        if c == "C":
            return "#" + rng.choice(["", " ", ":", "#", " x: y", "\t"]) + (self.text(0, 20) if rng.random() < 0.8 else "")
        if c == "K":
            return rng.choice([" ", " ", "\t", "  ", " \t", "\t "]) + rng.choice(["", "", "#", ":", ".", "-", "x: "]) + self.text()
        if c == "F":
            nm = self.name(nid, v)
            k = rng.randrange(8)
            if k == 0:
                return nm + ":" + rng.choice(["", " ", "\t", "  "])
            sep = rng.choice(["", " ", " ", " ", "\t", "  "])
            return nm + ":" + sep + rng.choice(["", "", "#", ":", "-", " ."]) + self.text() + rng.choice(["", "", " ", "\t"])
        return self.junk()

    def junk(self):
        rng = self.rng
        k = rng.randrange(12)
        nm = rng.choice(REAL_NAMES + ODD_NAMES)
        t = self.text()
        x = rng.choice(X_POOL[self.mode])
        if k == 0:
            return rng.choice(_N) + payload(rng, rng.randint(0, 12), "ascii").replace(":", "=")      # no colon at all
        if k == 1:
            return "-" + nm + ": " + t                                                              # name starts with '-'
        if k == 2:
            return ":" + rng.choice(["", " "]) + t                                                  # empty name
        if k == 3:
            return nm + rng.choice([" ", "\t", "  "]) + ": " + t                                    # blank before the colon
        if k == 4:
            return nm[:1] + rng.choice([" ", "\t"]) + nm[1:] + "x: " + t                            # blank inside the name
        if k == 5:
            i = rng.randint(0, len(nm))
            return nm[:i] + x + nm[i:] + ": " + t                                                   # non-ASCII / control in the name
        if k == 6:
            return x + rng.choice(["", nm + ": "]) + t                                              # ... as first character
        if k == 7:
            h = rng.choice(["\u212a", "\uff21", "\u0130", "\u0131", "\u017f", "\u00df", "\ufeff", "\u00c5", "A\u030a", "e\u0301"])
            i = rng.choice([0, 0, len(nm)])
            return nm[:i] + h + nm[i:] + ":" + t                                                    # look-alike letters, BOM
        if k == 8 and self.mode == "uni":
            return nm + rng.choice(["\u00a0", "\u2003", "\u3000", "\u200b"]) + ": " + t             # look-alike blank before the colon
        if k == 9:
            return "-" + rng.choice(["", "-", " x"])                                                # "-", "--"
        if k == 10:
            return rng.choice(_N) + payload(rng, self._len(LINE_LEN) if self.big else rng.randint(1, 30), "ascii").replace(":", ";")
        return nm + rng.choice(["", " ", " =", " value", "\t"])                                     # field name, no colon

    def file(self, ablines, final_nl=True):
        bodies = [self.line(ab) for ab in ablines]
        lines = [b + self.eol for b in bodies]
        if lines and not final_nl and bodies[-1] != "":
            lines[-1] = bodies[-1]
        return lines


# ------------------------------------------------------------------ input forms
FORMS = ["list_str", "list_bytes", "list_str_nonl", "gen", "stringio", "mixed", "list_bytes_nonl", "bytesio", "tuple", "iter",
         "file_rb", "splitlines", "file_text"]
CHEAP = ["list_str", "list_bytes", "gen", "mixed", "tuple", "list_str_nonl", "iter", "stringio", "bytesio", "list_bytes_nonl", "splitlines"]


class Fed:
    def __init__(self, it, form, closer=None):
        self.it, self.form, self.closer = it, form, closer

    def close(self):
        if self.closer:
            try:
                self.closer()
            except Exception:
                pass


def feed(form, lines, work, tag="f"):
    """the iterable handed to parse_deb822_file for `lines` (str, each ending in \\n except possibly the last)"""
    text = "".join(lines)
    all_nl = bool(lines) and all(l.endswith("\n") for l in lines)
    if form in ("list_str_nonl", "list_bytes_nonl") and not (all_nl and len(lines) >= 2):
        form = "list_str" if form == "list_str_nonl" else "list_bytes"
    if form == "splitlines" and (text.splitlines(True) != lines):
        form = "list_str"
    if form == "list_str":
        return Fed(list(lines), form)
    if form == "list_bytes":
        return Fed([l.encode("utf-8") for l in lines], form)
    if form == "list_str_nonl":
        return Fed([l[:-1] for l in lines], form)
    if form == "list_bytes_nonl":
        return Fed([l[:-1].encode("utf-8") for l in lines], form)
    if form == "mixed":
        return Fed([l if i % 2 else l.encode("utf-8") for i, l in enumerate(lines)], form)
    if form == "gen":
        return Fed((l for l in list(lines)), form)
    if form == "iter":
        return Fed(iter([l.encode("utf-8") for l in lines]), form)
    if form == "tuple":
        return Fed(tuple(lines), form)
    if form == "splitlines":
        return Fed(text.splitlines(keepends=True), form)
    if form == "stringio":
        return Fed(io.StringIO(text), form)
    if form == "bytesio":
        return Fed(io.BytesIO(text.encode("utf-8")), form)
    if form in ("file_rb", "file_text"):
        path = os.path.join(work, "x09-%s-%d.txt" % (tag, os.getpid()))
        with open(path, "wb") as f:
            f.write(text.encode("utf-8"))
        fh = open(path, "rb") if form == "file_rb" else open(path, "r", encoding="utf-8", newline="")
        return Fed(fh, form, fh.close)
    raise core.MachineryError("unknown form %r" % form)


def call_parse(lines, e, d, form, work, rng=None, tag="f"):
    """-> ("ok", file element) | ("syntax" | "dup" | "valueerror", message) | ("exc", "Type: message")"""
    from debian._deb822_repro import parse_deb822_file
    kw = {}
    if e or rng is None or rng.random() < 0.5:
        kw["accept_files_with_error_tokens"] = e
    if d or rng is None or rng.random() < 0.5:
        kw["accept_files_with_duplicated_fields"] = d
    fed = feed(form, lines, work, tag)
    try:
        f = parse_deb822_file(fed.it, **kw)
        return "ok", f, fed.form
    except ValueError as ex:
        msg = str(ex)
        if type(ex) is not ValueError:
            return "exc", "%s: %s" % (type(ex).__name__, msg), fed.form
        if msg.startswith("Syntax or Parse error"):
            return "syntax", msg, fed.form
        if msg.startswith("Duplicate field"):
            return "dup", msg, fed.form
        return "valueerror", msg, fed.form
    except Exception as ex:      # observation: anything the code under test raises
        return "exc", "%s: %s" % (type(ex).__name__, ex), fed.form
    finally:
        fed.close()


# ------------------------------------------------------------------ observation of a returned file element
def observe(f, lines, deep=True):
    """projection of a Deb822FileElement to the observables of the statement; (obs, complaints).
    deep: also every alternative way of reaching the same objects (API surface)"""
    from debian._deb822_repro.parsing import (Deb822ErrorElement, Deb822ParagraphElement, Deb822DuplicateFieldsParagraphElement,
                                              Deb822KeyValuePairElement)
    from debian._deb822_repro.tokens import Deb822ErrorToken
    bad = []
    obs = {"ferr": 0, "frun": 0, "nerr": 0, "valid": None, "pars": []}
    try:
        starts, ends, off = {}, {}, 0
        for i, l in enumerate(lines):
            starts[off] = i + 1
            off += len(l)
            ends[off] = i + 1
        toks = list(f.iter_tokens())
        err = f.find_first_error_element()
        etoks = [t for t in toks if isinstance(t, Deb822ErrorToken)]
        obs["nerr"] = len(etoks)
        if deep:
            rec = list(f.iter_recurse(only_element_or_token_type=Deb822ErrorElement))
            top = list(f.iter_parts_of_type(Deb822ErrorElement))
            rtoks = list(f.iter_recurse(only_element_or_token_type=Deb822ErrorToken))
            if [id(t) for t in rtoks] != [id(t) for t in etoks]:
                bad.append("iter_recurse(Deb822ErrorToken) and the error tokens of iter_tokens() differ (%d vs %d)" % (len(rtoks), len(etoks)))
            if f.find_first_error_element() is not err:
                bad.append("find_first_error_element() returned another object the second time")
        else:
            rec = top = [err] if err is not None else []
        if err is None:
            if rec or top or etoks:
                bad.append("find_first_error_element() is None but iter_recurse / iter_parts_of_type / iter_tokens show %d / %d error elements, %d error tokens"
                           % (len(rec), len(top), len(etoks)))
        else:
            if not isinstance(err, Deb822ErrorElement):
                bad.append("find_first_error_element() returned a %s" % type(err).__name__)
            if not rec or rec[0] is not err:
                bad.append("find_first_error_element() is not the first element of iter_recurse(only_element_or_token_type=Deb822ErrorElement)")
            if not top or top[0] is not err:
                bad.append("find_first_error_element() is not the first of iter_parts_of_type(Deb822ErrorElement)")
            first = next(iter(err.iter_tokens()), None)
            pos, found = 0, False
            for t in toks:
                if t is first:
                    found = True
                    break
                pos += len(t.text)
            text = err.convert_to_text()
            if not found:
                bad.append("the first token of the error element is not in iter_tokens()")
            else:
                obs["ferr"] = starts.get(pos, -1)
                obs["frun"] = ends.get(pos + len(text), -1)
                if obs["ferr"] == -1 or obs["frun"] == -1:
                    bad.append("the text of the error element %r (offset %d) does not consist of whole lines" % (text[:80], pos))
                if not etoks or etoks[0] is not first:
                    bad.append("the first Deb822ErrorToken of iter_tokens() is not the first token of find_first_error_element()")
                elif obs["ferr"] > 0 and etoks[0].text != lines[obs["ferr"] - 1]:
                    bad.append("first error token %r is not line %d %r" % (etoks[0].text[:80], obs["ferr"], lines[obs["ferr"] - 1][:80]))
        v1 = f.is_valid_file
        v2 = f.is_valid_file if deep else v1
        if v1 is not v2 or not isinstance(v1, bool):
            bad.append("is_valid_file gave %r then %r" % (v1, v2))
        obs["valid"] = bool(v1)
        ps = list(f)
        ps2 = list(f.iter_parts_of_type(Deb822ParagraphElement)) if deep else ps
        if [id(p) for p in ps] != [id(p) for p in ps2]:
            bad.append("iter(file) and iter_parts_of_type(Deb822ParagraphElement) differ")
        for p in ps:
            names = [str(k) for k in p.keys()]
            n2 = [str(kv.field_name) for kv in p.iter_parts_of_type(Deb822KeyValuePairElement)] if deep else names
            if names != n2:
                bad.append("keys() %r and the field names of the key/value pairs %r differ" % (names[:6], n2[:6]))
            obs["pars"].append({"names": names, "dup": bool(p.has_duplicate_fields),
                                "cls": isinstance(p, Deb822DuplicateFieldsParagraphElement)})
    except Exception as ex:
        if not core.raised_by_code_under_test(ex):
            raise
        bad.append("observing the result raised %s: %s" % (type(ex).__name__, ex))
    return obs, bad


_DUP_RE = re.compile(r'^Duplicate field "(.*)" in paragraph number (\d+)$', re.S)


def judge(exp, q, kind, val, lines):
    """compare one call with TLC's Expected (exp) for flag pair q; val = (obs, complaints) or the message"""
    acc = exp["acc"][q]
    if kind not in acc:
        return "flags %s: outcome %s%s, specification allows %s" % (flag_txt(q), kind, "" if kind == "ok" else " (%s)" % str(val)[:200], acc)
    if kind == "ok":
        obs, bad = val
        if bad:
            return "flags %s: %s" % (flag_txt(q), bad[0])
        if obs["ferr"] != exp["ferr"]:
            return "flags %s: find_first_error_element() starts at line %d, first error line is %d" % (flag_txt(q), obs["ferr"], exp["ferr"])
        if exp["frun"] != -1 and obs["frun"] != exp["frun"]:
            return "flags %s: the first error element ends with line %d, expected %d" % (flag_txt(q), obs["frun"], exp["frun"])
        if exp["nerr"] != -1 and obs["nerr"] != exp["nerr"]:
            return "flags %s: %d Deb822ErrorTokens, expected %d" % (flag_txt(q), obs["nerr"], exp["nerr"])
        if obs["valid"] != exp["valid"]:
            return "flags %s: is_valid_file is %s, expected %s" % (flag_txt(q), obs["valid"], exp["valid"])
        if exp["pok"]:
            want = []
            for p, dp in zip(exp["paras"], exp["dups"]):
                want.append({"names": [name_of(lines[i - 1]) for i in p], "dup": dp, "cls": dp})
            if obs["pars"] != want:
                k = next((i for i, (a, b) in enumerate(zip(obs["pars"], want)) if a != b), min(len(want), len(obs["pars"])))
                return "flags %s: %d paragraphs, expected %d; first difference at paragraph %d: got %s, expected %s" % (
                    flag_txt(q), len(obs["pars"]), len(want), k + 1, brief(obs["pars"][k:k + 1]), brief(want[k:k + 1]))
        return None
    if kind == "syntax":
        quoted = lines[exp["ferr"] - 1].replace("\n", "\\n")
        if quoted not in val:
            return "flags %s: the ValueError does not quote the first error line %r: %r" % (flag_txt(q), quoted[:120], val[:300])
        return None
    if kind == "dup" and exp["pok"]:
        m = _DUP_RE.match(val)
        if not m:
            return "flags %s: unexpected wording of the duplicate-field error: %r" % (flag_txt(q), val[:300])
        want = name_of(lines[exp["dupi"] - 1])
        if m.group(1).lower() != want.lower():
            return "flags %s: the ValueError names field %r, the repeated field is %r (line %d)" % (flag_txt(q), m.group(1)[:80], want[:80], exp["dupi"])
        if int(m.group(2)) not in (exp["dupp"] - 1, exp["dupp"]):
            return "flags %s: the ValueError names paragraph %s, the duplicate is in paragraph %d (1-based)" % (flag_txt(q), m.group(2), exp["dupp"])
    return None


def name_of(line):
    return line.split(":", 1)[0]


def flag_txt(q):
    e, d = FLAGS[q]
    return "(error_tokens=%s, duplicated_fields=%s)" % (e, d)


def brief(x, n=300):
    s = json.dumps(x, ensure_ascii=True, default=str)
    return s if len(s) <= n else s[:n] + "..."


# ------------------------------------------------------------------ (a1) every line of `lines`
CTX_POS = [0, 1, 1, 2, 2]                      # position of the line under test in CtxFiles
CTX_TEXT = {("F", 9): "Zz-ctx9: v", ("F", 8): "Yy-ctx8:w", ("B", 0): "", ("C", 0): "# c", ("K", 0): " k"}


def conc_chars(cs, rng, mode, stretch=None):
    """one character per class symbol; stretch = (index, length): that character stands for a run"""
    out = []
    for i, c in enumerate(cs):
        ch = char_of(rng, c, mode, inner=(any(x not in "SRX" for x in cs[:i]) and any(x not in "SRX" for x in cs[i + 1:])))
        if stretch and stretch[0] == i:
            ch = "".join(char_of(rng, c, mode, inner=False) for _ in range(min(stretch[1], 64)))
            ch = (ch * (stretch[1] // len(ch) + 1))[:stretch[1]]
        out.append(ch)
    return out


def run_line_case(i, case, table, seed, work, light=0):
    """-> (violation tuple or None, class)"""
    cs, cname, nlen = case
    k = CLS[cname]
    rng = None if i % 3 == 0 else random.Random("%s-line-%d" % (seed, i))
    mode = "ascii" if i % 4 == 1 else "uni"
    stretch = None
    if i % 8 == 5 and cs:
        j = (i // 8) % len(cs)
        if cs[j] != "R":
            stretch = (j, (NAME_LEN if j < nlen else LINE_LEN[:-1])[(i // 64) % 26])
    parts = conc_chars(cs, rng, mode, stretch)
    body = "".join(parts)
    if k == "F" and name_of(body) != "".join(parts[:nlen]):
        raise core.MachineryError("line %r: TLC's name length %d does not end at the first colon" % (body, nlen))
    if k == "U":
        for q in (0, 3):
            kind, val, _ = call_parse(["Zz-ctx9: v\n", body + "\n", "Yy-ctx8:w\n"], FLAGS[q][0], FLAGS[q][1], "list_str", work)
            if kind == "exc":
                return None, k, "unspecified line %r raised %s" % (body[:60], val[:100])
        return None, k, None
    entry = table[k]
    plan = [(2, 3), (3, 3), ((0, 1, 4)[i % 3], 0), ((1, 4, 0, 2)[i % 4], 1 + i % 2)]
    if light and len(cs) >= light:          # thorough tier, longest lines: two of the four contexts, alternating
        plan = plan[:2] if i % 2 else plan[2:] + plan[i % 4 // 2:i % 4 // 2 + 1]
    r2 = random.Random(i)
    for cx, q in plan:
        ab = entry["files"][cx]
        lines = []
        for p, ln in enumerate(ab):
            t = body if p == CTX_POS[cx] else CTX_TEXT[(ln["c"], ln["n"])]
            lines.append(t + "\n")
        if cx in (0, 1) and i % 5 == 0 and body != "":
            lines[-1] = lines[-1][:-1]                  # last line without newline
        form = CHEAP[(i + cx) % len(CHEAP)]
        kind, val, form = call_parse(lines, FLAGS[q][0], FLAGS[q][1], form, work, r2)
        if kind == "ok":
            val = observe(val, lines)
        msg = judge(entry["exp"][cx], q, kind, val, lines)
        if msg:
            return ({"kind": "file", "lines": lines, "form": form, "q": q, "exp": entry["exp"][cx]},
                    "line %r (classes %s, TLC: %s) in context %d: %s" % (body[:100], "".join(cs), cname, cx + 1, msg)), k, None
    return None, k, None


def _line_chunk(args):
    cases, start, table, seed, work, light = args
    out, per, drift = [], {}, []
    for off, case in enumerate(cases):
        v, k, d = run_line_case(start + off, case, table, seed, work, light)
        per[k] = per.get(k, 0) + 1
        if v:
            out.append(v)
        if d:
            drift.append(d)
    return out, per, drift


# ------------------------------------------------------------------ (a2) every file of `files` / `big`
def shift_exp(exp, rep):
    """expected observables after line i has been replaced by rep[i] copies (IStutter)"""
    new = [0]
    for r in rep:
        new.append(new[-1] + r)
    f = lambda k: k if k <= 0 else new[k - 1] + 1
    x = dict(exp)
    x["ferr"], x["frun"], x["dupi"] = f(exp["ferr"]), f(exp["frun"]), f(exp["dupi"])
    x["paras"] = [[f(k) for k in p] for p in exp["paras"]]
    return x


def ruin(f):
    """the caller modifies a result: deletes the first field of every paragraph (outcome not judged)"""
    try:
        for p in list(f):
            ks = list(p.keys())
            if ks:
                del p[ks[0]]
    except Exception:
        pass


def run_file_case(i, case, seed, work, prev, stats, big=False, quick=False):
    """parses one concretization of an abstract file under all four flag pairs -> list of (case, msg)"""
    rng = random.Random("%s-file-%d-%d" % (seed, i, case["n"]))
    ab = [list(x) for x in case["lines"]]
    exp = case["exp"]
    stressed = big or i % (12 if quick else 6) == 5
    conc = Conc(rng, mode="ascii" if i % 5 == 1 else "uni", big=stressed and not big or (big and i % 2 == 0),
                canonical=(i % 11 == 0 and not stressed), eol="\r\n" if i % 7 == 3 else "\n", seq=i,
                huge=(i % (600 if quick else 60) == 5))
    rep = None
    if stressed and not big and case.get("rep") and any(case["rep"]):
        idx = [j for j, r in enumerate(case["rep"]) if r]
        rep = [1] * len(ab)
        for j in rng.sample(idx, min(len(idx), rng.choice([1, 1, 2]))):
            rep[j] = REP_COUNTS[(i // 6 + j) % (len(REP_COUNTS) - (1 if quick and i % 120 != 5 else 0))]
            stats["rep"].add(rep[j])
        exp = shift_exp(exp, rep)
        ab = [x for x, r in zip(ab, rep) for _ in range(r)]
    lines = conc.file(ab, final_nl=(i % 4 != 2))
    stats["lens"] |= conc.lens
    out = []
    keep = None
    # (quick tier: files of the largest length get two of the four flag pairs, alternating; all others all four)
    qs = range(4) if not quick or big or case["n"] < quick else ((0, 3) if i % 2 else (1, 2))
    for q in qs:
        form = (FORMS if (i + q) % 3 == 0 else CHEAP)[(i // 3 + q * 5) % (len(FORMS) if (i + q) % 3 == 0 else len(CHEAP))]
        kind, val, form = call_parse(lines, FLAGS[q][0], FLAGS[q][1], form, work, rng)
        stats["forms"][form] = stats["forms"].get(form, 0) + 1
        stats["out"][kind] = stats["out"].get(kind, 0) + 1
        f = None
        if kind == "ok":
            f = val
            val = observe(f, lines, deep=(q == 3 or (i + q) % 4 == 0))
        msg = judge(exp, q, kind, val, lines)
        if msg:
            out.append(({"kind": "file", "lines": lines, "form": form, "q": q, "exp": exp}, "file %s [%s]: %s" % (brief(lines, 600), form, msg)))
            break
        if q == 3 and f is not None:
            keep = (f, val[0], lines)
    if keep and not out and i % 3 == 0:
        # the same text parsed again; the first result is ruined by the caller, the second must not notice
        kind, f2, form = call_parse(lines, True, True, CHEAP[(i // 3) % len(CHEAP)], work, rng)
        if kind == "ok":
            o2, bad = observe(f2, lines)
            ruin(keep[0])
            o3, bad3 = observe(f2, lines)
            if o2 != keep[1] or bad or o3 != o2 or bad3:
                out.append(({"kind": "twice", "lines": lines, "form": form},
                            "file %s parsed twice [%s]: second result %s, after the caller deleted fields from the first one %s; first result was %s"
                            % (brief(lines, 400), form, brief(o2), brief(o3), brief(keep[1]))))
            keep = (f2, o2, lines)
        else:
            out.append(({"kind": "twice", "lines": lines, "form": form}, "file %s: second parse with both flags on gave %s" % (brief(lines, 400), kind)))
    if prev.get("keep") and not out:
        pf, pobs, plines = prev["keep"]
        now, bad = observe(pf, plines)
        if now != pobs or bad:
            out.append(({"kind": "keepalive", "prev": plines, "lines": lines},
                        "result of %s changed after parsing %s: now %s, was %s" % (brief(plines, 300), brief(lines, 300), brief(now), brief(pobs))))
    prev["keep"] = keep
    return out


def new_stats():
    return {"rep": set(), "lens": set(), "forms": {}, "out": {}}


def _file_chunk(args):
    cases, start, seed, work, big, quick = args
    stats, prev, out = new_stats(), {}, []
    for off, case in enumerate(cases):
        out += run_file_case(start + off, case, seed, work, prev, stats, big, quick)
        if len(out) > 20:
            break
    stats["rep"], stats["lens"] = sorted(stats["rep"]), sorted(stats["lens"])
    return out, stats


def merge_stats(total, st):
    total["rep"] |= set(st["rep"])
    total["lens"] |= set(st["lens"])
    for k in ("forms", "out"):
        for a, b in st[k].items():
            total[k][a] = total[k].get(a, 0) + b


def pool_map(fn, jobs, nproc):
    if nproc <= 1 or len(jobs) <= 1:
        return [fn(j) for j in jobs]
    import multiprocessing
    with multiprocessing.get_context("fork").Pool(nproc) as pool:
        return pool.map(fn, jobs, chunksize=1)


# ------------------------------------------------------------------ (b) call histories
def run_history(n, hist, docs, seed, work):
    rng = random.Random("%s-hist-%d" % (seed, n))
    conc = Conc(rng, mode="uni" if n % 3 else "ascii", big=(n % 9 == 4), canonical=(n % 7 == 0), eol="\r\n" if n % 5 == 2 else "\n", seq=n)
    texts = {}
    live = {}            # event number -> (file element, obs, lines)
    for ix, ev in enumerate(hist):
        j = ix + 1
        f = ev["f"]
        if f not in texts:
            texts[f] = conc.file([[l["c"], l["n"], l["v"]] for l in docs[f - 1]], final_nl=(n + f) % 3 != 0)
        lines = texts[f]
        if ev["op"] == "call":
            res = ev["res"]
            exp = {"acc": [[res["out"]]] * 4, "ferr": res["ferr"], "frun": res["frun"], "nerr": res["nerr"], "pok": True,
                   "paras": res["paras"], "dups": res["dups"], "dupp": res["dupp"], "dupi": res["dupi"], "valid": res["valid"]}
            q = FLAGS.index((ev["e"], ev["d"]))
            kind, val, form = call_parse(lines, ev["e"], ev["d"], FORMS[(n + ix * 4) % len(FORMS)], work, rng, tag="h")
            fobj = None
            if kind == "ok":
                fobj = val
                val = observe(fobj, lines)
            msg = judge(exp, q, kind, val, lines)
            if msg:
                return "event %d = parse(file %d %s) [%s]: %s" % (j, f, brief(lines, 300), form, msg)
            if fobj is not None:
                live[j] = (fobj, val[0], lines)
        else:
            if ev["j"] in live:
                ruin(live.pop(ev["j"])[0])
        for k, (fobj, obs, ls) in sorted(live.items()):
            now, bad = observe(fobj, ls)
            if now != obs or bad:
                return "after event %d the result of event %d (%s) shows %s, was %s" % (j, k, brief(ls, 300), brief(bad or now), brief(obs))
    return None


def _hist_chunk(args):
    hs, start, docs, seed, work = args
    out = []
    for off, h in enumerate(hs):
        msg = run_history(start + off, h, docs, seed, work)
        if msg:
            out.append((start + off, msg))
    return out


# ------------------------------------------------------------------ (c) recorded histories over real-looking files
_PKG = ["foo", "libbar1", "baz-dev", "python3-qux", "x11-utils", "0ad", "g++-12", "libstdc++6", "a.b+c"]
_VAL_U = ["J\u00fcrgen M\u00fcller <jm@example.org>", "caf\u00e9\u0301 \u212b tools", "\u4e2d\u6587 \u8bf4\u660e", "na\u00efve\u00a0parser \U0001f600",
          "\ufeffbom inside", "e\u0301 vs \u00e9", "\u0130stanbul \u0131 \u017f \u00df", "zero\u200dwidth\u200cjoin", "\u202eright-to-left\u202c x"]


def _val(rng, k):
    return _VAL_U[(k + rng.randrange(3)) % len(_VAL_U)] + " " + _TRAIL[k % 64]


def gen_control(rng, k):
    src = rng.choice(_PKG)
    out = ["Source: " + src, "Section: " + rng.choice(["utils", "libs", "python"]), "Priority: optional",
           "Maintainer: " + _val(rng, k), "Build-Depends: debhelper-compat (= 13),", "# needed on %s only" % _val(rng, k + 1),
           " lib%s-dev (>= 1.2~) [linux-any]," % src, "\tpython3:any <!nocheck>", "Standards-Version: 4.6.2", "Homepage: https://example.org/%s" % src,
           "Rules-Requires-Root: no"]
    for j in range(rng.choice([1, 1, 2, 3])):
        p = rng.choice(_PKG)
        out += ["", "Package: %s" % p, "Architecture: " + rng.choice(["any", "all", "linux-any kfreebsd-any"]),
                "Depends: ${shlibs:Depends}, ${misc:Depends}", "Description: " + _val(rng, k + j), " long description of %s" % p, " .",
                "  - item: one", " more text"]
        if rng.random() < 0.4:
            out.insert(len(out) - 4, "# comment before the description")
    return out


def gen_copyright(rng, k):
    out = ["Format: https://www.debian.org/doc/packaging-manuals/copyright-format/1.0/", "Upstream-Name: " + rng.choice(_PKG),
           "Source: https://example.org/src", "", "Files: *", "Copyright: 2001-2020 " + _val(rng, k), "           2021 Someone Else",
           "License: GPL-2+", "", "Files: debian/*", " contrib/*.py", "Copyright: 2022 " + _val(rng, k + 2), "License: Expat",
           "Comment:", " first", " .", " second: with colon", "", "License: GPL-2+", " This program is free software; you can", " .",
           " redistribute it.", "# trailing comment"]
    return out


def gen_sources(rng, k):
    out = ["# " + _val(rng, k), "Types: deb deb-src", "URIs: https://deb.example.org/debian", "Suites: stable stable-updates",
           "Components: main contrib", "Signed-By:", " -----BEGIN PGP PUBLIC KEY BLOCK-----", " .", " mDMEY865UxYJKwYBBAHaRw8BAQdA", " -----END PGP PUBLIC KEY BLOCK-----",
           "", "", "Types: deb", "URIs: file:/srv/mirror", "Suites: ./", "Enabled: no"]
    return out


GENERATORS = [gen_control, gen_copyright, gen_sources]
JUNK_LINES = ["junk", "-Package: foo", ":value", "Pack age: foo", "Package : foo", "P\u00e4ckage: foo", "\u212aey: v", "\uff21: b", "\ufeffSource: foo",
              "\x01Bin: x", "Depends\u00a0: x", "=====", "<<<<<<< HEAD", "-", "-- ", "Description", "\u0130d: 1", "na\u00efve: 2", "A\tB: c", "\u00df: sz"]


def ok_line(b):
    if "\r" in b or "\n" in b or b.strip(" \t") != b.strip():
        return False
    if b[:1] == "." and ":" in b:
        return False
    if "\x7f" in b.split(":", 1)[0]:
        return False
    if any(ch in SPLIT_CH for ch in b[:1] + b[-1:]):
        return False
    i = b.find(":")
    if i > 64 and all("!" <= ch <= "~" for ch in b[:i]):
        return False
    return True


def field_idx(ls):
    return [i for i, b in enumerate(ls) if b[:1] not in ("", " ", "\t", "#") and ":" in b and b.split(":", 1)[0].isascii()
            and " " not in b.split(":", 1)[0] and b.strip(" \t")]


def mutate(rng, ls, stats):
    """one text-level mutation of a list of line bodies (None: not applicable)"""
    ls = list(ls)
    n = len(ls)
    op = rng.choice(["dup", "dup", "recase", "delcolon", "indent", "unindent", "junk", "junk", "blank", "delete", "swap", "comment", "dash",
                     "space_colon", "nonascii", "merge", "merge", "move", "dup_far", "big_conts", "big_fields", "big_value", "big_paras",
                     "empty_blank", "hash"])
    fi = field_idx(ls)
    if op in ("dup", "recase", "delcolon", "dash", "space_colon", "nonascii", "dup_far", "hash") and not fi:
        return None
    if op == "dup":
        i = rng.choice(fi)
        nm, rest = ls[i].split(":", 1)
        j = rng.randint(max(0, i - 3), min(n, i + 4))
        ls.insert(j, other_case(nm, rng) + ":" + rng.choice([rest, " other", ""]))
    elif op == "dup_far":
        i = rng.choice(fi)
        ls.insert(rng.randint(0, n), ls[i].split(":", 1)[0].upper() + ": far away")
    elif op == "recase":
        i = rng.choice(fi)
        nm, rest = ls[i].split(":", 1)
        ls[i] = other_case(nm, rng) + ":" + rest
    elif op == "delcolon":
        i = rng.choice(fi)
        ls[i] = ls[i].replace(":", " ", 1) if rng.random() < 0.5 else ls[i].split(":", 1)[0]
    elif op == "indent":
        i = rng.randrange(n)
        ls[i] = rng.choice([" ", "\t"]) + ls[i]
    elif op == "unindent":
        ks = [i for i, b in enumerate(ls) if b[:1] in (" ", "\t") and b.strip(" \t")]
        if not ks:
            return None
        i = rng.choice(ks)
        ls[i] = ls[i].lstrip(" \t")
    elif op == "junk":
        ls.insert(rng.randint(0, n), rng.choice(JUNK_LINES))
    elif op == "blank":
        ls.insert(rng.randint(0, n), rng.choice(["", " ", "\t", "  \t"]))
    elif op == "empty_blank":
        ks = [i for i, b in enumerate(ls) if b == ""]
        if not ks:
            return None
        ls[rng.choice(ks)] = rng.choice([" ", "\t ", " " * 80])
    elif op == "delete":
        del ls[rng.randrange(n)]
    elif op == "swap":
        if n < 2:
            return None
        i = rng.randrange(n - 1)
        ls[i], ls[i + 1] = ls[i + 1], ls[i]
    elif op == "move":
        b = ls.pop(rng.randrange(n))
        ls.insert(rng.randint(0, n - 1), b)
    elif op == "comment":
        ls.insert(rng.randint(0, n), rng.choice(["#", "# note", "#Package: hidden", "# \u00e9\u00a0x"]))
    elif op == "hash":
        i = rng.choice(fi)
        ls[i] = "#" + ls[i]
    elif op == "dash":
        i = rng.choice(fi)
        ls[i] = "-" + ls[i]
    elif op == "space_colon":
        i = rng.choice(fi)
        ls[i] = ls[i].replace(":", rng.choice([" :", "\t:", "\u00a0:"]), 1)
    elif op == "nonascii":
        i = rng.choice(fi)
        nm, rest = ls[i].split(":", 1)
        j = rng.randint(0, len(nm))
        ls[i] = nm[:j] + rng.choice(["\u00e9", "\u212a", "\u0131", "\ufeff", "\u200b", "\x01", "\uff30"]) + nm[j:] + ":" + rest
    elif op == "merge":
        ks = [i for i, b in enumerate(ls) if not b.strip(" \t")]
        if not ks:
            return None
        del ls[rng.choice(ks)]
    elif op == "big_conts":
        ks = [i for i in fi]
        if not ks:
            return None
        i = rng.choice(ks)
        k = rng.choice([99, 100, 101, 255, 256, 257, 1000])
        stats["counts"].add(k)
        ls[i + 1:i + 1] = [" cont %d" % j if j % 17 else "# c %d" % j for j in range(k)]
    elif op == "big_fields":
        k = rng.choice([31, 32, 33, 99, 100, 101, 255, 256, 257, 1000])
        stats["counts"].add(k)
        add = ["X-Field-%d: v%d" % (j, j) for j in range(k)]
        if rng.random() < 0.5:
            add.append("x-field-0: again")
        ls += add
    elif op == "big_value":
        k = rng.choice([n_ for n_ in LINE_LEN if n_ >= 255])
        stats["lens"].add(k)
        ls.insert(rng.randint(0, n), rng.choice(["X-Long: a ", " cont ", "# ", "junk "]) + "v" * k)
    elif op == "big_paras":
        k = rng.choice([99, 100, 101, 255, 256, 257])
        stats["counts"].add(k)
        for j in range(k):
            ls += ["", "Package: p%d" % j, "Architecture: all"] + (["package: p%d-again" % j] if j == k - 2 and rng.random() < 0.5 else [])
    if not ls or not all(ok_line(b) for b in ls):
        return None
    return ls


def char_cls(ch):
    if ch == " " or ch == "\t":
        return "S"
    if ch == "\r":
        return "R"
    if ch == "#":
        return "H"
    if ch == ":":
        return "C"
    if ch == "-":
        return "D"
    if ch == ".":
        return "P"
    if "!" <= ch <= "~":
        return "N"
    return "X"


def to_runs(line):
    """lexical abstraction of a line for TLC: runs of character classes of the body + the text before the first colon"""
    body = line[:-1] if line.endswith("\n") else line
    rs = []
    for ch in body:
        c = char_cls(ch)
        if rs and rs[-1]["c"] == c:
            rs[-1]["n"] += 1
        else:
            rs.append({"c": c, "n": 1})
    i = body.find(":")
    nm = [ord(ch) for ch in body[:i]] if 0 <= i <= 64 else []
    return {"rs": rs, "nm": nm, "long": i > 64}


def event_of(f, e, d, kind, val, lines):
    ev = {"f": f, "e": e, "d": d, "out": kind, "ferr": 0, "frun": 0, "nerr": 0, "valid": False, "pars": [], "cand": [], "dname": [], "dno": 0}
    if kind == "ok":
        obs = val
        ev.update(ferr=obs["ferr"], frun=obs["frun"], nerr=obs["nerr"], valid=bool(obs["valid"]),
                  pars=[{"names": [[ord(ch) for ch in nm] for nm in p["names"]], "dup": p["dup"], "cls": p["cls"]} for p in obs["pars"]])
    elif kind == "syntax":
        head = 'Syntax or Parse error on the line: "'
        text = val[len(head):-1] if val.startswith(head) and val.endswith('"') else None
        if text is not None:
            ev["cand"] = [i + 1 for i, l in enumerate(lines) if text.startswith(l.replace("\n", "\\n"))]
    elif kind == "dup":
        m = _DUP_RE.match(val)
        if m and len(m.group(1)) <= 64 and len(m.group(2)) < 9:
            ev["dname"] = [ord(ch) for ch in m.group(1)]
            ev["dno"] = int(m.group(2))
        else:
            ev["out"] = "dup?"
    return ev


def record_history(rng, k, work, stats, big_ok=True):
    """-> (trace, meta, complaints)"""
    base = GENERATORS[k % len(GENERATORS)](rng, k)
    bodies = [base]
    for _ in range(rng.choice([1, 1, 2])):
        cur = list(bodies[rng.randrange(len(bodies))])
        for _ in range(rng.choice([0, 1, 1, 2, 2, 3, 4])):
            for _try in range(4):
                m = mutate(rng, cur, stats)
                if m is not None and (big_ok or len(m) < 400):
                    cur = m
                    break
        bodies.append(cur)
    texts = []
    for b in bodies:
        eol = "\r\n" if rng.random() < 0.2 else "\n"
        lines = [x + eol for x in b]
        if rng.random() < 0.25 and b[-1] != "":
            lines[-1] = b[-1]
        texts.append(lines)
    trace = {"files": [[to_runs(l) for l in t] for t in texts], "ev": []}
    live, complaints, forms = [], [], []
    nev = rng.randint(3, 8) if len(max(texts, key=len)) < 400 else 3
    for j in range(nev):
        f = rng.randrange(len(texts)) if j else len(texts) - 1
        e, d = FLAGS[rng.randrange(4)] if j else FLAGS[3]
        form = rng.choice(FORMS)
        kind, val, form = call_parse(texts[f], e, d, form, work, rng, tag="t")
        forms.append(form)
        if kind == "ok":
            fobj = val
            obs, bad = observe(fobj, texts[f], deep=(j % 2 == 0))
            complaints += ["event %d (file %d, flags %s/%s, %s): %s" % (j + 1, f + 1, e, d, form, b) for b in bad]
            live.append((fobj, f, e, d))
            val = obs
        trace["ev"].append(event_of(f + 1, e, d, kind, val, texts[f]))
        if live and rng.random() < 0.5:
            fobj, f2, e2, d2 = live[rng.randrange(len(live))]
            obs, bad = observe(fobj, texts[f2], deep=False)
            complaints += ["re-observation after event %d: %s" % (j + 1, b) for b in bad]
            trace["ev"].append(event_of(f2 + 1, e2, d2, "ok", obs, texts[f2]))
        if live and rng.random() < 0.15:
            ruin(live.pop(rng.randrange(len(live)))[0])
    return trace, {"texts": texts, "forms": forms}, complaints


def corrupt(trace, rng):
    """corrupted copies of a recorded trace that no reading of the specification can explain"""
    out = []
    for j, ev in enumerate(trace["ev"]):
        c = None
        if ev["out"] == "ok":
            c = dict(ev, valid=not ev["valid"]) if rng.random() < 0.5 else dict(ev, ferr=ev["ferr"] + 1)
        elif ev["out"] == "syntax":
            c = dict(ev, cand=[]) if rng.random() < 0.5 else dict(ev, e=True)
        elif ev["out"] == "dup":
            c = dict(ev, d=True)
        if c is not None:
            t = {"files": trace["files"], "ev": trace["ev"][:j] + [c] + trace["ev"][j + 1:]}
            out.append(t)
    rng.shuffle(out)
    return out[:2]


def _rl(s):
    return to_runs(s)


STATIC_CONTROLS = [
    # "A: b" alone is valid; "a: c" after it is a duplicate; a continuation line first is an error
    {"files": [[_rl("A: b\n")]], "ev": [dict(f=1, e=True, d=True, out="ok", ferr=0, frun=0, nerr=0, valid=False,
                                              pars=[{"names": [[65]], "dup": False, "cls": False}], cand=[], dname=[], dno=0)]},
    {"files": [[_rl("A: b\n"), _rl("a: c\n")]], "ev": [dict(f=1, e=False, d=False, out="ok", ferr=0, frun=0, nerr=0, valid=True,
                                                             pars=[{"names": [[65], [97]], "dup": False, "cls": False}], cand=[], dname=[], dno=0)]},
    {"files": [[_rl(" x\n"), _rl("A: b\n")]], "ev": [dict(f=1, e=False, d=True, out="ok", ferr=0, frun=0, nerr=0, valid=True,
                                                           pars=[{"names": [[65]], "dup": False, "cls": False}], cand=[], dname=[], dno=0)]},
    {"files": [[_rl("A: b\n"), _rl("# c\n"), _rl(" d\n")]], "ev": [dict(f=1, e=False, d=False, out="syntax", ferr=0, frun=0, nerr=0, valid=False,
                                                                         pars=[], cand=[3], dname=[], dno=0)]},
    {"files": [[_rl("A: b\n"), _rl("\n"), _rl("A: c\n")]], "ev": [dict(f=1, e=True, d=False, out="dup", ferr=0, frun=0, nerr=0, valid=False,
                                                                        pars=[], cand=[], dname=[65], dno=1)]},
]


def validate(ctx, traces, with_controls=True, seed=0):
    rng = random.Random("%s-controls" % seed)
    controls = []
    if with_controls:
        for t in traces[:40]:
            if sum(len(f) for f in t["files"]) < 200:
                controls += corrupt(t, rng)
        controls = controls[:40] + STATIC_CONTROLS
    acc, prog, r = core.validate_traces(ctx, "TraceReproAccept", "TraceReproAccept.cfg", traces, extra_env={"TRACE_DIAG": "1"},
                                        controls=controls, java_opts=["-Xss64m"] + (["-XX:TieredStopAtLevel=1"] if ctx.tier == "quick" else []))
    notes = {}
    for v in r.printed.get("REJECT", []):
        if isinstance(v, list) and len(v) >= 2 and v[0] <= len(traces):
            notes[v[0]] = v[1]
    if any(n == "cut" for n in notes.values()):
        raise core.MachineryError("trace abstraction: a name cut disagrees with TLC's classification (traces %s)" % sorted(k for k, n in notes.items() if n == "cut")[:5])
    rejected = [i for i in range(1, len(traces) + 1) if i not in acc]
    return rejected, prog, notes


# ------------------------------------------------------------------ run
def cfg_text(name, **consts):
    txt = open(os.path.join(core.SPEC, name)).read()
    for k, v in consts.items():
        txt, n = re.subn(r"(?m)^(\s*%s\s*=).*$" % re.escape(k), lambda m: "%s %s" % (m.group(1), v), txt)
        if n != 1:
            raise core.MachineryError("%s: constant %s not found" % (name, k))
    return txt


def only_inv(txt, keep):
    out = []
    for line in txt.splitlines():
        if line.startswith(("INVARIANT", "PROPERTY")) and line.strip() not in keep:
            continue
        out.append(line)
    return "\n".join(out) + "\n"


def report(ctx, hits, case, msg):
    for k in KNOWN:
        try:
            if k["match"](case, msg):
                hits[k["id"]] = hits.get(k["id"], 0) + 1
                return
        except Exception:
            pass
    ctx.violation(case, msg)


def replay_trace(calls, texts, work):
    """re-executes the parse calls of a recorded history (all results kept alive, re-observed at the end)"""
    trace = {"files": [[to_runs(l) for l in t] for t in texts], "ev": []}
    live, complaints = [], []
    for (f, e, d, form) in calls:
        kind, val, form = call_parse(texts[f], e, d, form, work, None, tag="r")
        if kind == "ok":
            fobj = val
            val, bad = observe(fobj, texts[f])
            complaints += bad
            live.append((fobj, f, e, d))
        trace["ev"].append(event_of(f + 1, e, d, kind, val, texts[f]))
    for fobj, f, e, d in live:
        obs, bad = observe(fobj, texts[f])
        complaints += bad
        trace["ev"].append(event_of(f + 1, e, d, "ok", obs, texts[f]))
    return trace, complaints


class _Sub:
    """a view of ctx for a validation running in a thread (own bookkeeping, merged afterwards)"""

    def __init__(self, ctx):
        self.ctx = ctx
        self.tier, self.work, self.extra, self.tlc_runs = ctx.tier, ctx.work, {}, []
        self.states = self.transitions = 0

    def tlc(self, module, cfg, count=True, **kw):
        kw.setdefault("timeout", 900 if self.tier == "quick" else 3600)
        r = core.run_tlc(module, cfg, self.work, **kw)
        self.tlc_runs.append({"module": module, "config": "traces", "generated": r.generated, "distinct": r.distinct, "depth": r.depth,
                              "wall_s": round(r.wall, 2), "violated": r.violated})
        self.states += r.distinct
        self.transitions += r.generated
        return r

    def merge(self):
        self.ctx.tlc_runs += self.tlc_runs
        self.ctx.states += self.states
        self.ctx.transitions += self.transitions
        for k, v in self.extra.items():
            self.ctx.extra[k] = self.ctx.extra.get(k, 0) + v


def run(ctx):
    quick = ctx.tier == "quick"
    ctx.import_repo()
    seed = ctx.seed
    hits = {}
    tm = ctx.extra.setdefault("phase_wall_s", {})
    t_ = time.time()
    maxlen, maxlines, maxev = (4, 5, 2) if quick else (6, 6, 3)
    nproc = 8 if quick else 12
    ctx.extra["extra"] = {"id": "X09", "title": EXTRA["title"], "statement": EXTRA["statement"]}
    ctx.assumptions += [
        "bounded: every line of <= %d characters over 8 character classes; every file of <= %d lines over 7 line symbols (2 names, 2 spellings); call histories of <= %d events over 6 files" % (maxlen, maxlines, maxev),
        "the model is length-independent by construction (Classify adds run lengths, the automaton counts lines; IStutter): larger sizes are reached by concretization and by the recorded histories",
        "unspecified (executed, never judged): after the first error line whatever the readings code/strict/glue disagree on; which ValueError when both defects and both flags off; names starting with '.' or containing DEL; CR not before LF; other white space at line margins / as whole lines; inconsistent line endings; undecodable bytes",
        "message wording identifies the kind of ValueError ('Syntax or Parse error' / 'Duplicate field'); the paragraph number may be 0- or 1-based",
        "trusted: TLC, the concretizer, the lexical table char_cls and the cut at the first colon (checked against TLC's nlen), the offset-to-line projection of the error element",
    ]

    # 1. design level, concurrently with the recording of histories
    # (quick: all invariants on every file of <= MaxLines - 1 lines; emission -- and replay -- of every file of <= MaxLines lines
    #  with ITotality / IRunAgrees only: the ten invariants at 5 lines cost 35 CPU-seconds; thorough: everything at 6 lines)
    jobs = [
        dict(name="files", module="ReproAccept", workers=4 if quick else 6, tags={"CASE"}, heavy=True,
             cfg=only_inv(cfg_text("ReproAccept_files.cfg", MaxLines=str(maxlines)), ["INVARIANT ITotality", "INVARIANT IRunAgrees", "INVARIANT EmitCase"])
             if quick else cfg_text("ReproAccept_files.cfg", MaxLines=str(maxlines))),
        dict(name="lines", module="ReproAccept", cfg=cfg_text("ReproAccept_lines.cfg", MaxLen=str(maxlen)), workers=2 if quick else 4, tags={"CASE", "CTX"}),
        dict(name="big", module="ReproAccept", cfg="ReproAccept_big.cfg", workers=2, tags={"CASE"}, java_opts=["-Xss256m"], heavy=True),
        dict(name="calls", module="ReproAcceptCalls", cfg=cfg_text("ReproAcceptCalls.cfg", MaxEv=str(maxev)), workers=1 if quick else 2, tags={"CASE", "DOCS"}),
    ]
    if quick:
        jobs.insert(1, dict(name="files_inv", module="ReproAccept", workers=2, tags=set(),
                            cfg=cfg_text("ReproAccept_files.cfg", MaxLines=str(maxlines - 1), Emit="FALSE")))
    if not quick:
        jobs.append(dict(name="big2", module="ReproAccept", cfg=cfg_text("ReproAccept_big.cfg", BigSel="{13, 14}"), workers=2, tags={"CASE"},
                         java_opts=["-Xss512m"]))
    negs = []
    for module, cfg, consts, line, inv in NEGS:
        negs.append(dict(name="neg:" + ",".join("%s=%s" % kv for kv in consts.items() if kv[0] not in ("MaxLen", "MaxLines")), module=module, expect=inv,
                         workers=1, tags=set(), cfg=only_inv(cfg_text(cfg, Emit="FALSE", **consts), [line])))
    if quick:       # two of the six per run, by seed (all six in the thorough tier)
        negs = [negs[seed % len(negs)], negs[(seed + 3) % len(negs)]]
    jobs += negs

    def one(j):
        jo = list(j.get("java_opts") or []) + (["-XX:TieredStopAtLevel=1"] if quick and not j.get("heavy") else [])
        return core.run_tlc(j["module"], j["cfg"], ctx.work, workers=j["workers"], want_tags=j["tags"], timeout=900 if quick else 3600, java_opts=jo)

    res = {}

    def account(j, r):
        ctx.tlc_runs.append({"module": j["module"], "config": j["name"], "generated": r.generated, "distinct": r.distinct,
                             "depth": r.depth, "wall_s": round(r.wall, 2), "violated": r.violated})
        if j.get("expect"):
            if r.violated != j["expect"]:
                raise core.MachineryError("negative control %s: expected TLC to report %s, got %r" % (j["name"], j["expect"], r.violated))
            ctx.extra.setdefault("spec_negative_controls", {})[j["name"]] = "violates " + r.violated
        else:
            if r.violated:
                raise core.MachineryError("specification %s (%s) violates %s\n%s" % (j["module"], j["name"], r.violated, r.tail))
            ctx.states += r.distinct
            ctx.transitions += r.generated
        res[j["name"]] = r

    ex = ThreadPoolExecutor(max_workers=5)
    futs = [ex.submit(one, j) for j in jobs]

    # 2. (c) record histories while TLC works
    rng = ctx.rng
    ntr = 90 if quick else 1200
    tstats = {"counts": set(), "lens": set()}
    traces, metas = [], []
    nv = 0
    for k in range(ntr):
        tr, meta, complaints = record_history(rng, k + seed * 7, ctx.work, tstats, big_ok=(k % 4 == 1))
        traces.append(tr)
        metas.append(meta)
        ctx.case_seen(("trace", k), True)
        if complaints and nv < 5:
            nv += 1
            report(ctx, hits, {"kind": "trace", "texts": meta["texts"], "calls": [[e["f"] - 1, e["e"], e["d"], "list_str"] for e in tr["ev"]]},
                   "recorded history over %s: %s" % (brief(meta["texts"][-1], 500), complaints[0]))
    tm["record"] = round(time.time() - t_, 1)
    t_ = time.time()
    parts = [traces] if quick else [traces[:len(traces) // 2], traces[len(traces) // 2:]]
    subs = [_Sub(ctx) for _ in parts]
    vfuts = [ex.submit(validate, s, p, True, seed) for s, p in zip(subs, parts)]

    results = [f.result() for f in futs]
    for j, r in zip(jobs, results):
        account(j, r)
    tm["tlc_design"] = round(time.time() - t_, 1)
    t_ = time.time()

    # 3. the emitted cases
    lcases = [c for c in res["lines"].printed.get("CASE", []) if isinstance(c, list) and len(c) == 3]
    table = (res["lines"].printed.get("CTX") or [None])[0]
    if len(lcases) != res["lines"].distinct or not isinstance(table, list) or len(table) != 5:
        raise core.MachineryError("lines: %d CASE lines for %d states / CTX table missing" % (len(lcases), res["lines"].distinct))
    lcases.sort(key=lambda c: (len(c[0]), "".join(c[0])))
    table = {e["c"]: e for e in table}
    fcases = [c for c in res["files"].printed.get("CASE", []) if isinstance(c, dict)]
    if len(fcases) != res["files"].distinct:
        raise core.MachineryError("files: %d CASE lines for %d states" % (len(fcases), res["files"].distinct))
    fcases.sort(key=lambda c: (c["n"], json.dumps(c["lines"])))
    bigs = [n for n in ("big", "big2") if n in res]
    bcases = [c for n in bigs for c in res[n].printed.get("CASE", []) if isinstance(c, dict)]
    if 2 * len(bcases) != sum(res[n].distinct for n in bigs):
        raise core.MachineryError("big: %d CASE lines for %d states" % (len(bcases), sum(res[n].distinct for n in bigs)))
    bcases.sort(key=lambda c: c["n"])
    hcases = [c for c in res["calls"].printed.get("CASE", []) if isinstance(c, list)]
    docs = (res["calls"].printed.get("DOCS") or [None])[0]
    if len(hcases) != res["calls"].distinct - 1 or not isinstance(docs, list):
        raise core.MachineryError("calls: %d CASE lines for %d states / DOCS missing" % (len(hcases), res["calls"].distinct))
    hcases.sort(key=lambda h: (len(h), json.dumps(h, sort_keys=True)))
    ctx.extra["model"] = {"lines(all class strings)": res["lines"].distinct, "MaxLen": maxlen,
                          "files(all line-symbol sequences)": res["files"].distinct, "MaxLines": maxlines,
                          "files(all invariants)": res["files_inv" if quick else "files"].distinct,
                          "large_files(paragraphs x fields x continuation lines / tail)": ["%dx%dx%d/%d" % tuple(c["dims"]) for c in bcases],
                          "call_histories": len(hcases), "MaxEv": maxev}

    # 4. (a1) lines, (a2) files and large files, in worker processes
    size = 400
    out = pool_map(_line_chunk, [(lcases[a:a + size], a, table, seed, ctx.work, 0 if quick else maxlen) for a in range(0, len(lcases), size)], nproc)
    per = {}
    for vs, p, drift in out:
        for k, n in p.items():
            per[k] = per.get(k, 0) + n
        for d in drift[:3]:
            ctx.drift(d)
        for case, msg in vs[:2]:
            report(ctx, hits, case, msg)
    for i in range(len(lcases)):
        ctx.case_seen(("line", i), True)
    tm["replay_lines"] = round(time.time() - t_, 1)
    t_ = time.time()
    total = new_stats()
    reps = 1
    allf = fcases * reps
    out = pool_map(_file_chunk, [(allf[a:a + size], a, seed, ctx.work, False, maxlines if quick else 0) for a in range(0, len(allf), size)], nproc)
    nfv = 0
    for vs, st in out:
        merge_stats(total, st)
        for case, msg in vs:
            nfv += 1
            if nfv <= 4:
                report(ctx, hits, case, msg)
    tm["replay_files"] = round(time.time() - t_, 1)
    t_ = time.time()
    out = pool_map(_file_chunk, [([c], 1000003 + 17 * i + r, seed, ctx.work, True, 0) for r in range(1 if quick else 2) for i, c in enumerate(bcases)], nproc)
    for vs, st in out:
        merge_stats(total, st)
        for case, msg in vs[:1]:
            if len(json.dumps(case["lines"] if "lines" in case else "")) > 400000:
                case = dict(case, lines=None, note="large generated file: re-run the check")
            report(ctx, hits, case, msg)
    tm["replay_big"] = round(time.time() - t_, 1)
    t_ = time.time()
    for i in range(len(allf) + len(bcases)):
        ctx.case_seen(("file", i), True)
    ctx.traces += len(lcases) + len(allf) + len(bcases)
    mid = fcases[len(fcases) * 2 // 3]
    cn = Conc(random.Random("%s-sample" % seed), "uni")
    ctx.sample("CASE %s -> %r -> %s" % (" ".join("".join(map(str, l)) if l[0] == "F" else l[0] for l in mid["lines"]),
                                         "".join(cn.file([list(x) for x in mid["lines"]])), brief(mid["exp"], 400)))
    ctx.sample("lines per class: %s" % dict(sorted(per.items())))

    # 5. (b) call histories
    nh = 0
    out = pool_map(_hist_chunk, [(hcases[a:a + size], a, docs, seed, ctx.work) for a in range(0, len(hcases), size)], nproc if len(hcases) > 2000 else 1)
    for n in range(len(hcases)):
        ctx.case_seen(("hist", n), True)
    for n, msg in [x for part in out for x in part]:
        h = hcases[n]
        nh += 1
        if nh <= 3:
            report(ctx, hits, {"kind": "hist", "n": n, "hist": h, "docs": docs, "seed": seed},
                   "history %s: %s" % (" ; ".join("%s(%s)" % (e["op"], e["f"] if e["op"] == "call" else e["j"]) for e in h), msg))
    ctx.traces += len(hcases)
    ctx.sample("history: " + " ; ".join("%s(file %d, %s, %s)->%s" % (e["op"], e["f"], e["e"], e["d"], e["res"]["out"]) for e in hcases[len(hcases) // 2]))
    tm["calls"] = round(time.time() - t_, 1)
    t_ = time.time()

    # 6. validation of the recorded histories
    base = 0
    nrej, unjudged = 0, 0
    for s, p, vf in zip(subs, parts, vfuts):
        rejected, prog, notes = vf.result()
        s.merge()
        unjudged += sum(1 for v in notes.values() if v == "unspec")
        for i in rejected:
            nrej += 1
            if nrej > 4:
                continue
            at = prog.get(i, 0)
            tr, meta = p[i - 1], metas[base + i - 1]
            ev = tr["ev"][at] if at < len(tr["ev"]) else None
            report(ctx, hits, {"kind": "trace", "texts": meta["texts"], "calls": [[e["f"] - 1, e["e"], e["d"], "list_str"] for e in tr["ev"]]},
                   "parser not explained by ReproAccept.tla: event %d %s on file %s" % (at + 1, brief(ev, 500), brief(meta["texts"][ev["f"] - 1] if ev else None, 900)))
        base += len(p)
    ex.shutdown()
    tm["validate_wait"] = round(time.time() - t_, 1)
    ctx.traces += len(traces)
    ctx.evaluations += sum(len(t["ev"]) for t in traces)
    big_t = max(range(len(traces)), key=lambda i: sum(len(f) for f in traces[i]["files"]))
    ctx.sample("recorded history (%d files, %d lines): %s" % (len(traces[0]["files"]), sum(len(f) for f in traces[0]["files"]),
                                                               brief([[e["f"], e["e"], e["d"], e["out"], e["ferr"], e["valid"]] for e in traces[0]["ev"]], 300)))
    outs = {}
    for t in traces:
        for e in t["ev"]:
            outs[e["out"]] = outs.get(e["out"], 0) + 1
    ctx.extra["traces"] = {"recorded": len(traces), "rejected": nrej, "unjudged(unspec line)": unjudged, "events": sum(len(t["ev"]) for t in traces),
                           "lines": sum(len(f) for t in traces for f in t["files"]), "outcomes": outs,
                           "max_lines": sum(len(f) for f in traces[big_t]["files"]),
                           "counts": sorted(tstats["counts"]), "line_lengths": sorted(tstats["lens"])}
    ctx.extra["replay"] = {"input_forms": dict(sorted(total["forms"].items())), "outcomes": dict(sorted(total["out"].items())),
                           "repeat_counts": sorted(total["rep"]), "payload_lengths": sorted(total["lens"]), "lines_per_class": dict(sorted(per.items()))}
    for k in KNOWN:
        if hits.get(k["id"]):
            print("KNOWN-FINDING: extra=X09 %s (%d occurrences; id=%s)" % (k["signature"], hits[k["id"]], k["id"]))
    ctx.extra["known_findings"] = hits


def replay(ctx, case):
    ctx.import_repo()
    kind = case.get("kind")
    if kind == "file":
        if case.get("lines") is None:
            return "large generated file: re-run the check (the case was too large to store)"
        q = case["q"]
        k, val, form = call_parse(case["lines"], FLAGS[q][0], FLAGS[q][1], case["form"], ctx.work)
        if k == "ok":
            val = observe(val, case["lines"])
        return judge(case["exp"], q, k, val, case["lines"])
    if kind == "twice":
        k1, f1, _ = call_parse(case["lines"], True, True, "list_str", ctx.work)
        k2, f2, _ = call_parse(case["lines"], True, True, case["form"], ctx.work)
        if k1 != "ok" or k2 != "ok":
            return "parse with both flags on gave %s / %s" % (k1, k2)
        o1, _ = observe(f1, case["lines"])
        o2, b2 = observe(f2, case["lines"])
        ruin(f1)
        o3, b3 = observe(f2, case["lines"])
        if o1 != o2 or o3 != o2 or b2 or b3:
            return "second result %s, after the caller deleted fields from the first %s; first was %s" % (brief(o2), brief(o3), brief(o1))
        return None
    if kind == "keepalive":
        k1, f1, _ = call_parse(case["prev"], True, True, "list_str", ctx.work)
        if k1 != "ok":
            return "parse with both flags on gave %s" % k1
        o1, _ = observe(f1, case["prev"])
        for q in range(4):
            for form in ("list_str", "list_bytes", "stringio"):
                call_parse(case["lines"], FLAGS[q][0], FLAGS[q][1], form, ctx.work)
        o2, b2 = observe(f1, case["prev"])
        if o1 != o2 or b2:
            return "result changed after later calls: now %s, was %s" % (brief(b2 or o2), brief(o1))
        return None
    if kind == "hist":
        return run_history(case["n"], case["hist"], case["docs"], case["seed"], ctx.work)
    if kind == "trace":
        tr, complaints = replay_trace([tuple(c) for c in case["calls"]], case["texts"], ctx.work)
        if complaints:
            return complaints[0]
        rejected, prog, notes = validate(ctx, [tr], with_controls=False)
        if rejected:
            at = prog.get(1, 0)
            return "history still not explained by the specification at event %d %s" % (at + 1, brief(tr["ev"][at] if at < len(tr["ev"]) else None))
        return None
    return "unknown case kind %r" % kind
