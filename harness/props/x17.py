"""X17 (extra) -- comments and formatting in the format-preserving parser (debian._deb822_repro):
(a) the comment API of fields and paragraphs, (b) the exact text written by the stock formatter.

STATEMENT
  (a) A string handed in as a comment line (field_comment=[...] of set_field_to_simple_value /
  set_field_from_raw_string, list_view.append_comment) becomes exactly one comment line: a line that starts with '#'
  and ends with a newline is used as given; otherwise trailing blanks are cut and a newline is supplied when the
  newline is missing, and "# " is put in front of the text (leading blanks cut) when the '#' is missing; '' is the
  empty comment line "#"; a string with an embedded newline is refused (ValueError) -- and a refused call changes
  nothing.  The comment of the written field is what the call says: kept (no keyword / preserve...=True: the same
  lines -- the model keeps the same Deb822CommentElement object; a new object with the same lines is accepted and
  reported as a diagnostic only, the documentation does not promise the object), dropped (preserve...=False or an
  empty list), the normalised lines in order, or the very element object handed in ("reuse of an existing element";
  an element whose last line lacks the newline is refused, also by the comment_element setter, whose getter returns
  the object that was set); both keywords together are refused; preserve...=True on an ambiguous name raises
  AmbiguousDeb822FieldKeyError.  Position and spelling of an existing field are kept, a new field is
  appended, every other field, paragraph and held element stays exactly as it was; an element object is in one
  place only and parent_element of every field / comment element names the paragraph / field that holds it.
  Comments move and disappear with their field: delete, order_first/last, sort_fields, from_kvpairs move or drop
  whole fields; new_empty_paragraph() / new_empty_file() are empty and independent of each other; from_dict is the
  fold of item assignments; from_kvpairs([]) is refused; appending paragraphs to a new file gives their texts
  separated by one empty line.
  (b) format_field(one_value_per_line_trailing_separator, name, sep, tokens) returns name + ':' + the value part in
  which the first value follows after ONE space, every further value stands on its own line indented by
  len(name) + 2 spaces, a comment token is a complete line in column 0 directly in front of the value it precedes
  (the value part starts with a newline when the stream starts with a comment), a separator that is not white space
  follows EVERY value, a white-space separator is never written, separator tokens of the input are dropped and every
  line ends in a newline; the result is a syntactically valid field that re-reads (comma / white-space list) as
  exactly the value tokens in order with the comment tokens in order.  Invalid test data (value token with
  surrounding white space, comment token without '#' / newline), a list ending in a comment token and a stream
  without value and comment are refused with ValueError.
  Domain: keys that resolve; values the setters accept; supplied elements are detached (one object shared by two
  fields is not specified); comment lines whose first / last non-blank character is not white space in the sense of
  str.isspace() (what else str.strip() cuts is not specified); field_comment is a list / tuple of str or an element
  (a plain str is iterated character by character: not documented); for append_comment no character that
  str.splitlines() treats as a line end; separators ' ' and ',' for the re-read law (tab and ';' only for the
  layout); an empty token list and a stream whose last content token is a comment handed in as an iterator or
  followed by separators are not specified.  THE TREE HAS NO one_value_per_line_formatter(indentation,
  trailing_separator, immediate_empty_line): one_value_per_line_trailing_separator is the only stock formatter of
  the pinned version, so "every combination of options" is separator kind x name length x stream x input form.

spec:     spec/CommentNorm.tla        the comment rule on token sequences <<class, id>> (classes h b x n): Norm
                                      (transcription of _format_comment, variants S statement / A the other
                                      acceptable empty comment line / K as built) and the laws LawTotal, LawWF,
                                      LawComplete, LawPayload, LawPrefix, LawIdem
          spec/CommentNormMC.tla      all 1365 lines of <= 5 tokens: laws (ASSUME), NORM lines
          spec/FieldComment.tla       worlds [paragraphs of fields [n, s, v, comment [handle, lines]], held elements,
                                      next handle]; ONE pure outcome operator per public call: SetOut (10 comment
                                      modes), CmtOut, DelOut, MoveOut, SortOut, NewOut, DictOut, KvOut, JoinOut,
                                      FaultOut, FileParts; Ownership, LinesWF
          spec/FieldCommentMC.tla     closed scenarios uniq / dup / ctor, every history of <= 2 (3) calls:
                                      InvOwnership, InvLinesWF, InvDetachAttach, InvModeAlgebra, ErrAtomic, Frame,
                                      ModeLaw, MovesWhole; EDGE lines with statement / alternative / as-built outcome
          spec/TraceFieldComment.tla  trace validation of recorded histories (model continues from the observed world)
          spec/StockFormat.tla        Ship (transcription of the stock formatter on token streams), FFOut (verdict +
                                      exact PIECES: newline, k spaces, token p, separator), Contract, ShapeOK,
                                      ReReads (reference reader Split / Valid of ListView.tla, C11), TokProps
          spec/StockFormatMC.tla      every stream of <= 3 (4) tokens x 4 separators x name lengths {1, 73} ({1, 2, 9, 73}) x 2 forms:
                                      InvLayout, CASE and TOK lines
          spec/TraceStockFormat.tla   trace validation of recorded format_field calls (names to 8193, 1000 tokens)
negative controls (all re-run in the thorough tier, the first and a rotating half of the others in the quick tier; TLC
          must report the named property):
          CommentNormMC_asbuilt.cfg -> ASSUME LawsHold false (TLC FINDS X17-blank-comment-line);
          FieldComment Neg = StoreBroken -> InvLinesWF, ElemStays -> InvOwnership, MoveLeavesComment -> MovesWhole,
          ErrDropsComment -> ErrAtomic, KeepCopies -> InvModeAlgebra;
          StockFormat BadShip = nosep / indent1 / nofirstnl / keepsep -> InvLayout;
          corrupted control traces for both trace modules.
binding:  (replay jobs and the recording of histories run in 3 forked worker processes; every job carries its own seeds, so
          verdicts do not depend on scheduling)
          spec -> code: (1) NORM lines through the three entry points of the comment rule; (2) every EDGE of uniq
          and dup replayed on a world BUILT for its from-state (document parsed through one of 6 input forms, handles
          taken by identity, held elements made two ways), random walks and ALL paths of ctor with long-lived objects,
          new_empty_file() + append at the end of every ctor path; (3) CASE lines through format_field (list / iterator
          / generator, positional / keyword), through the generator itself (the joined text of what it yields), read back by
          the real parser + list interpretation, and through reformat_when_finished() / value_formatter(..., True) of a
          list view over an arbitrary layout of the same tokens; TOK lines through the FormatterContentToken
          constructors.  code -> spec: random histories of 10-40 calls on random documents (1-3 paragraphs, duplicated
          fields, 257 fields, 257 comment lines, free paragraphs built on the way) validated by TLC; random
          format_field calls validated by TLC.
faults:   notes/SIZE_STRESS.md part 5 -- caller-supplied objects that fail while they are read are ordinary steps of the
          model (FaultOut: the caller's exception, nothing changed) and of both binding legs: a list of comment lines
          whose iteration raises after k lines, a mapping whose items() raises after k items, a token iterator that
          raises after k tokens (the identical valid call afterwards must answer as before), dump(fd) with an fd whose
          k-th write fails; the history goes on with the ordinary calls.
leaks:    all scratch documents and worlds of a run stay alive; caller-owned lists are mutated after the call;
          dump() is called twice; a second new_empty_file() created before the appends must stay empty; held elements
          are re-observed after every call; identical format_field calls are repeated and the generator is consumed
          besides format_field; two live generators are advanced alternately.
size:     notes/SIZE_STRESS.md -- token texts of 1..8193 characters, blank runs likewise, names to 257 (comment leg)
          / 8193 (formatter: the indent is computed by TLC from the number), 257 fields, 257 comment lines, 1000
          tokens; characters: NFC/NFD twins, case hazards, BOM / ZWJ / soft hyphen / bidi, non-BMP, NBSP and other
          look-alike blanks INSIDE texts, every str.splitlines() boundary inside comment lines (set_field_* path),
          every UTF-8 trailing byte at the edges of runs.  TLC sees classes and ids only: verdicts are length
          independent by construction.

API surface (notes/API_SURFACE.md)
  entry point / variant                                                   exercised by
  set_field_to_simple_value(key, v[, preserve_..., field_comment])        replay (api simple) + trace
  set_field_from_raw_string(key, raw[, preserve_..., field_comment])      replay (api raw) + trace
  p[key] = v, p.update, p.setdefault, configured_view()[key] = v,         replay + trace (modes default / drop)
    configured_view(preserve_field_comments_on_field_updates=False)
  field_comment: list, tuple, Deb822CommentElement (held / the field's    replay + trace
    own / ill-formed); plain str                                          trace (unspecified, executed)
  key forms: str any case, (name, i), (name, -1), Deb822FieldNameToken    replay + trace
  kvpair.comment_element getter / setter (None, element, ill-formed)      replay + trace
  get_kvpair_element, iter_parts_of_type, iteration, len, dump() x 2,     every comparison of a world
    Deb822CommentElement len / iteration / convert_to_text / parent
  del, pop, remove_kvpair_element, order_first/last, sort_fields (4 ways) replay + trace
  new_empty_paragraph (class / subclass / instance), from_dict (dict,     replay (ctor) + trace
    OrderedDict, other Mapping), from_kvpairs (same / reversed / joined)
  Deb822FileElement.new_empty_file, append, iteration, dump(), dump(fd)   replay (end of every ctor path)
  list_view.append_comment(line)                                          NORM replay (entry 2)
  format_field positional / keyword, list / iterator / generator          replay + trace
  one_value_per_line_trailing_separator called directly                   replay + trace (joined text of what it yields)
  reformat_when_finished, value_formatter(f, force_reformat=True), (f, True)  replay (view leg)
  FormatterContentToken.value_token / comment_token / separator_token /   TOK replay
    from_token_or_element, is_* properties, text, str, SPACE / COMMA singletons
  insert() of paragraphs, free comments between paragraphs                out of scope (C10)

findings (KNOWN): see the list below (X17-blank-comment-line is modelled as variant "K" of the comment rule and found by TLC
          itself; X17-dup-append-parent is recognised by its exact signature in comment_x17.World.kvparent_known).
observations in the unspecified zone (executed, not judged): format_field(stock, name, sep, []) raises IndexError for a list but
          ValueError for an empty iterator; a stream ending in a comment token is refused as a list but formatted into a field that
          ends in a comment line when handed in as an iterator (or followed by separator tokens); a plain str as field_comment
          becomes one comment line per CHARACTER.
"""
import json
import os
import random
import shutil
import time
from concurrent.futures import ThreadPoolExecutor

import core
import comment_x17 as CX
import format_x17 as FX

MANIFEST = None
LEVEL = "model_checking"

EXTRA = dict(
    title="comments and formatting in the format-preserving parser: comment normalisation, field comment API, constructors, exact layout of the stock formatter",
    statement=(
        "A string handed in as a comment line (field_comment=[...], append_comment) becomes exactly one comment line: used as "
        "given when it starts with '#' and ends with a newline, otherwise trailing blanks are cut and the newline supplied, "
        "'# ' is put in front when the '#' is missing, '' is the empty comment line, an embedded newline is refused and a "
        "refused call changes nothing. The comment of a written field is what the call says (the same lines kept, "
        "none, the normalised lines, or the very element object handed in; both keywords, an ill-formed element and "
        "preserve=True on an ambiguous name are refused), position and spelling are kept, nothing else changes, an element "
        "object is in one place only with parent_element naming its holder, and comments move and disappear with their field "
        "under delete / reorder / sort / from_kvpairs; new_empty_paragraph / new_empty_file are empty and independent, from_dict "
        "is the fold of item assignments. format_field with the stock formatter returns name + ':' + first value after one "
        "space, every further value on its own line indented by len(name)+2 spaces, comment tokens as whole lines in column 0 "
        "in front of their value (leading newline when the stream starts with a comment), a non-whitespace separator after "
        "EVERY value and none otherwise, every line newline-terminated; the text is a valid field that re-reads as exactly the "
        "value tokens and comment tokens in order; invalid test data, a list ending in a comment and a stream without content "
        "are refused with ValueError."),
    technique=(
        "TLA+ specs CommentNorm (token-class model of the comment rule, 6 laws over all 1365 lines of <= 5 tokens), FieldComment "
        "(worlds with element identity; pure outcome operators; 3 closed scenarios, 4 invariants + 4 action properties), "
        "StockFormat (exact pieces, run-time contract, shape and re-read law via the C11 reference reader) model-checked by "
        "TLC with 10 spec-level negative controls; NORM / EDGE / CASE / TOK lines replayed into debian._deb822_repro through "
        "every entry point with tame / odd-character / size-stressed concretizations; recorded histories and format_field "
        "calls validated by TLC (TraceFieldComment, TraceStockFormat) with corrupted control traces."))

K_BLANK = "X17-blank-comment-line"
K_PARENT = "X17-dup-append-parent"
KNOWN = [
    dict(id=K_BLANK,
         signature="a comment line of white space only (' ', '\\t', '\\n', ' \\n') is normalised to '# ' WITHOUT newline: "
                   "set_field_to_simple_value('F', 'v', field_comment=[' ']) raises ValueError('Input is inconsistent with its "
                   "line endings...') instead of writing an empty comment line, and with a list view append_comment(' ') "
                   "followed by append('zz') silently loses BOTH the comment and the value zz (document unchanged, no error); "
                   "expected '#\\n' (like the empty string)"),
    dict(id=K_PARENT,
         signature="a field ADDED to a paragraph of the duplicate-fields class (parse_deb822_file(..., "
                   "accept_files_with_duplicated_fields=True) on 'A: 1\\nB: 2\\nA: 3\\n'; p['C'] = 'x') has "
                   "get_kvpair_element('C').parent_element None / the temporary parse paragraph instead of p "
                   "(Deb822DuplicateFieldsParagraphElement.set_kvpair_element forgets value.parent_element = self on the append path)"),
]
KNOWN_IDS = {k["id"] for k in KNOWN}

FC_PROPS = ["ErrAtomic", "Frame", "ModeLaw", "MovesWhole"]
FC_INVS = ["InvOwnership", "InvLinesWF", "InvDetachAttach", "InvModeAlgebra"]
FC_NEGS = [("StoreBroken", "InvLinesWF"), ("ElemStays", "InvOwnership"), ("MoveLeavesComment", "MovesWhole"),
           ("ErrDropsComment", "ErrAtomic"), ("KeepCopies", "InvModeAlgebra")]
SF_NEGS = ["nosep", "indent1", "nofirstnl", "keepsep"]


def fc_cfg(scn, maxops, emit, neg=""):
    t = lambda b: "TRUE" if b else "FALSE"     # noqa: E731
    out = ["CONSTANTS", '  Scn = "%s"' % scn, "  MaxOps = %d" % maxops, "  MaxH = 3", "  Emit = %s" % t(emit), '  Neg = "%s"' % neg,
           "SPECIFICATION FcSpec"]
    out += ["INVARIANT " + x for x in FC_INVS] + ["PROPERTY " + x for x in FC_PROPS]
    out += ["VIEW FcView", "CHECK_DEADLOCK FALSE", ""]
    return "\n".join(out)


def sf_cfg(maxinp, namelens, emit, bad=""):
    return "\n".join(["CONSTANTS", "  MaxInp = %d" % maxinp, "  NameLens = {%s}" % ", ".join(map(str, namelens)),
                      "  Emit = %s" % ("TRUE" if emit else "FALSE"), '  BadShip = "%s"' % bad, "SPECIFICATION SfSpec",
                      "INVARIANT InvLayout", "INVARIANT InvEmit", "CHECK_DEADLOCK FALSE", ""])


def read_lines(path, tags):
    """fast reader of the JSON lines TLC printed (core's generic parser is too slow for 10^4..10^5 lines)"""
    out = {t: [] for t in tags}
    pre = {t: '<<"%s", "' % t for t in tags}
    with open(path, errors="replace") as f:
        for line in f:
            if line.startswith('<<"'):
                for t in tags:
                    if line.startswith(pre[t]):
                        out[t].append(json.loads(line[len(pre[t]):-4].replace('\\"', '"').replace("\\\\", "\\")))
                        break
    return out


class Known(object):
    def __init__(self):
        self.hits, self.example = {}, {}

    def hit(self, kid, example):
        self.hits[kid] = self.hits.get(kid, 0) + 1
        self.example.setdefault(kid, example)


# ------------------------------------------------------------------ (1) the comment rule through its entry points

ENTRIES = ["simple", "raw", "append_comment"]


def norm_case(case, entry, seed):
    """-> None | ("known", id, example) | ("viol", message)"""
    rng = random.Random("x17-norm-%s" % seed)
    conc = CX.Conc(seed, seed % 3, nosplit=(entry == "append_comment"))
    line = conc.line(case["s"])
    want = [conc.line(case["o"]["r"])] if case["o"]["e"] == "ok" else None
    if want and case["alt"] != case["o"]["r"]:
        want.append(conc.line(case["alt"]))
    before = "First: 1\n# old comment\nTarget: a b\nLast: z\n"
    f = CX.parse(before, "list")
    CX.keep_alive.append(f)
    para = next(iter(f))
    pre = ["# leading line\n"] if rng.random() < 0.3 else []
    exc = None
    try:
        if entry == "simple":
            para.set_field_to_simple_value("target", "new value", field_comment=pre + [line])
        elif entry == "raw":
            para.set_field_from_raw_string("Target", " new value\n", field_comment=tuple(pre + [line]))
        else:
            from debian._deb822_repro import LIST_SPACE_SEPARATED_INTERPRETATION, LIST_COMMA_SEPARATED_INTERPRETATION
            interp = rng.choice([LIST_SPACE_SEPARATED_INTERPRETATION, LIST_COMMA_SEPARATED_INTERPRETATION])
            with para.as_interpreted_dict_view(interp)["Target"] as lst:
                old = list(lst)
                lst.append_comment(line)
                lst.append("zz")
    except Exception as ex:      # noqa: BLE001 -- an exception of the library is an observation
        if not CX.from_repo(ex):
            raise
        exc = ex
    got = f.dump()
    what = "%s with the comment line %r" % (entry, CX.clip(line, 200))
    if case["o"]["e"] == "bad":
        if isinstance(exc, ValueError) and got == before:
            return None
        return ("viol", "%s: %s, document %r; the specification says ValueError and nothing changes"
                % (what, "raised " + type(exc).__name__ if exc else "no exception", CX.clip(got)))
    if exc is None:
        if entry != "append_comment":
            for w in want:
                if got == "First: 1\n" + "".join(pre) + w + "Target: new value\nLast: z\n":
                    return None
        else:
            kv = para.get_kvpair_element("Target")
            text = kv.convert_to_text()
            inner = [ln for ln in CX.lines_keepends(text)[1:] if ln.startswith("#")]
            vals = list(kv.interpret_as(interp))
            if vals == old + ["zz"] and text.startswith("# old comment\nTarget: a b") and len(inner) == 1 and inner[0] in want \
                    and got == "First: 1\n" + text + "Last: z\n":
                return None
    # the as-built outcome of the open finding, exactly
    if case["k"]["e"] == "broken":
        if entry != "append_comment" and isinstance(exc, ValueError) and got == before:
            return ("known", K_BLANK, what + " raises ValueError")
        if entry == "append_comment" and exc is None and got == before:
            return ("known", K_BLANK, what + " + append('zz'): document unchanged, comment and value lost")
    return ("viol", "%s: %s, document %r; the specification says the comment line %r"
            % (what, "raised %s: %s" % (type(exc).__name__, exc) if exc else "no exception", CX.clip(got), [CX.clip(w, 200) for w in want]))


# ------------------------------------------------------------------ (2) worlds of FieldComment

API_COUNT, FORM_COUNT = {}, {}
DRIFTS = []


def judge(world, edge, res):
    """-> None | ("known", id) | ("viol", message)"""
    cands = [(edge["res"], edge["to"])]
    if not edge["a"]["same"]:
        cands.append((edge["a"]["e"], edge["a"]["w"]))
    msgs = []
    for er, ew in cands:
        if res != er:
            msgs.append("outcome %s, the specification says %s" % (res, er))
            continue
        d = world.diff(ew)
        if d is None:
            return None
        msgs.append("outcome %s; %s" % (res, d))
    if not edge["k"]["same"] and res == edge["k"]["e"] and world.diff(edge["k"]["w"]) is None:
        return ("known", K_BLANK)
    if not edge["c"]["same"] and res == edge["c"]["e"] and world.diff(edge["c"]["w"], adopt=True) is None:
        return ("drift", "a kept comment lives on in a NEW Deb822CommentElement object (same lines): the specification keeps the object")
    return ("viol", msgs[0])


def describe_call(conc, c):
    bits = [c["op"]]
    if c["p"]:
        bits.append("paragraph %d" % c["p"])
    if c["op"] == "fset":
        bits.append("field_comment = a list of %d lines whose iteration raises after %d" % (len(c["m"]["cl"]), c["j"]))
    if c["op"] == "fdict":
        bits.append("from_dict(mapping of %d items whose items() raises after %d)" % (len(c["it"]), c["j"]))
    if c["op"] in ("set", "del", "move", "fset"):
        k = c["key"]
        bits.append("key %r%s" % (conc.spelled(k["n"], k["s"]), "" if k["i"] == -1 else " occurrence %d" % k["i"]))
    if c["op"] == "set":
        m = c["m"]
        bits.append("mode %s" % m["k"])
        if m["k"] in ("list", "confK", "confD"):
            bits.append("field_comment=%r" % ([CX.clip(x, 120) for x in conc.lines(m["cl"])],))
        if m["k"] == "elem":
            bits.append("element of handle %d" % m["h"])
        bits.append("value %r" % CX.clip(conc.value(c["v"])["stored"], 120))
    if c["op"] == "cmt":
        bits.append("field %d, comment_element = %s" % (c["j"], {"none": "None", "bad": "ill-formed element"}.get(c["x"], "element of handle %d" % c["m"]["h"])))
    if c["x"] and c["op"] not in ("cmt",):
        bits.append(c["x"])
    return ", ".join(bits)


def run_edge(scn, edge, cseed, stress, rseed, known):
    """one EDGE on a world built for its from-state -> None or message"""
    conc = CX.Conc(cseed, stress)
    rng = random.Random("x17-edge-%s" % rseed)
    world = CX.World(conc, edge["from"], rng)
    world.deep = rseed % 3 == 0
    if rseed % 8 == 0:
        d = world.diff(edge["from"])
        if d is not None:
            return "the start world could not be built: %s" % d
    res = world.apply(edge["call"], rng)
    v = judge(world, edge, res)
    if edge["call"]["op"] in ("set", "fset"):
        API_COUNT[world.last_api] = API_COUNT.get(world.last_api, 0) + 1
    FORM_COUNT[conc.form] = FORM_COUNT.get(conc.form, 0) + 1
    for _ in world.kvparent_hits:
        known.hit(K_PARENT, "%s on %r" % (describe_call(conc, edge["call"]), CX.clip(conc.file_text(edge["from"]), 200)))
    if v is None:
        return None
    if v[0] == "known":
        known.hit(v[1], describe_call(conc, edge["call"]))
        return None
    if v[0] == "drift":
        DRIFTS.append(v[1])
        return None
    return "%s (api %s) on %r: %s" % (describe_call(conc, edge["call"]), getattr(world, "last_api", "-"), CX.clip(conc.file_text(edge["from"]), 300), v[1])


def run_path(scn, start, path, cseed, stress, rseed, known, with_file):
    """a path of EDGEs on ONE long-lived world -> None or message"""
    conc = CX.Conc(cseed, stress)
    rng = random.Random("x17-path-%s" % rseed)
    world = CX.World(conc, start, rng, free=(scn == "ctor"))
    last = start
    for i, edge in enumerate(path):
        res = world.apply(edge["call"], rng)
        v = judge(world, edge, res)
        if v is not None and v[0] == "known":
            known.hit(v[1], describe_call(conc, edge["call"]))
            return None                     # the world left the statement's state: the path ends here
        if v is not None and v[0] == "drift":
            DRIFTS.append(v[1])
            return None
        if v is not None:
            return "step %d of a history, %s (api %s): %s" % (i + 1, describe_call(conc, edge["call"]), getattr(world, "last_api", "-"), v[1])
        last = edge["to"]
    for _ in world.kvparent_hits:
        known.hit(K_PARENT, "history ending in %s" % describe_call(conc, path[-1]["call"]))
    if with_file and path:
        d = world.file_diff(last, path[-1]["file"])
        if d is not None:
            return "after %d calls (%s): %s" % (len(path), describe_call(conc, path[-1]["call"]), d)
    return None


def _job(job):
    """one replay job in a worker process -> (message or None, known hits, setter entry points, input forms, diagnostics)"""
    kind, case = job
    known = Known()
    API_COUNT.clear()
    FORM_COUNT.clear()
    del DRIFTS[:]
    hits = []
    if kind == "norm":
        v = norm_case(case["case"], case["entry"], case["seed"])
        msg = v[1] if v is not None and v[0] == "viol" else None
        if v is not None and v[0] == "known":
            hits.append((v[1], v[2]))
    elif kind == "edge":
        msg = run_edge(case["scn"], case["edge"], case["cseed"], case["stress"], case["rseed"], known)
    elif kind == "path":
        msg = run_path(case["scn"], case["start"], case["path"], case["cseed"], case["stress"], case["rseed"], known, case["scn"] == "ctor")
    elif kind == "fmt":
        msg = fmt_case(case["case"], case["seed"], known)
    else:
        msg = view_case(case["case"], case["seed"])
    for kid, n in known.hits.items():
        hits.extend([(kid, known.example[kid])] * n)
    return msg, hits, dict(API_COUNT), dict(FORM_COUNT), list(DRIFTS)


def strip_edge(e):
    return {k: e[k] for k in ("from", "call", "res", "to", "a", "k", "c", "file")}


def wkey(w):
    return json.dumps(w, sort_keys=True, separators=(",", ":"))


# ------------------------------------------------------------------ (3) the stock formatter

def fmt_case(case, seed, known):
    """one CASE line through format_field, the generator and the real reader -> None or message"""
    rng = random.Random("x17-fmt-%s" % seed)
    stress = seed % 3
    stream = FX.Stream(case["inp"], case["sep"], rng, stress)
    name = FX.name_of_len(rng, case["nl"])
    septok = stream.sep_token(rng)
    res, text = FX.call_format_field(name, septok, stream.toks, case["form"], rng)
    want = case["r"]["v"]
    what = "format_field(stock, %r, %s separator, %s of %s)" % (name, case["sep"], case["form"], [CX.clip(t, 60) for t in stream.texts])
    if want == "unspec":
        return None
    if want == "ValueError":
        if res == "ValueError":
            return None
        return "%s: %s; the specification says ValueError" % (what, "returned %r" % CX.clip(text) if res == "ok" else "raised " + res)
    if res != "ok":
        return "%s raised %s (%s); the specification says the text %r" % (what, res, text, CX.clip(stream.text_of(name, case["r"]["out"], septok.text)))
    exp = stream.text_of(name, case["r"]["out"], septok.text)
    if text != exp:
        return "%s returned %r; the specification says %r" % (what, CX.clip(text), CX.clip(exp))
    gen = FX.generator_text(name, septok, stream.toks)
    if name + ":" + gen != exp:
        return "%s: the formatter called directly yields %r; the specification says %r" % (what, CX.clip(gen), CX.clip(exp[len(name) + 1:]))
    if case["sep"] in ("sp", "cm") and not (case["sep"] == "sp" and any(t[1] == "ww" for t in case["inp"])):
        vals, cmts = FX.reread(text, name, case["sep"])
        wv = [stream.texts[i] for i, t in enumerate(case["inp"]) if t[0] == "V"]
        wc = [stream.texts[i] for i, t in enumerate(case["inp"]) if t[0] == "C"]
        if vals != wv or cmts != wc:
            return "%s: the text %r re-reads as values %r / comment lines %r; the specification says %r / %r" % (
                what, CX.clip(text), vals, cmts, wv, wc)
    return None


def view_case(case, seed):
    """the same stream as a field in an arbitrary layout, reformatted through a list view -> None or message"""
    rng = random.Random("x17-view-%s" % seed)
    stream = FX.Stream(case["inp"], case["sep"], rng, seed % 3)
    name = FX.name_of_len(rng, case["nl"])
    got, field = FX.through_view(name, stream, rng)
    exp = stream.text_of(name, case["r"]["out"], "," if case["sep"] == "cm" else " ")
    if got != exp:
        return "field %r reformatted through a list view (%s) is %r; the specification says %r" % (
            CX.clip(field), "comma" if case["sep"] == "cm" else "white space", got if isinstance(got, tuple) else CX.clip(got), CX.clip(exp))
    return None


def tok_case(case, seed):
    rng = random.Random("x17-tok-%s" % seed)
    got = FX.token_case(case["how"], case["tc"], rng)
    q = case["q"]
    if q["e"] != "ok":
        return None if got["e"] == q["e"] else "FormatterContentToken %s(%s): %s; the specification says %s" % (case["how"], case["tc"], got, q["e"])
    want = {"e": "ok", "isv": q["isv"], "isc": q["isc"], "iss": q["iss"], "isw": q["isw"], "single": q["single"], "textok": True}
    return None if got == want else "FormatterContentToken %s(%s): %s; the specification says %s" % (case["how"], case["tc"], got, want)


def interleaved(seed):
    """two live generators of the stock formatter advanced alternately: each output is recorded as a format_field-like
    call (form "iter") and judged by TLC with the other recorded calls -> [(event, info), (event, info)]"""
    rng = random.Random("x17-inter-%s" % seed)
    from debian._deb822_repro.formatter import one_value_per_line_trailing_separator as fmt
    sa, sb = rng.choice(["sp", "cm", "tab", "semi"]), rng.choice(["sp", "cm"])
    a = FX.Stream([["C", "ok", 1], ["V", "w", 2], ["S", "s", 3], ["V", "w", 4]], sa, rng, 0)
    b = FX.Stream([["V", "w", 1], ["C", "ok", 2], ["V", "hw", 3], ["V", "w", 4], ["C", "ok", 5], ["V", "w", 6]], sb, rng, 1)
    na, nb = FX.name_of_len(rng, rng.choice([1, 3, 16])), FX.name_of_len(rng, rng.choice([2, 11, 33]))
    ta, tb = a.sep_token(rng), b.sep_token(rng)
    ga, gb = fmt(na, ta, iter(a.toks)), fmt(nb, tb, iter(b.toks))
    oa, ob = [], []
    live = [(ga, oa), (gb, ob)]
    while live:
        g, o = rng.choice(live)
        try:
            o.append(str(next(g)))
        except StopIteration:
            live.remove((g, o))
    out = []
    for st, name, tok, o, sep in ((a, na, ta, oa, sa), (b, nb, tb, ob, sb)):
        text = name + ":" + "".join(o)
        ev = {"form": "iter", "sep": sep, "nl": len(name), "inp": FX.classify_tokens(st.toks),
              "res": {"v": "ok", "out": FX.lex_output(text, name, tok.text, st)}}
        out.append((ev, dict(name=name, text=text, texts=st.texts)))
    return out


# ------------------------------------------------------------------ corrupted control traces

def corrupt_fc(t, how):
    """a corrupted copy of a recorded history (cut behind the corrupted event) or None; never fails on a history
    recorded from a broken tree"""
    try:
        return _corrupt_fc(t, how)
    except (IndexError, KeyError, TypeError):
        return None


def _corrupt_fc(t, how):
    import copy
    prev = t["init"]
    for i, e in enumerate(t["events"]):
        c = None
        ok = e["res"] == "ok" and not e["unspec"]
        obs = e["obs"]
        if e["op"] in ("set", "cmt", "del", "move", "sort") and e["p"] and e["p"] <= len(obs["ps"]):
            fs = obs["ps"][e["p"] - 1]
        else:
            fs = None
        if how == "res-flip" and ok and obs != prev and e["op"] == "set":
            c = dict(e, res="ValueError")
        elif how == "line-drop" and ok and e["op"] == "set" and e["m"]["k"] == "list" and len(e["m"]["cl"]) >= 1 and fs:
            j = [k for k, f in enumerate(fs) if f["n"] == e["n"] and f["c"]["ls"]]
            if j:
                o2 = copy.deepcopy(obs)
                o2["ps"][e["p"] - 1][j[0]]["c"]["ls"].pop(0)
                if o2["ps"][e["p"] - 1][j[0]]["c"]["ls"]:
                    c = dict(e, obs=o2)
        elif how == "prefix" and ok and e["op"] == "set" and e["m"]["k"] == "list" and fs:
            for k, f in enumerate(fs):
                if f["n"] == e["n"]:
                    for li, ln in enumerate(f["c"]["ls"]):
                        if (len(ln) >= 3 and ln[0] == ["h", 0] and ln[1] == ["b", 1] and len(f["c"]["ls"]) == len(e["m"]["cl"])
                                and e["m"]["cl"][li][:2] != [["h", 0], ["b", 1]]):
                            o2 = copy.deepcopy(obs)
                            o2["ps"][e["p"] - 1][k]["c"]["ls"][li].pop(1)          # "#text" instead of "# text"
                            c = dict(e, obs=o2)
                            break
                if c:
                    break
        elif how == "handle" and ok and e["op"] == "set" and e["m"]["k"] == "elem" and fs:
            for k, f in enumerate(fs):
                if f["c"]["h"] == e["m"]["h"]:
                    o2 = copy.deepcopy(obs)
                    o2["ps"][e["p"] - 1][k]["c"]["h"] = 0          # a copy instead of the element handed in
                    c = dict(e, obs=o2)
        elif how == "held-stays" and ok and ((e["op"] == "set" and e["m"]["k"] == "elem") or (e["op"] == "cmt" and e["x"] == "elem")):
            was = [r for r in prev["held"] if r["h"] == e["m"]["h"]]
            if was:
                o2 = copy.deepcopy(obs)
                o2["held"] = sorted(o2["held"] + was, key=lambda r: r["h"])
                c = dict(e, obs=o2)
        elif how == "keep-after-drop" and ok and e["op"] == "set" and e["m"]["k"] == "drop" and fs:
            old = [f for f in prev["ps"][e["p"] - 1] if f["n"] == e["n"] and f["c"]["ls"]]
            j = [k for k, f in enumerate(fs) if f["n"] == e["n"]]
            if old and j and e["key"]["i"] == -1 and len([f for f in prev["ps"][e["p"] - 1] if f["n"] == e["n"]]) == 1:
                o2 = copy.deepcopy(obs)
                o2["ps"][e["p"] - 1][j[0]]["c"] = copy.deepcopy(old[0]["c"])
                c = dict(e, obs=o2)
        elif how == "move-leaves" and ok and e["op"] in ("move", "sort") and fs and obs != prev:
            cs = [f["c"] for f in prev["ps"][e["p"] - 1]]
            if len(cs) == len(fs) and [f["c"] for f in fs] != cs:
                o2 = copy.deepcopy(obs)
                for k in range(len(fs)):
                    o2["ps"][e["p"] - 1][k]["c"] = copy.deepcopy(cs[k])
                c = dict(e, obs=o2)
        elif how == "err-changes" and e["res"] != "ok" and not e["unspec"] and fs and e["op"] in ("set", "cmt"):
            j = [k for k, f in enumerate(fs) if f["c"]["ls"]]
            if j:
                o2 = copy.deepcopy(obs)
                o2["ps"][e["p"] - 1][j[0]]["c"] = {"h": 0, "ls": []}
                c = dict(e, obs=o2)
        elif how == "del-keeps" and ok and e["op"] == "del" and fs is not None:
            gone = [f for f in prev["ps"][e["p"] - 1] if f["n"] == e["n"] and f["c"]["ls"]]
            j = [k for k, f in enumerate(fs) if not f["c"]["ls"]]
            if gone and j:
                o2 = copy.deepcopy(obs)
                o2["ps"][e["p"] - 1][j[0]]["c"] = {"h": 0, "ls": copy.deepcopy(gone[0]["c"]["ls"])}
                c = dict(e, obs=o2)
        if c is not None:
            return {"init": t["init"], "events": t["events"][:i] + [c]}
        prev = obs
    return None


FC_HOWS = ["res-flip", "line-drop", "prefix", "handle", "held-stays", "keep-after-drop", "move-leaves", "err-changes", "del-keeps"]

FC_STATIC_CONTROL = {
    "init": {"ps": [[{"n": 1, "s": "s1", "v": 1, "c": {"h": 0, "ls": [[["h", 0], ["b", 1], ["x", 2], ["n", 0]]]}}]], "held": [], "nh": 1},
    "events": [{"op": "set", "p": 1, "n": 1, "key": {"n": 1, "s": "s1", "i": -1}, "m": {"k": "drop", "cl": [], "h": 0}, "j": 0, "x": "", "it": [],
                "v": 2, "unspec": False, "res": "ok",
                "obs": {"ps": [[{"n": 1, "s": "s1", "v": 2, "c": {"h": 0, "ls": [[["h", 0], ["b", 1], ["x", 2], ["n", 0]]]}}]], "held": [], "nh": 1}}]}


def corrupt_sf(ev, how):
    import copy
    out = ev["res"]["out"]
    if ev["res"]["v"] != "ok" or any(y[0].startswith("?") for y in out):
        return None
    content = [t for t in ev["inp"] if t[0] in ("V", "C")]
    if not content or content[-1][0] != "V" or any(t[1] in ("lead", "trail", "nohash", "nonl") for t in ev["inp"]):
        return None                         # outside the specified domain every outcome is accepted: no control from there
    c = copy.deepcopy(ev)
    o = c["res"]["out"]
    if how == "indent":
        j = [k for k, y in enumerate(o) if y[0] == "b" and y[1] > 1]
        if not j:
            return None
        o[j[0]][1] += 1
    elif how == "dropsep":
        j = [k for k, y in enumerate(o) if y[0] == "S"]
        if not j:
            return None
        o.pop(j[-1])
    elif how == "swap":
        j = [k for k, y in enumerate(o) if y[0] == "V"]
        if len(j) < 2:
            return None
        o[j[0]], o[j[1]] = o[j[1]], o[j[0]]
    elif how == "verdict":
        c["res"] = {"v": "ValueError", "out": []}
    elif how == "firstblank":
        if not o or o[0] != ["b", 1]:
            return None
        o[0] = ["b", 2]
    elif how == "nl-missing":
        j = [k for k, y in enumerate(o) if y[0] == "C"]
        if not j or j[0] != 1:
            return None
        o.pop(0)
    return c


SF_HOWS = ["indent", "dropsep", "swap", "verdict", "firstblank", "nl-missing"]


# ------------------------------------------------------------------ the check

def run(ctx):
    quick = ctx.tier == "quick"
    rng = ctx.rng
    ctx.import_repo()
    tm = ctx.extra.setdefault("phase_wall_s", {})
    known = Known()
    t0 = time.time()
    ctx.assumptions += [
        "model scope: comment lines of <= 5 tokens over 4 classes; worlds of <= 3 fields per paragraph, 3 names x 2 spellings, <= 3 element handles, histories of <= %d calls from 3 start worlds; token streams of <= %d tokens" % (2 if quick else 3, 3 if quick else 4),
        "domain: keys that resolve, values the setters accept (C05 / X10 cover rejected values), detached elements only, comment lines without str.isspace() characters other than blank / tab at their edges, list / tuple / element as field_comment, ' ' and ',' for the re-read law",
        "trusted: TLC; the projection of a paragraph through dump(), iteration, get_kvpair_element, comment_element and object identity; the real parser as the lexer of its own output (cross-checked against a line scanner written from the format); value texts of the setters (' ' + stripped text + newline: C05, X10)",
        "the tree has no one_value_per_line_formatter(indentation, trailing_separator, immediate_empty_line): the only stock formatter is one_value_per_line_trailing_separator",
    ]
    import multiprocessing
    procs = multiprocessing.get_context("fork").Pool(3)          # replay workers (forked before any thread exists)
    pool = ThreadPoolExecutor(max_workers=2)          # at most two TLC runs at a time, two workers each

    def emit_fc(scn, depth):
        r = ctx.tlc_must_hold("FieldCommentMC", fc_cfg(scn, depth, True), workers=2, keep_raw=True, want_tags=set())
        got = read_lines(r.raw_path, ["EDGE", "START"])
        shutil.rmtree(os.path.dirname(r.raw_path), ignore_errors=True)
        if len(got["EDGE"]) < 100 or len(got["START"]) != 1:
            raise core.MachineryError("scenario %s: TLC emitted %d EDGE / %d START lines" % (scn, len(got["EDGE"]), len(got["START"])))
        return got["EDGE"], got["START"][0], r

    def emit_norm():
        r = ctx.tlc_must_hold("CommentNormMC", "CommentNormMC.cfg", workers=1, keep_raw=True, want_tags=set())
        cases = read_lines(r.raw_path, ["NORM"])["NORM"]
        shutil.rmtree(os.path.dirname(r.raw_path), ignore_errors=True)
        if len(cases) != 1365:
            raise core.MachineryError("CommentNormMC printed %d NORM lines, expected 1365" % len(cases))
        return cases, r

    def emit_sf():
        r = ctx.tlc_must_hold("StockFormatMC", sf_cfg(3 if quick else 4, [1, 73] if quick else [1, 2, 9, 73], True), workers=2,
                              keep_raw=True, want_tags=set())
        got = read_lines(r.raw_path, ["CASE", "TOK"])
        shutil.rmtree(os.path.dirname(r.raw_path), ignore_errors=True)
        if len(got["CASE"]) < 1000 or len(got["TOK"]) != 13:
            raise core.MachineryError("StockFormatMC printed %d CASE / %d TOK lines" % (len(got["CASE"]), len(got["TOK"])))
        return got, r

    def neg_fc(neg, prop):
        r = ctx.tlc("FieldCommentMC", fc_cfg("uniq", 2, False, neg), workers=1, count=False)
        if r.violated != prop:
            raise core.MachineryError("negative control Neg=%s: TLC reported %r, expected a violation of %s" % (neg, r.violated, prop))
        return "%s->%s" % (neg, prop)

    def neg_sf(bad):
        r = ctx.tlc("StockFormatMC", sf_cfg(3, [1], False, bad), workers=1, count=False)
        if r.violated != "InvLayout":
            raise core.MachineryError("negative control BadShip=%s: TLC reported %r, expected a violation of InvLayout" % (bad, r.violated))
        return "%s->InvLayout" % bad

    def neg_norm():
        try:
            ctx.tlc("CommentNormMC", "CommentNormMC_asbuilt.cfg", workers=1, count=False)
        except core.MachineryError as e:
            if "Assumption" in str(e) and "is false" in str(e):
                return "AsBuilt->LawsHold (TLC finds %s)" % K_BLANK
            raise
        raise core.MachineryError("negative control CommentNormMC_asbuilt: the as-built comment rule satisfies the laws")

    depth = 2
    f_norm = pool.submit(emit_norm)
    f_fc = {scn: pool.submit(emit_fc, scn, depth if scn != "ctor" or quick else 3) for scn in ("uniq", "dup", "ctor")}
    f_sf = pool.submit(emit_sf)
    fc_negs, sf_negs = FC_NEGS, SF_NEGS
    if quick:       # a rotating half of the spec-level negative controls (all of them in the thorough tier)
        fc_negs = [FC_NEGS[(ctx.seed + k) % len(FC_NEGS)] for k in (0, 2)]
        sf_negs = [SF_NEGS[(ctx.seed + k) % len(SF_NEGS)] for k in (0, 2)]
    f_neg = [pool.submit(neg_norm)] + [pool.submit(neg_fc, n, p) for n, p in fc_negs] + [pool.submit(neg_sf, b) for b in sf_negs]
    f_deep = None
    if not quick:
        f_deep = [pool.submit(ctx.tlc_must_hold, "FieldCommentMC", fc_cfg(scn, 3, False), workers=2) for scn in ("uniq", "dup")]

    # ---- code -> spec: record while TLC runs
    t1 = time.time()
    fc_traces, fc_seeds = [], []
    plan = (["small"] * 110 + ["fields"] * 3 + ["lines"] * 3) if quick else (["small"] * 1800 + ["fields"] * 30 + ["lines"] * 30)
    rec_jobs = [(rng.getrandbits(32), size) for size in plan]
    rec_async = procs.map_async(_record_job, rec_jobs, chunksize=4)
    sf_events, sf_seeds, sf_info = [], [], []
    for i in range(400 if quick else 12000):
        tseed = rng.getrandbits(32)
        size = "long" if i % 40 == 0 else "short"
        ev, info = FX.record_call(random.Random("x17-sf-%s" % tseed), size)
        sf_events.append(ev)
        sf_seeds.append((tseed, size))
        sf_info.append(info)
    for i in range(20 if quick else 200):
        tseed = rng.getrandbits(32)
        for ev, info in interleaved(tseed):
            sf_events.append(ev)
            sf_seeds.append((tseed, "inter"))
            sf_info.append(info)
    for i in range(30 if quick else 300):
        tseed = rng.getrandbits(32)
        for ev, info in FX.record_fault(random.Random("x17-sff-%s" % tseed)):
            sf_events.append(ev)
            sf_seeds.append((tseed, "fault"))
            sf_info.append(info)
    for (tseed, size), (tr, err) in zip(rec_jobs, rec_async.get()):
        if err is not None:
            if len(ctx.violations) < 5:
                ctx.violation({"kind": "fctrace", "seed": tseed, "size": size}, err)
            continue
        fc_traces.append(tr)
        fc_seeds.append((tseed, size))
    tm["record"] = round(time.time() - t1, 1)
    batch = 80 if quick else 160
    v_fc = [(i, pool.submit(validate_fc, ctx, fc_traces[i:i + batch])) for i in range(0, len(fc_traces), batch)]
    v_sf = pool.submit(validate_sf, ctx, sf_events)

    # ---- spec -> code: the printed cases become JOBS (case + its own seeds), executed by a pool of worker processes in
    # the order they were made; the main process only collects verdicts
    t2 = time.time()
    jobs = []              # (kind, replay case without "kind", arguments of the job function)
    norm_cases, _ = f_norm.result()
    for i, case in enumerate(norm_cases):
        entries = ENTRIES if (not quick or i % 3 == 0 or case["k"]["e"] == "broken") else [ENTRIES[(i + ctx.seed) % 3]]
        for entry in entries:
            jobs.append(("norm", {"case": case, "entry": entry, "seed": rng.getrandbits(32)}))
    ctx.sample("NORM: " + json.dumps(norm_cases[700], separators=(",", ":")))
    per_op = {}
    lts = {}
    for scn in ("uniq", "dup", "ctor"):
        edges, start_world, r = f_fc[scn].result()
        lts[scn] = {"states": r.distinct, "edges": len(edges), "tlc_wall_s": round(r.wall, 1)}
        for e in edges:
            k = e["call"]["op"] + (":" + e["call"]["m"]["k"] if e["call"]["op"] == "set" else "")
            per_op[k] = per_op.get(k, 0) + 1
        by_state = {}
        for e in edges:
            by_state.setdefault(wkey(e["from"]), []).append(e)
        start = wkey(start_world)
        if start not in by_state:
            raise core.MachineryError("%s: the start world has no edges" % scn)
        if scn != "ctor":
            # every edge on a world built for its from-state (quick: every edge out of the start world, a rotating two thirds of the rest)
            for i, e in enumerate(edges):
                if quick and wkey(e["from"]) != start and (i + ctx.seed) % 3 == 0:
                    continue
                jobs.append(("edge", {"scn": scn, "edge": strip_edge(e), "cseed": rng.getrandbits(32), "stress": [0, 1, 0, 2, 1][i % 5],
                                      "rseed": rng.getrandbits(32)}))
            if scn == "uniq":
                e = edges[len(edges) // 3]
                ctx.sample("EDGE: " + json.dumps({k: e[k] for k in ("call", "res", "to")}, separators=(",", ":"))[:700])
        # histories on ONE long-lived world: all paths of ctor (quick: up to 1500), random walks otherwise
        paths = []
        if scn == "ctor":
            def rec(k, acc, d):
                outs = by_state.get(k, []) if d > 0 else []
                if not outs:
                    if acc:
                        paths.append(acc)
                    return
                for e in outs:
                    rec(wkey(e["to"]), acc + [e], d - 1)
            rec(start, [], 2 if quick else 3)
            if len(paths) > (1500 if quick else 8000):
                rng.shuffle(paths)
                paths = paths[:1500 if quick else 8000]
        else:
            for _ in range(150 if quick else 3000):
                k, acc = start, []
                for _d in range(depth):
                    outs = by_state.get(k)
                    if not outs:
                        break
                    e = rng.choice(outs)
                    acc.append(e)
                    k = wkey(e["to"])
                paths.append(acc)
        for pi, path in enumerate(paths):
            jobs.append(("path", {"scn": scn, "start": start_world, "path": [strip_edge(e) for e in path], "cseed": rng.getrandbits(32),
                                  "stress": [0, 1, 2][pi % 3], "rseed": rng.getrandbits(32)}))
    got, r_sf = f_sf.result()
    cases = got["CASE"]
    verdicts = {}
    for i, case in enumerate(cases):
        verdicts[case["r"]["v"]] = verdicts.get(case["r"]["v"], 0) + 1
        if not (quick and len(case["inp"]) == 3 and case["r"]["v"] != "ok" and (i + ctx.seed) % 2):
            jobs.append(("fmt", {"case": case, "seed": rng.getrandbits(32)}))
        if (case["r"]["v"] == "ok" and case["sep"] in ("sp", "cm") and case["form"] == "list"
                and not any(t[1] == "ww" and case["sep"] == "sp" for t in case["inp"])):
            jobs.append(("view", {"case": case, "seed": rng.getrandbits(32)}))
    tm["make_jobs"] = round(time.time() - t2, 1)
    t3 = time.time()
    counts = {}
    apis, forms = {}, {}
    for (kind, case), (msg, hits, api_c, form_c, drifts) in zip(jobs, procs.imap(_job, jobs, chunksize=40)):
        counts[kind] = counts.get(kind, 0) + 1
        ctx.case_seen((kind, counts[kind]))
        for kid, ex in hits:
            known.hit(kid, ex)
        for k, v in api_c.items():
            apis[k] = apis.get(k, 0) + v
        for k, v in form_c.items():
            forms[k] = forms.get(k, 0) + v
        DRIFTS.extend(drifts)
        if msg:
            ctx.violation(dict(case, kind=kind), msg)
            if len(ctx.violations) >= 5:
                break
    procs.terminate()
    tm["jobs_replay"] = round(time.time() - t3, 1)
    n_edges, n_paths = counts.get("edge", 0), counts.get("path", 0)
    ctx.extra["lts"] = lts
    ctx.extra["edges_per_call"] = per_op
    ctx.extra["edges_replayed"] = n_edges
    ctx.extra["histories_replayed"] = n_paths
    ctx.extra["norm_cases_replayed"] = counts.get("norm", 0)
    ctx.extra["setter_entry_points"] = apis
    ctx.extra["file_object_kinds"] = forms
    n_fmt, n_view = counts.get("fmt", 0), counts.get("view", 0)
    for case in got["TOK"]:
        seed = rng.getrandbits(32)
        msg = tok_case(case, seed)
        ctx.case_seen(("tok", case["how"], case["tc"]))
        if msg:
            ctx.violation({"kind": "tok", "case": case, "seed": seed}, msg)
    ctx.sample("CASE: " + json.dumps(cases[len(cases) // 2], separators=(",", ":"))[:500])
    ctx.extra["format_cases"] = {"printed": len(cases), "replayed": n_fmt, "through_list_view": n_view, "verdicts": verdicts,
                                 "tlc_states": r_sf.distinct, "tlc_wall_s": round(r_sf.wall, 1)}

    # ---- spec-level negative controls, deep design runs
    ctx.extra["negative_controls_spec"] = [f.result() for f in f_neg]
    if f_deep:
        ctx.extra["deep_design_runs"] = [{"distinct": f.result().distinct, "generated": f.result().generated} for f in f_deep]

    # ---- verdicts of the trace validations
    t5 = time.time()
    nrej = ncontrols = 0
    for base, f in v_fc:
        rejected, info, notes, nc = f.result()
        ncontrols += nc
        for tid, kid, l in notes:
            if kid in KNOWN_IDS:
                known.hit(kid, describe_event(fc_traces[base + tid - 1], l - 1))
            else:
                DRIFTS.append("recorded history: " + kid)
        for i in rejected:
            nrej += 1
            if len(ctx.violations) >= 5:
                continue
            at = info.get(i, 0)
            tseed, size = fc_seeds[base + i - 1]
            ctx.violation({"kind": "fctrace", "seed": tseed, "size": size, "first_unexplained_event": at + 1},
                          "recorded history not explained by FieldComment (after %d accepted events): %s" % (at, describe_event(fc_traces[base + i - 1], at)))
    rej_sf, nc = v_sf.result()
    ncontrols += nc
    for i in rej_sf:
        nrej += 1
        if len(ctx.violations) >= 5:
            continue
        ev, info = sf_events[i - 1], sf_info[i - 1]
        tseed, size = sf_seeds[i - 1]
        ctx.violation({"kind": "sftrace", "seed": tseed, "size": size},
                      "format_field(stock, name of %d characters, %s separator, %s of %d tokens) -> %s %s; StockFormat does not explain it (texts %s)"
                      % (ev["nl"], ev["sep"], ev["form"], len(ev["inp"]), ev["res"]["v"], CX.clip(repr(info["text"]), 300), CX.clip(repr(info["texts"]), 300)))
    pool.shutdown()
    tm["validate_wait"] = round(time.time() - t5, 1)
    ctx.traces += n_paths + n_edges + len(fc_traces) + len(sf_events)
    ctx.evaluations += len(fc_traces) + len(sf_events)
    for i in range(len(fc_traces)):
        ctx.distinct.add(("fctrace", i))
    ctx.extra["traces_recorded"] = {"comment_histories": len(fc_traces), "comment_events": sum(len(t["events"]) for t in fc_traces),
                                    "format_calls": len(sf_events), "format_verdicts": _count(e["res"]["v"] for e in sf_events),
                                    "unspecified_events": sum(1 for t in fc_traces for e in t["events"] if e["unspec"])}
    ctx.extra["traces_rejected"] = nrej
    ctx.extra["control_traces"] = ncontrols
    if fc_traces:
        e = fc_traces[0]["events"][0]
        ctx.sample("recorded event: " + json.dumps(dict(e, obs="..."), separators=(",", ":"), ensure_ascii=False)[:400])
    for d in sorted(set(DRIFTS)):
        ctx.drift("%s (%d times)" % (d, DRIFTS.count(d)))
    del DRIFTS[:]
    ctx.extra["known_findings"] = {k["id"]: {"occurrences": known.hits.get(k["id"], 0), "example": known.example.get(k["id"])} for k in KNOWN}
    tm["total"] = round(time.time() - t0, 1)
    for k in KNOWN:
        if known.hits.get(k["id"]):
            print("KNOWN-FINDING: extra=X17 %s (%d occurrences; id=%s; e.g. %s)" % (k["signature"], known.hits[k["id"]], k["id"], known.example[k["id"]][:300]))


def _count(it):
    out = {}
    for x in it:
        out[x] = out.get(x, 0) + 1
    return out


def _record_job(job):
    """-> (trace, None) | (None, message): an exception of the library while a history is recorded is an observation"""
    tseed, size = job
    rng = random.Random("x17-fc-%s" % tseed)
    try:
        rec = CX.Recorder(rng, size)
        for _ in range(rng.choice([10, 20, 30, 40]) if size == "small" else rng.choice([10, 20])):
            rec.step()
    except Exception as ex:      # noqa: BLE001
        if not CX.from_repo(ex):
            raise
        import traceback
        return None, "unexpected %s from the library while recording a history: %s" % (type(ex).__name__, traceback.format_exc().strip().splitlines()[-3:])
    return rec.trace(), None


def record_fc(tseed, size):
    return _record_job((tseed, size))[0]


def validate_fc(ctx, traces, with_controls=True):
    """-> (rejected trace numbers, first unexplained event per rejected trace, known notes, number of controls)"""
    controls = []
    if with_controls:
        controls.append(FC_STATIC_CONTROL)
        for how in FC_HOWS:
            for t in traces:
                c = corrupt_fc(t, how)
                if c:
                    controls.append(c)
                    break
    env = {"TRACE_DIAG": "0", "KNOWN_BLANK": "1" if K_BLANK in KNOWN_IDS else "0"}
    acc, _, r = core.validate_traces(ctx, "TraceFieldComment", "TraceFieldComment.cfg", traces, extra_env=env, controls=controls)
    notes = [tuple(x) for x in r.printed.get("REJECT", []) if x[0] <= len(traces)]
    rejected = [i for i in range(1, len(traces) + 1) if i not in acc]
    info = {}
    if rejected:
        sub = [traces[i - 1] for i in rejected[:10]]
        _, prog, _ = core.validate_traces(ctx, "TraceFieldComment", "TraceFieldComment.cfg", sub, extra_env=dict(env, TRACE_DIAG="1"))
        for j, i in enumerate(rejected[:10]):
            info[i] = prog.get(j + 1, 0)
    return rejected, info, notes, len(controls)


def validate_sf(ctx, events, with_controls=True):
    controls = []
    if with_controls:
        for how in SF_HOWS:
            for ev in events:
                c = corrupt_sf(ev, how)
                if c:
                    controls.append(c)
                    break
        if len(controls) < 4:
            raise core.MachineryError("only %d corrupted format_field calls could be derived" % len(controls))
    acc, _, r = core.validate_traces(ctx, "TraceStockFormat", "TraceStockFormat.cfg", events, controls=controls)
    return [i for i in range(1, len(events) + 1) if i not in acc], len(controls)


def describe_event(tr, at):
    if at >= len(tr["events"]):
        return "(end of history)"
    e = tr["events"][at]
    prev = tr["events"][at - 1]["obs"] if at else tr["init"]
    show = lambda w: json.dumps({"ps": [[[f["n"], f["s"], f["v"], f["c"]["h"], f["c"]["ls"]] for f in fs][:6] for fs in w["ps"]],      # noqa: E731
                                 "held": w["held"], "nh": w["nh"]}, separators=(",", ":"))[:700]
    return "event %d: %s -> %s; world before %s, after %s" % (
        at + 1, json.dumps({k: e[k] for k in ("op", "p", "n", "key", "m", "j", "x", "it", "v", "unspec")}, separators=(",", ":"))[:500],
        e["res"], show(prev), show(e["obs"]))


def replay(ctx, case):
    ctx.import_repo()
    known = Known()
    kind = case.get("kind")
    if kind == "norm":
        v = norm_case(case["case"], case["entry"], case["seed"])
        return v[1] if v is not None and v[0] == "viol" else None
    if kind == "edge":
        return run_edge(case["scn"], case["edge"], case["cseed"], case["stress"], case["rseed"], known)
    if kind == "path":
        return run_path(case["scn"], case["start"], case["path"], case["cseed"], case["stress"], case["rseed"], known, case["scn"] == "ctor")
    if kind == "fmt":
        return fmt_case(case["case"], case["seed"], known)
    if kind == "view":
        return view_case(case["case"], case["seed"])
    if kind == "tok":
        return tok_case(case["case"], case["seed"])
    if kind == "fctrace":
        tr = record_fc(case["seed"], case["size"])
        if tr is None:
            return "the library still raises while the history is recorded"
        rejected, info, _, _ = validate_fc(ctx, [tr], with_controls=False)
        return "history still not explained by the specification: %s" % describe_event(tr, info.get(1, 0)) if rejected else None
    if kind == "sftrace":
        if case["size"] == "inter":
            pairs = interleaved(case["seed"])
        elif case["size"] == "fault":
            pairs = FX.record_fault(random.Random("x17-sff-%s" % case["seed"]))
        else:
            pairs = [FX.record_call(random.Random("x17-sf-%s" % case["seed"]), case["size"])]
        rej, _ = validate_sf(ctx, [ev for ev, _ in pairs], with_controls=False)
        return "format_field call still not explained by the specification: %s" % "; ".join(
            "%s -> %r" % (pairs[i - 1][0]["res"]["v"], CX.clip(repr(pairs[i - 1][1]["text"]), 300)) for i in rej) if rej else None
    return "unknown case kind"
