"""X06 (extra) -- the look-ahead machinery of the format-preserving parser:
debian._deb822_repro._util.BufferingIterator, len_check_iterator, combine_into_replacement.

STATEMENT
  (a) BufferingIterator.  For every source (any iterable: its items s1 s2 ... up to the first time
      its iterator signals the end) and every history of calls on one BufferingIterator, also
      interleaved with histories on other live instances:
      * the concatenation of everything handed out by consuming calls (next / for, consume_many,
        the items a takewhile result yields) is a prefix of the source in source order, every item
        exactly once and as the very object the source produced;
      * with R the not yet consumed remainder: peek() / peek_at(k>=1) return R[k] or None when R is
        shorter; peek_many(n>=0) and consume_many(n>=0) return a new list of the first min(n,|R|)
        items (consume_many consumes them, nothing else does); peek_find(p, limit) returns the
        1-based offset of the first item of R satisfying p among the first `limit` items (all when
        limit is None / omitted) or None, whatever truthy / falsy values p returns;
        takewhile(p) is lazy: each step hands out (and consumes at that moment) the head of R
        while it satisfies p and ends -- without consuming it -- at the first item that does not,
        also when other calls are made between its steps, when several results are alive, when a
        result is closed or abandoned; peeking calls never consume;
      * the source is read exactly as far as the calls so far required (observable with a counting
        source), except that takewhile / peek_find read in chunks of 5: never more than 4 items
        beyond the demand; peek_buffer() returns a new list of exactly the items read but not
        consumed; lists handed out are the caller's (mutating them changes nothing);
      * once the source has signalled its end it is never asked again and the iterator stays
        exhausted [KNOWN finding X06-next-does-not-latch: __next__ does not set _expired];
      * an exception raised by the source reaches the caller of the call that needed the item,
        nothing is consumed by that call (an interrupted takewhile result is finished), items read
        before stay available in order.
      Unspecified (never generated): items that are None; negative arguments and peek_at(0);
      list(takewhile(p)) over a source that raises (list() drops what it had collected).
  (b) len_check_iterator(content, stream, content_len=None) yields the items of the stream
      unchanged, in order, one source read per item, and then ends normally iff the text lengths of
      all tokens (an item with iter_tokens() counts the tokens it yields, any other item its own
      .text; lengths in code points) add up to content_len (default len(content)); otherwise it
      raises ValueError ("did not fully cover" when too short, "more text than was present" when
      too long) -- after, not instead of, the last item.
  (c) combine_into_replacement(source_class, replacement_class, constructor=None)(stream) yields the
      items of the stream in order, every maximal run of consecutive isinstance(item, source_class)
      items replaced by ONE constructor(list of the run, in order) (constructor defaults to
      replacement_class), lazily (a run is handed out when the item after it -- or the end -- has
      been read, never later), the lists given to the constructor stay as they were handed over,
      and the returned function keeps no state between or across concurrently running streams.

API surface (notes/API_SURFACE.md): entry point / variant -> leg
  BufferingIterator(stream): ScriptSource iterator, Iterable that is not an Iterator, list, tuple,
      deque, dict (keys), iter(list), itertools.chain, generator function, generator expression,
      another BufferingIterator (nested), len_check_iterator generator (as parsing._parse_str
      builds it)                                           -> replay (rotating) + histories (random)
  next(bi) / bi.__next__() / next(bi, default) / for x in bi: break           -> both legs, drawn per call
  iter(bi) is bi, isinstance(bi, collections.abc.Iterator)                     -> protocol probe in run()
  peek() vs peek_at(1); peek_at(k) / peek_at(tokens_ahead=k)                   -> both legs
  peek_many(n) / peek_many(number=n); consume_many(n) / consume_many(count=n)  -> both legs
  peek_find(p) / (p, None) / (p, limit) / (predicate=p, limit=l)               -> both legs
  takewhile(p) / takewhile(predicate=p); consumed by next(), for, list(), list
      comprehension, extend(), tuple(); close(); abandoned                     -> both legs
  predicates: function, int / str / list-or-None returning lambdas, functools.partial, callable
      object, bound method                                                     -> both legs, drawn per call
  peek_buffer()                                                                -> both legs (end of every replayed path)
  private attributes _buffer/_stream/_expired and _fill_buffer                 -> not public: not touched
  len_check_iterator(content, stream) / (content, stream, content_len) / content_len=None;
      tokens with .text, elements with iter_tokens() (fakes and real Deb822 tokens / elements)
                                                                              -> CASE replay + histories
  combine_into_replacement(S, R) / (S, R, constructor=f); subclasses of S; the four combiners of
      debian._deb822_repro.parsing on real tokens                              -> CASE replay + histories

spec:    spec/LookAhead.tla       reference: plain sequence semantics (src, pos, demand hi, out)
         spec/LookAheadBuf.tla    implementation layer (_buffer, _stream as a script, _expired, polls)
         spec/MC_LookAhead.tla    script families; spec/TraceLookAhead.tla trace validation
         spec/StreamGlue.tla, spec/TraceStreamGlue.tla   (b) and (c)
model checking: every history over the script family (all class sequences of <= 2 (thorough 3) items
         with at most one raising entry and the tails none / resuming / raising-when-asked-again, and
         marked sequences of 6 (and 11) items that cross the read-ahead chunk) x calls with arguments
         0..7, limits None/0..11, 3-4 predicates, 1-2 live takewhile results: SameResult (action
         property), Refines, OutIsPrefix, ReadAhead, NoRepoll, ExpiredOK, GensAgree, PeekPure,
         Monotone, ErrAtomic; ClosedOK (closed forms of the three loops = transcribed loops).
         Spec-level negative controls re-run in every check (TLC must report the named property):
         Latch=FALSE (the code as it is) -> NoRepoll and SameResult; Bug="discard" (itertools.takewhile
         behaviour), "overconsume", "peekpops" -> Refines; StreamGlue: Bug="sharelist" -> HandedStable,
         "exacttype" -> CombRefines, "lenok" -> OutcomeOK.
binding: spec -> code: the complete implementation-layer LTS (EDGE lines with TLC's result, poll
         count and buffer for every transition) is replayed transition by transition (shortest path
         + transition, two live objects interleaved, rotating source kinds / item styles / call
         variants, results kept alive and mutated), plus random walks; CASE lines of StreamGlue.
         code -> spec: random histories on 1-3 interleaved live objects over random scripts of
         0..257 and 10^4 items (size stress: peek_many(10^4), peek_at(10^4), consume_many(256),
         peek_find hitting at 257 / 10^4, takewhile over 10^4) recorded with poll counts and
         validated by TLC (TraceLookAhead, closed forms: no recursion), with corrupted control traces
         that must be rejected.  A history in which the source was asked again after its end is
         validated against the implementation layer with Latch = FALSE: accepted there = the KNOWN
         finding, rejected = violation.
         Items are opaque objects (compared by identity): character stress does not apply, except
         token texts of len_check_iterator (non-BMP, combining marks: lengths in code points).
"""
import json
import os
import random
import threading
from concurrent.futures import ThreadPoolExecutor

import core
import glue_x06 as G
import lookahead_x06 as L

MANIFEST = None
LEVEL = "model_checking"

EXTRA = dict(
    title="Look-ahead machinery of the format-preserving parser: BufferingIterator, len_check_iterator, combine_into_replacement",
    statement=(
        "For every source iterable and every history of calls on a BufferingIterator (also interleaved with other live "
        "instances), everything handed out by consuming calls (next, consume_many, takewhile results) is a prefix of the "
        "source in source order, each item exactly once and by identity; peek / peek_at / peek_many / peek_find / "
        "peek_buffer never consume and answer exactly about the not yet consumed remainder (k-th item or None, first "
        "min(n, rest) items as a new list, 1-based offset of the first item satisfying the predicate within the limit or "
        "None); takewhile is lazy and leaves the first non-matching item unconsumed; the source is read exactly as far as "
        "demanded (at most 4 items further for takewhile / peek_find), never again after it signalled its end, and an "
        "exception of the source reaches the caller without losing or consuming anything. len_check_iterator passes its "
        "stream through unchanged and raises ValueError after the last item iff the token text lengths do not add up to "
        "content_len (default len(content)); combine_into_replacement replaces every maximal run of source_class items "
        "by one constructor(run) lazily, in order, without state between streams."),
    technique=(
        "TLA+ reference (plain sequence semantics) + implementation layer (deque, scripted counting source, _expired) "
        "model-checked by TLC for all histories over bounded script families (refinement, read-ahead bound, no re-poll, "
        "closed forms = transcribed loops) with 5+3 spec-level negative controls; complete LTS replayed into the real "
        "class; recorded histories on interleaved live objects with sources up to 10^4 items validated by TLC with "
        "corrupted control traces."))

KNOWN = [
    dict(id="X06-next-does-not-latch",
         signature="BufferingIterator.__next__ does not set _expired when the wrapped iterator raises StopIteration: "
                   "the source is asked again by every later call, and a source that resumes (e.g. script a, END, b: "
                   "next -> a, next -> StopIteration, next -> b) makes the iterator yield items after it has raised "
                   "StopIteration, whereas the same end observed by peek()/peek_many()/... is final"),
]

HANG_S = 20      # a batch of calls into the code under test that takes longer is reported as a hang

NEG_CONTROLS = [
    ("MC_LookAhead", "MC_LookAhead_neg_asis_repoll.cfg", "NoRepoll"),
    ("MC_LookAhead", "MC_LookAhead_neg_asis_result.cfg", "SameResult"),
    ("MC_LookAhead", "MC_LookAhead_neg_discard.cfg", "Refines"),
    ("MC_LookAhead", "MC_LookAhead_neg_overconsume.cfg", "Refines"),
    ("MC_LookAhead", "MC_LookAhead_neg_peekpops.cfg", "Refines"),
    ("StreamGlue", "StreamGlue_neg_sharelist.cfg", "HandedStable"),
    ("StreamGlue", "StreamGlue_neg_exacttype.cfg", "CombRefines"),
    ("StreamGlue", "StreamGlue_neg_lenok.cfg", "OutcomeOK"),
]


class Run:
    def __init__(self, ctx):
        self.ctx = ctx
        self.known = {}
        self.lock = threading.Lock()
        self.pending = []        # (trace, case) that diverged from the statement: classified at the end
        self.abort = False       # a call of the code under test hung: stop driving it

    def known_hit(self, fid, n=1):
        self.known[fid] = self.known.get(fid, 0) + n


def short(x, n=400):
    s = x if isinstance(x, str) else json.dumps(x, separators=(",", ":"), default=str)
    return s if len(s) <= n else s[:n // 2] + " ...[%d chars]... " % len(s) + s[-n // 2:]


# ------------------------------------------------------------------ TLC helpers

def neg_control(ctx, module, cfg, inv):
    r = ctx.tlc(module, cfg, workers=2, count=False, want_tags=set())
    if r.violated != inv:
        raise core.MachineryError("negative control %s: expected TLC to report %s, got %r" % (cfg, inv, r.violated))
    return cfg.replace("MC_LookAhead_neg_", "").replace("StreamGlue_neg_", "glue_").replace(".cfg", ""), inv


def validate(ctx, cfg, traces, controls=(), module="TraceLookAhead", parallel=1):
    """-> (rejected 0-based indices, {index: number of events explained})"""
    if not traces:
        return [], {}
    parallel = max(1, min(parallel, len(traces) // 200))
    size = (len(traces) + parallel - 1) // parallel
    chunks = [(k, traces[k:k + size]) for k in range(0, len(traces), size)]

    def one(job):
        k, sub = job
        acc, _, _ = core.validate_traces(ctx, module, cfg, sub, extra_env={"TRACE_DIAG": "0"}, controls=controls if k == 0 else ())
        return [k + i for i in range(len(sub)) if (i + 1) not in acc]
    if len(chunks) == 1:
        rejected = one(chunks[0])
    else:
        with ThreadPoolExecutor(max_workers=len(chunks)) as ex:
            rejected = [i for part in ex.map(one, chunks) for i in part]
    info = {}
    if rejected:
        sub = [traces[i] for i in rejected[:20]]
        _, prog, _ = core.validate_traces(ctx, module, cfg, sub, extra_env={"TRACE_DIAG": "1"})
        for j, i in enumerate(rejected[:20]):
            info[i] = prog.get(j + 1, 0)
    return rejected, info


# ------------------------------------------------------------------ (a) spec -> code: LTS replay

class Graph:
    """the implementation-layer LTS emitted by TLC, per script"""

    def __init__(self, edges):
        self.out = {}
        self.edges = []
        seen = set()
        for e in edges:
            sc = tuple(e["sc"])
            f, t = json.dumps(e["f"], sort_keys=True), json.dumps(e["t"], sort_keys=True)
            k = (sc, f, e["op"], json.dumps(e["a"]), t)
            if k in seen:
                continue
            seen.add(k)
            e = dict(e, _sc=sc, _f=f, _t=t)
            self.out.setdefault((sc, f), []).append(e)
            self.edges.append(e)
        self.scripts = sorted({e["_sc"] for e in self.edges})
        self.init = json.dumps([0, [], False, 0, 0, []], sort_keys=True)
        self._paths = {}

    @staticmethod
    def trigger(e):
        """the transition on which the code as it is starts to differ from the statement"""
        return e["op"] == "next" and e["r"]["t"] == "stop" and not e["f"][2]

    def paths(self, sc):
        """shortest path from the initial state to every state of the script, preferring paths
        that do not pass through a trigger transition"""
        if sc in self._paths:
            return self._paths[sc]
        p = {self.init: []}
        for allow in (False, True):
            q = list(p)
            while q:
                nq = []
                for s in q:
                    for e in self.out.get((sc, s), []):
                        if e["_t"] not in p and (allow or not self.trigger(e)):
                            p[e["_t"]] = p[s] + [e]
                            nq.append(e["_t"])
                q = nq
        self._paths[sc] = p
        return p

    def walk(self, rng, sc, n):
        s, path = self.init, []
        for _ in range(n):
            outs = self.out.get((sc, s))
            if not outs:
                break
            e = rng.choices(outs, weights=[3 if x["_f"] != x["_t"] else 1 for x in outs])[0]
            path.append(e)
            s = e["_t"]
        return path


def edge_event(rng, e):
    op, a = e["op"], e["a"]
    ev = {"op": op}
    if op == "peek_at":
        ev["k"] = a[0]
        if a[0] == 1 and rng.random() < 0.5:
            ev["op"] = "peek"
    elif op in ("peek_many", "consume_many"):
        ev["k"] = a[0]
    elif op == "peek_find":
        ev["p"], ev["lim"] = a[0], a[1]
    elif op in ("tw_new", "tw_list"):
        ev["p"] = a[0]
    elif op in ("tw_step", "tw_close"):
        ev["g"] = a[0]
    return ev


def pulled_at(sc, cur):
    return sum(1 for x in sc[:cur] if x > 0)


def step_mismatch(live, rec, e, i):
    sc = e["_sc"]
    where = "step %d %s%s" % (i + 1, rec["op"], short(e["a"], 60))
    if rec["res"] != e["r"]:
        return "%s returned %s, specification says %s" % (where, short(rec["res"]), short(e["r"]))
    if rec["polls"] >= 0 and rec["polls"] != e["t"][3]:
        return "%s: the source has been asked %d times, specification says %d" % (where, rec["polls"], e["t"][3])
    if rec["pulled"] >= 0 and rec["pulled"] != pulled_at(sc, e["t"][0]):
        return "%s: the source has handed out %d items, specification says %d" % (where, rec["pulled"], pulled_at(sc, e["t"][0]))
    return None


def exec_paths(rng, jobs):
    """jobs: list of (live, [edges]); the calls of the jobs are interleaved round-robin.
    -> list of mismatch messages (None = as specified)"""
    msgs = [None] * len(jobs)
    n = max(len(p) for _, p in jobs)
    for i in range(n + 1):
        for j, (live, path) in enumerate(jobs):
            if msgs[j]:
                continue
            if i < len(path):
                e = path[i]
                rec = live.step(rng, edge_event(rng, e))
                msgs[j] = step_mismatch(live, rec, e, i)
            elif i == len(path):
                buf = path[-1]["t"][1] if path else []
                rec = live.step(rng, {"op": "peek_buffer"})
                if rec["res"] != L.R("list", buf):
                    msgs[j] = "after the last step peek_buffer() returned %s, specification says %s" % (short(rec["res"]), buf)
    return msgs


def path_case(live, path, seed):
    return {"kind": "path", "script": live.script, "source": live.kind, "style": live.style, "seed": seed,
            "path": [{k: v for k, v in e.items() if not k.startswith("_")} for e in path]}


def new_live(rng, sc, n):
    plain = L.is_plain(sc)
    kinds = L.PLAIN_KINDS if plain else L.SPECIAL_KINDS
    kind = kinds[n % len(kinds)]
    if not plain and sc and sc[-1] == L.ERR and all(x > 0 for x in sc[:-1]) and n % 4 == 3:
        return L.lencheck_live(rng, list(sc))
    return L.Live(rng, list(sc), kind, L.STYLES[(n // 3) % len(L.STYLES)])


def replay_lts(run, g, nwalks, wlen, label):
    ctx, rng = run.ctx, run.ctx.rng
    n = 0
    batch = []

    def flush():
        if not batch:
            return
        seed = rng.getrandbits(32)
        prng = random.Random(seed)
        jobs = [(new_live(prng, sc, k), path) for k, sc, path in batch]
        try:
            with L.deadline(HANG_S):
                msgs = exec_paths(prng, jobs)
        except L.HangError as ex:
            live, path = jobs[0]
            ctx.violation(dict(path_case(live, path, seed), **{"with": [path_case(l2, p2, seed) for l2, p2 in jobs[1:]]}),
                          "a call did not return (%s) while replaying %s" % (ex, short([e["op"] for _, p in jobs for e in p], 200)))
            run.abort = True
            del batch[:]
            return
        for (live, path), msg in zip(jobs, msgs):
            if msg:
                case = path_case(live, path, seed)
                case["with"] = [path_case(l2, p2, seed) for l2, p2 in jobs if l2 is not live]
                run.pending.append((live.trace(), case, msg, live.probe.repolls()))
        del batch[:]

    for sc in g.scripts:
        if run.abort:
            break
        paths = g.paths(sc)
        for s in sorted(paths):
            for e in g.out.get((sc, s), []):
                n += 1
                batch.append((n, sc, paths[s] + [e]))
                ctx.case_seen((label, sc, s, e["op"], json.dumps(e["a"])), e["_f"] != e["_t"] or e["r"]["t"] not in ("ok", "none"))
                if len(batch) == 2:
                    flush()
        if len(ctx.violations) >= 5:
            break
    flush()
    for w in range(nwalks):
        if run.abort:
            break
        sc = rng.choice(g.scripts)
        path = g.walk(rng, sc, wlen)
        if path:
            n += 1
            batch.append((n + w, sc, path))
            ctx.case_seen((label, "walk", w), True)
            if len(batch) == 2:
                flush()
    flush()
    return n


# ------------------------------------------------------------------ (b) code -> spec: recorded histories

def big_events(rng, live, n, ordinal=None):
    """size stress: calls whose arguments are of the size of the source"""
    far = [c for c in range(L.NC)]
    last_cls = live.script[n - 1] % L.NC if n and live.script[n - 1] > 0 else 0
    menu = [
        [{"op": "peek_many", "k": n}, {"op": "peek_at", "k": n}, {"op": "peek_at", "k": n + 1}, {"op": "peek_buffer"},
         {"op": "consume_many", "k": 256}, {"op": "peek_find", "p": [last_cls], "lim": -1}, {"op": "tw_list", "p": far},
         {"op": "next"}, {"op": "peek"}],
        [{"op": "peek_find", "p": [], "lim": -1}, {"op": "peek_buffer"}, {"op": "consume_many", "k": n - 1}, {"op": "peek_many", "k": 3},
         {"op": "next"}, {"op": "next"}, {"op": "peek_many", "k": n}],
        [{"op": "peek_find", "p": [], "lim": n - 1}, {"op": "peek_at", "k": n}, {"op": "tw_new", "p": far}, {"op": "tw_step", "g": 1},
         {"op": "tw_step", "g": 1}, {"op": "consume_many", "k": 257}, {"op": "peek_buffer"}, {"op": "tw_list", "p": far},
         {"op": "peek_many", "k": 10000}, {"op": "next"}],
        [{"op": "tw_list", "p": far}, {"op": "peek"}, {"op": "consume_many", "k": 10000}, {"op": "next"}],
        [{"op": "consume_many", "k": n + 1}, {"op": "peek_many", "k": 1}, {"op": "peek_find", "p": far, "lim": 10000}],
    ]
    evs = list(rng.choice(menu) if ordinal is None else menu[(ordinal // 2) % len(menu)])
    return [dict(e, k=max(0, e["k"])) if "k" in e else e for e in evs]


def record_history(seed, size, ordinal=None):
    """1-3 live objects, interleaved random calls; -> list of Live.  ordinal: position in the
    plan (big histories cycle through the sizes and the menus so that every run has them all)"""
    rng = random.Random(seed)
    if size == "big":
        n = rng.choice((255, 256, 257, 1000, 10000)) if ordinal is None else (10000, 257, 256, 255, 1000)[ordinal % 5]
        sc = L.rand_script(rng, n, special=False, dup=0.0 if rng.random() < 0.7 else 0.3)
        if (rng.random() < 0.5) if ordinal is None else (ordinal % 2 == 0):   # one class only at the very end: peek_find / takewhile must go all the way
            sc = [i * L.NC for i in range(1, n)] + [n * L.NC + 1]
        kinds = [k for k in L.PLAIN_KINDS if k != "dict"]
        live = L.Live(rng, sc, rng.choice(kinds), rng.choice(("tok", "mixed", "eq")))
        for ev in big_events(rng, live, n, ordinal):
            if ev["op"] == "peek_at":
                ev = dict(ev, k=max(1, ev["k"]))
            live.step(rng, ev)
        return [live]
    lives = []
    for _ in range(rng.choice((1, 1, 2, 2, 3))):
        n = rng.choice(L.BOUNDARY[:12]) if size == "small" else rng.choice(L.BOUNDARY)
        special = rng.random() < 0.6
        sc = L.rand_script(rng, n, special=special, dup=0.25 if rng.random() < 0.2 else 0.0)
        if not L.is_plain(sc):
            kind = rng.choice(L.SPECIAL_KINDS)
        else:
            kind = rng.choice(L.PLAIN_KINDS)
        if sc and sc[-1] == L.ERR and all(x > 0 for x in sc[:-1]) and len(set(sc)) == len(sc) and rng.random() < 0.5:
            lives.append(L.lencheck_live(rng, sc))
        else:
            lives.append(L.Live(rng, sc, kind, rng.choice(L.STYLES)))
    nev = rng.choice((6, 10, 16, 24)) if size == "small" else rng.choice((8, 14))
    for _ in range(nev * len(lives)):
        live = rng.choice(lives)
        nitems = sum(1 for x in live.script if x > 0)
        live.step(rng, L.rand_event(rng, live, nitems))
    return lives


def corrupt(t, how):
    """a history the specification must NOT accept"""
    t = json.loads(json.dumps(t))
    tags = [x for x in t["script"] if x > 0]
    for e in t["events"]:
        r = e["res"]
        if how == "item" and r["t"] in ("item", "list") and r["v"]:
            r["v"][-1] = r["v"][-1] + L.NC
            return t
        if how == "polls" and e["polls"] >= 0:
            e["polls"] += 1
            return t
        if how == "swap" and r["t"] == "list" and len(r["v"]) >= 2 and r["v"][0] != r["v"][1]:
            r["v"][0], r["v"][1] = r["v"][1], r["v"][0]
            return t
        if how == "idx" and r["t"] == "idx":
            r["v"][0] += 1
            return t
        if how == "drop" and e["op"] == "consume_many" and r["t"] == "list" and r["v"]:
            r["v"].pop()
            return t
        if how == "discard" and e["op"] in ("tw_step", "tw_list") and r["t"] in ("stop", "list") and e["pulled"] >= 0:
            # as if the first non-matching item had been swallowed: one more next() result removed
            nxt = [x for x in t["events"][t["events"].index(e) + 1:] if x["op"] == "next" and x["res"]["t"] == "item"]
            if nxt:
                nxt[0]["res"]["v"][0] += L.NC
                return t
        if how == "stop" and e["op"] == "next" and r["t"] == "stop" and tags:
            e["res"] = L.R("item", [tags[-1]])
            return t
    return None


def histories(run, plan):
    ctx, rng = run.ctx, run.ctx.rng
    stmt, asis = [], []          # (trace, case)
    nobj = 0
    for size, count in plan:
        for ordinal in range(count):
            seed = rng.getrandbits(32)
            if run.abort:
                break
            try:
                with L.deadline(HANG_S):
                    lives = record_history(seed, size, ordinal)
            except L.HangError as ex:
                ctx.violation({"kind": "history", "seed": seed, "size": size, "ordinal": ordinal, "object": 0}, "a call did not return (%s) while recording a history" % ex)
                run.abort = True
                continue
            except Exception as ex:
                if not core.raised_by_code_under_test(ex):
                    raise
                ctx.violation({"kind": "history", "seed": seed, "size": size, "ordinal": ordinal, "object": 0},
                              "unexpected %s from the library while recording a history: %s" % (type(ex).__name__, ex))
                continue
            for k, live in enumerate(lives):
                if not live.events:          # this object received no call: nothing was observed, nothing to validate
                    continue
                nobj += 1
                case = {"kind": "history", "seed": seed, "size": size, "ordinal": ordinal, "object": k}
                (asis if live.probe.repolls() >= 1 else stmt).append((live.trace(), case))
    controls = []
    for how in ("item", "polls", "swap", "idx", "drop", "discard", "stop"):
        for t, _ in stmt:
            if len(t["script"]) > 40:
                continue
            c = corrupt(t, how)
            if c:
                controls.append(c)
                break
    rejected, info = validate(ctx, "TraceLookAhead.cfg", [t for t, _ in stmt], controls, parallel=1 if ctx.tier == "quick" else 4)
    for i in rejected:
        t, case = stmt[i]
        at = info.get(i, 0)
        ev = t["events"][at] if at < len(t["events"]) else None
        run.pending.append((t, case, "recorded history not explained by the specification: event %d %s (after %d explained events; script %s)"
                            % (at + 1, short(ev), at, short(t["script"], 120)), -1))
    for t, case in asis:
        run.pending.append((t, case, "the source was asked again after it had signalled its end (script %s)" % short(t["script"], 120), 1))
    ctx.traces += len(stmt) + len(asis)
    ctx.evaluations += nobj
    for i in range(nobj):
        ctx.distinct.add(("history", i))
    ctx.extra["histories_objects"] = nobj
    ctx.extra["histories_statement_batch"] = len(stmt)
    ctx.extra["histories_repolled_batch"] = len(asis)
    ctx.extra["history_controls"] = len(controls)
    if stmt:
        t = stmt[len(stmt) // 2][0]
        ctx.sample("recorded history (first 3 events): " + short({"script": t["script"][:12], "events": t["events"][:3]}, 700))


def classify_pending(run):
    """everything that diverged from the statement: explained by the implementation layer with
    Latch = FALSE (the code as it is) -> the KNOWN finding; anything else -> violation"""
    ctx = run.ctx
    if not run.pending:
        return
    traces = [p[0] for p in run.pending]
    rejected, info = validate(ctx, "TraceLookAhead_asis.cfg", traces)
    rej = set(rejected)
    for i, (t, case, msg, stops) in enumerate(run.pending):
        if i not in rej and stops >= 1:       # explained by the code-as-is layer AND the source saw the re-poll
            run.known_hit("X06-next-does-not-latch")
            continue
        if len(ctx.violations) < 5:
            at = info.get(i)
            extra = "" if at is None else " [code-as-is layer explains %d of %d events]" % (at, len(t["events"]))
            ctx.violation(dict(case, trace=t), msg + extra)
    ctx.extra["diverged_from_statement"] = len(run.pending)


def protocol_probe(run):
    """iterator protocol of the class itself (API surface)"""
    import collections.abc
    from debian._deb822_repro._util import BufferingIterator
    b = BufferingIterator([1, 2])
    if iter(b) is not b or not isinstance(b, collections.abc.Iterator):
        run.ctx.violation({"kind": "protocol"}, "iter(BufferingIterator) is not the iterator itself / not a collections.abc.Iterator")


def known_probe(run):
    """the smallest history showing the KNOWN finding (counted, never an alarm by itself)"""
    rng = random.Random(0)
    live = L.Live(rng, [8, L.STOP, 17], "script", "tok")
    for _ in range(3):
        live.step(rng, {"op": "next"})
    run.pending.append((live.trace(), {"kind": "known-probe"}, "known probe: next, next, next over script a, END, b", live.probe.repolls()))
    if live.probe.repolls() < 1:        # the tree latches: the trace must satisfy the statement
        del run.pending[-1]
        rejected, _ = validate(run.ctx, "TraceLookAhead.cfg", [live.trace()])
        if rejected:
            run.ctx.violation({"kind": "known-probe"}, "next, next, next over script a, END, b: %s" % short(live.events))



# ------------------------------------------------------------------ (b), (c): len_check_iterator, combine_into_replacement

def glue_cases(run, cases, per_case):
    ctx, rng = run.ctx, run.ctx.rng
    n = 0
    for case in cases:
        if len(ctx.violations) >= 5 or run.abort:
            break
        for c in range(per_case):
            n += 1
            seed = rng.getrandbits(32)
            real = (n % 4 == 0)
            try:
                with L.deadline(HANG_S):
                    msg = G.check_case(random.Random(seed), case, real=real)
            except L.HangError as ex:
                msg = "a call did not return (%s)" % ex
                run.abort = True
            except Exception as ex:
                if not core.raised_by_code_under_test(ex):
                    raise
                msg = "unexpected %s from the library: %s" % (type(ex).__name__, ex)
            if msg:
                ctx.violation({"kind": "glue-case", "case": case, "seed": seed, "real": real}, msg)
                break
        ctx.case_seen(("glue", case["mode"], json.dumps(case["input"]), case["clen"]), bool(case["input"]))
    ctx.extra["glue_cases"] = len(cases)
    ctx.extra["glue_case_runs"] = n
    ctx.traces += n
    mid = [c for c in cases if c["mode"] == "comb" and len(c["expect"]) >= 3]
    if mid:
        ctx.sample("CASE combine: " + short({"input": mid[len(mid) // 2]["input"], "expect": mid[len(mid) // 2]["expect"]}, 400))


def glue_histories(run, nsmall, nbig):
    ctx, rng = run.ctx, run.ctx.rng
    traces, cases = [], []
    for k in range(nsmall + nbig):
        seed = rng.getrandbits(32)
        big = k >= nsmall
        if run.abort:
            break
        try:
            with L.deadline(HANG_S):
                ts = G.random_traces(seed, big)
        except L.HangError as ex:
            ctx.violation({"kind": "glue-history", "seed": seed, "big": big, "object": 0}, "a call did not return (%s) while recording" % ex)
            run.abort = True
            continue
        except Exception as ex:
            if not core.raised_by_code_under_test(ex):
                raise
            ctx.violation({"kind": "glue-history", "seed": seed, "big": big, "object": 0},
                          "unexpected %s from the library while recording: %s" % (type(ex).__name__, ex))
            continue
        for j, t in enumerate(ts):
            traces.append(t)
            cases.append({"kind": "glue-history", "seed": seed, "big": big, "object": j})
    controls = []
    for how in ("polls", "late", "split", "outcome", "outcome2", "handed"):
        for t in traces:
            if len(t["input"]) > 40:
                continue
            c = G.corrupt(t, how)
            if c:
                controls.append(c)
                break
    rejected, info = validate(ctx, "TraceStreamGlue.cfg", traces, controls, module="TraceStreamGlue", parallel=1 if ctx.tier == "quick" else 3)
    for i in rejected[:5]:
        t = traces[i]
        at = info.get(i, 0)
        ev = t["events"][at] if at < len(t["events"]) else None
        ctx.violation(dict(cases[i], trace=t if len(t["input"]) < 60 else None),
                      "%s run not explained by the specification: event %d %s (input %s, content_len %s)"
                      % ("len_check_iterator" if t["mode"] == "len" else "combine_into_replacement", at + 1, short(ev), short(t["input"], 200), t["clen"]))
    ctx.traces += len(traces)
    ctx.evaluations += len(traces)
    for i in range(len(traces)):
        ctx.distinct.add(("glue-history", i))
    ctx.extra["glue_histories"] = len(traces)
    ctx.extra["glue_history_controls"] = len(controls)


# ------------------------------------------------------------------ the check

def run(ctx):
    quick = ctx.tier == "quick"
    state = Run(ctx)
    ctx.assumptions += [
        "model constants: scripts = all class sequences of <= %d items (2 classes) with <= 1 raising entry x 3 tails, marked sequences of %s items; "
        "arguments 0..7, limits None/0..11, %d predicates, <= %d live takewhile results; Chunk = 5 as in the code"
        % ((2, "6", 3, 1) if quick else (3, "6 and 11", 4, 2)),
        "items are never None; arguments are non-negative (peek_at >= 1); list(takewhile) over a raising source is outside the statement",
        "trusted: TLC, the scripted counting source, projection of results by object identity",
    ]
    suffix = "" if quick else "_thorough"
    pool = ThreadPoolExecutor(max_workers=4 if quick else 6)
    f_design = pool.submit(ctx.tlc_must_hold, "MC_LookAhead", "MC_LookAhead_%s.cfg" % ("quick" if quick else "thorough"), workers=6 if quick else 8)
    f_core = pool.submit(ctx.tlc_must_hold, "MC_LookAhead", "MC_LookAhead_emit_core%s.cfg" % suffix, workers=1, want_tags={"EDGE"})
    f_gen = pool.submit(ctx.tlc_must_hold, "MC_LookAhead", "MC_LookAhead_emit_gen%s.cfg" % suffix, workers=1, want_tags={"EDGE"})
    f_glue = pool.submit(ctx.tlc_must_hold, "StreamGlue", "StreamGlue_%s.cfg" % ("quick" if quick else "thorough"), workers=2, want_tags={"CASE"})
    f_closed = pool.submit(ctx.tlc_must_hold, "MC_LookAhead", "MC_LookAhead_closed%s.cfg" % suffix, workers=2 if quick else 6)
    f_gens2 = None if quick else pool.submit(ctx.tlc_must_hold, "MC_LookAhead", "MC_LookAhead_gens2.cfg", workers=4)
    f_neg = [pool.submit(neg_control, ctx, *nc) for nc in NEG_CONTROLS]

    import time
    phase = ctx.extra.setdefault("phase_wall_s", {})
    t0 = time.time()

    def mark(name):
        phase[name] = round(time.time() - t0, 1)

    protocol_probe(state)
    # code -> spec while TLC works on the design
    plan = [("small", 220), ("mid", 60), ("big", 10)] if quick else [("small", 2400), ("mid", 600), ("big", 40)]
    histories(state, plan)
    mark("histories")

    # (b), (c)
    rg = f_glue.result()
    glue_cases(state, rg.printed.get("CASE", []), 2 if quick else 4)
    mark("glue_cases")
    glue_histories(state, *((120, 6) if quick else (1500, 60)))
    mark("glue_histories")

    # spec -> code
    total = 0
    for label, fut, nw in (("core", f_core, 150 if quick else 2000), ("gen", f_gen, 150 if quick else 2000)):
        r = fut.result()
        g = Graph(r.printed.get("EDGE", []))
        if not g.edges:
            raise core.MachineryError("no EDGE lines from the %s emission" % label)
        ops = {}
        for e in g.edges:
            ops[e["op"]] = ops.get(e["op"], 0) + 1
        ctx.extra["lts_" + label] = {"scripts": len(g.scripts), "edges": len(g.edges), "states": r.distinct, "edges_per_action": ops}
        mark("lts_%s_loaded" % label)
        total += replay_lts(state, g, nw, 14, label)
        mark("lts_%s_replayed" % label)
        e = g.edges[len(g.edges) * 2 // 3]
        ctx.sample("lts edge (%s): " % label + short({k: v for k, v in e.items() if not k.startswith("_")}, 500))
    ctx.traces += total
    ctx.extra["behaviours_replayed"] = total

    known_probe(state)
    classify_pending(state)
    mark("classified")

    rd = f_design.result()
    rc = f_closed.result()
    ctx.extra["design"] = {"refinement_states": rd.distinct, "refinement_transitions": rd.generated, "closed_form_states": rc.distinct}
    if f_gens2:
        ctx.extra["design"]["two_live_takewhile_states"] = f_gens2.result().distinct
    ctx.extra["spec_negative_controls"] = dict(f.result() for f in f_neg)
    pool.shutdown()
    mark("design_done")
    for k in KNOWN:
        if state.known.get(k["id"]):
            print("KNOWN-FINDING: extra=X06 %s (%d occurrences; id=%s)" % (k["signature"], state.known[k["id"]], k["id"]))
    ctx.extra["known_findings_hit"] = dict(state.known)


def replay(ctx, case):
    kind = case.get("kind")
    state = Run(ctx)
    if kind == "path":
        prng = random.Random(case["seed"])
        jobs = []
        for k, c in enumerate([case] + list(case.get("with", []))):
            sc = c["script"]
            path = [dict(e, _sc=tuple(sc)) for e in c["path"]]
            if c["source"] == "lencheck":
                live = L.lencheck_live(prng, sc)
            else:
                live = L.Live(prng, sc, c["source"], c["style"])
            jobs.append((live, path))
        try:
            with L.deadline(HANG_S):
                msgs = exec_paths(prng, jobs)
        except L.HangError as ex:
            return "a call did not return (%s)" % ex
        if not msgs[0]:
            return None
        live = jobs[0][0]
        rejected, _ = validate(ctx, "TraceLookAhead_asis.cfg", [live.trace()])
        if not rejected and live.probe.repolls() >= 1:
            return None
        return msgs[0]
    if kind == "history":
        try:
            with L.deadline(HANG_S):
                lives = record_history(case["seed"], case["size"], case.get("ordinal"))
        except L.HangError as ex:
            return "a call did not return (%s) while recording the history" % ex
        live = lives[case["object"]]
        t = live.trace()
        rejected, info = validate(ctx, "TraceLookAhead.cfg", [t])
        if not rejected:
            return None
        r2, _ = validate(ctx, "TraceLookAhead_asis.cfg", [t])
        if not r2 and live.probe.repolls() >= 1:
            return None
        return "history still not explained by the specification at event %d" % (info.get(0, 0) + 1)
    if kind == "glue-case":
        return G.check_case(random.Random(case["seed"]), case["case"], real=case["real"])
    if kind == "glue-history":
        t = G.random_traces(case["seed"], case["big"])[case["object"]]
        rejected, info = validate(ctx, "TraceStreamGlue.cfg", [t], module="TraceStreamGlue")
        return ("run still not explained by the specification at event %d" % (info.get(0, 0) + 1)) if rejected else None
    if kind == "protocol":
        protocol_probe(state)
        return ctx.violations[0][1] if ctx.violations else None
    if kind == "known-probe":
        known_probe(state)
        classify_pending(state)
        return ctx.violations[0][1] if ctx.violations else None
    return "unknown case kind"
