"""X18 (extra) -- the file helpers of debian.debian_support around pdiff handling: read_lines_sha1 /
read_lines_sha256, patch_lines, replace_file, download_gunzip_lines, download_file, merge_as_sets.
(C18 checks ed scripts on the triples patches_from_ed_script makes, C19 checks update_file end to end and uses
these helpers only as its parts; X08 covers the Release enumeration.  This extra covers what they do not.)

STATEMENT
  (a) replace_file(lines, local, encoding) publishes ATOMICALLY: at every moment the path `local` names what it
      named before the call (nothing, or the old file: same inode, same bytes) or the complete new content
      ''.join(lines).encode(encoding) -- never a part of it; after a call that returned it is the new content, after
      a call that raised (creating / writing / closing / renaming the new file failed, the iterable of lines raised,
      an item cannot be encoded or is not a str) it is untouched (inode, mode, mtime); in either case the directory
      of `local` holds exactly what it held before, plus `local` after success: no temporary file of the call
      survives, other files (`local + '.new.bak'`, ...) are never touched, and a reader that opened the old file
      keeps reading the old file.  A left-over `local + '.new'` of an earlier crash never ends up in `local` and
      never makes the call fail (whether it is removed is unspecified; today it is, once the call gets to writing).
  (b) download_gunzip_lines(remote) returns the lines of the gzip file at `remote`: the text of the concatenation
      of ALL its members (UTF-8), cut after every newline and nowhere else (a line may span members; the last line
      need not end in a newline; zero padding after the last member is ignored); a remote that is missing, not
      gzip, truncated or fails its CRC raises.  Its temporary file lives in the temporary directory only and is
      removed on every path.  download_file(remote, local) = download_gunzip_lines(remote + '.gz') followed by
      replace_file: after success `local` is byte for byte the decompressed remote file and the lines are
      returned; a failed download leaves `local` untouched.
  (c) read_lines_sha1 / read_lines_sha256(lines) is the hex SHA-1 / SHA-256 of the concatenation of the items (str
      items as UTF-8, bytes items as they are): it depends on the bytes only, never on how they are cut into items,
      on the mix of str and bytes items, on empty items or on the kind of iterable; the argument is not changed.
  (d) patch_lines(lines, patches) applies the hunks (first, last, args) one after the other IN THE ORDER GIVEN,
      each to the list as the previous hunks left it (lines[first:last] replaced by args), IN PLACE on the caller's
      list (every alias sees it); nothing else is changed or kept (other lists, the hunks, their argument lists).
  (e) merge_as_sets(seq, ...) returns a NEW list: the distinct elements of all arguments in strictly increasing
      order (elements that are equal count once).
  No helper keeps state between calls: histories of calls in one process behave call by call.
  Unspecified (executed, every outcome accepted): hunks that reach beyond the end of the list (either refused by
  an exception or cut at the end like a slice -- anything else is a violation) and reversed / negative ranges;
  the return value of patch_lines / replace_file (None today); mode and ownership of the published file (today:
  a new file under the umask, the old mode is NOT kept -- recorded in the evidence); `local` being a symbolic
  link; a zero-byte remote file, garbage after the last gzip member, content that is not UTF-8 (and a process
  whose locale encoding is not UTF-8: download_gunzip_lines decodes with the locale's encoding); lines returned
  for content with carriage returns.  list_releases / listReleases are deleted from the module (X08).

API surface (notes/API_SURFACE.md)
  entry point / variant                                              exercised by
  replace_file(lines, local) / (lines, local, enc) / encoding= /     fs replay (every CASE) + fs histories, rotating;
    lines= local= keywords / replaceFile                               10 encodings incl. BOM ones, default omitted
  lines: list / tuple / generator / iterator / deque / custom        fs replay + histories (container), generator that
    iterable; items '' / non-str / unencodable                         raises at item k / at its end
  local: absolute / relative / './relative'                          fs replay + histories
  download_gunzip_lines(url) / remote= / downloadGunzipLines         G replay (every CASE), fs replay (entry), histories
  download_file(remote, local) / keywords / downloadFile             fs replay (entry), G replay (rotating third), histories
  remote: file:///p, file://localhost/p, /./ segment, quoted blank   G replay + fs replay, rotating
  remote: http / ftp                                                 out of domain here (no network; same urlretrieve path)
  read_lines_sha1 / readLinesSHA1 / read_lines_sha256 (lines=)       H replay + value histories; no readLinesSHA256 exists
  patch_lines(lines, patches) / keywords / patchLines                P replay + value histories
  patches: list / tuple / generator / iterator / custom iterable of  P replay + value histories
    tuples or lists; str and bytes lines
  patch_lines on a tuple / str                                       out of domain ("Updates lines in place")
  merge_as_sets(*seqs) / mergeAsSets; 0..4 arguments; list, tuple,    M replay + value histories; ints, big ints, str,
    set, frozenset, dict, dict keys, generator, iterator, deque         bytes, tuples, int/float/bool twins, Release and
                                                                        Version objects, blocks of 10..4097 elements
  update_file, patches_from_ed_script                                C19 / C18

spec:    spec/AtomicPublish.tla   step machines of replace_file / download_gunzip_lines / download_file over the
                                  directory contents (local, '.new', download temp) with fault transitions
         spec/PdiffHelpers.tla    value level: H digests (chunking of a UTF-8 text), P patch_lines, M merge_as_sets,
                                  G lines of a multi-member gzip file; one bounded enumeration per part
         spec/TraceAtomicPublish.tla, spec/TracePdiffHelpers.tla    trace validation (TraceAtomicPublish runs the step
                                  machine in its "buffered" mode, which also admits implementations that stream the
                                  download without a temporary file, use another temporary name next to `local`,
                                  leave a stale '.new' alone, or fail before creating anything)
model checking: AtomicPublish closed for every input (3 entry points x what is there x stale '.new' x 0-2 items x
         new = other / same / empty x iterable fails at item k x remote ok / missing / damaged x fault none / open /
         k-th write / close / rename / mkstemp / download write): OldOrNew and HeldIntact in EVERY state, NoTempLeft,
         TempDiscipline, RaisedUntouched, ReturnedPublished, FaultRaises (declarative), NoStuck; with buffered
         writes (what has reached the disk is not determined); termination under weak fairness.
         PdiffHelpers: HChunkingInvisible, PCharacterised, PSequentialAsGiven, MStrictlyIncreasing, MIsUnion,
         GMemberBoundaryInvisible, GLinesCharacterised on every enumerated case.
         Spec-level negative controls, each must make TLC report the named invariant: inPlace -> OldOrNew and
         HeldIntact, renameEarly -> OldOrNew, noCleanup -> NoTempLeft, keepTmp -> NoTempLeft, swallow -> FaultRaises;
         latin1 -> HChunkingInvisible, sorted -> PSequentialAsGiven, keepdups -> MStrictlyIncreasing, perMember ->
         GMemberBoundaryInvisible (quick tier: a rotating half, thorough: all).
binding: spec -> code: every terminal state of AtomicPublish (CASE lines: input, TLC's terminal directory, outcome)
         is concretized (texts with character / size stress, 10 encodings, containers, bystander files, gzip files
         from the G cases) and executed with IMPLEMENTATION-AGNOSTIC observation and fault injection
         (harness/fs_x18.py): an audit hook (PEP 578) sees every open / rename / remove the interpreter performs,
         snapshots the directories and can make the operation fail; write faults come from RLIMIT_FSIZE in a forked
         child; only where a byte limit cannot express the fault a proxy shadows debian_support.open.  Every CASE of
         PdiffHelpers carries TLC's expected value and is replayed with str / bytes, container and size variants.
         code -> spec: every executed call (replay and random histories of calls in one process on one directory,
         the outside world stepping in between) yields its snapshot sequence, validated by TLC
         (TraceAtomicPublish: a behaviour of the step machine must pass through exactly the observed directory
         states); random histories of helper calls on several live lists (same hunk list re-used, argument lists
         mutated afterwards, results mutated) are validated by TracePdiffHelpers.  Corrupted control traces.
sizes:   contents are classes in the models, so verdicts are length independent by construction; concretizations
         reach 20000 items / 64 KiB lines / 1 MiB files (fs), runs of 65537 characters (H), lists of 4097 x k lines
         with indexes up to 2**63 beyond the end (P), 4097-element blocks (M), gzip members ending exactly at
         8192 / 65536 / 131072 +-1 bytes (G).
findings (KNOWN): download_file does not copy carriage returns faithfully (universal newlines); see KNOWN.
"""
import json
import multiprocessing
import os
import time
from concurrent.futures import ThreadPoolExecutor

import core
import fs_x18 as F
import vals_x18 as V

MANIFEST = None
LEVEL = "model_checking"

EXTRA = dict(
    title="pdiff file helpers of debian_support: atomic replace_file / download_file, gunzip lines, digests, patch_lines, merge_as_sets",
    statement=(
        "replace_file(lines, local, encoding) publishes atomically: at every moment `local` names what it named before the "
        "call (nothing or the old file, same inode and bytes) or the complete new content ''.join(lines).encode(encoding), "
        "never a part; it is the new content after a call that returned and untouched after a call that raised (create / "
        "write / close / rename failed, the iterable raised, an item is not an encodable str); afterwards the directory holds "
        "exactly what it held before plus `local`: no temporary file of the call survives (a stale '.new' of an earlier crash "
        "never reaches `local`; whether it is removed is unspecified), bystanders are untouched, a reader of the old file "
        "keeps the old file. download_gunzip_lines returns the text of ALL gzip members "
        "cut after every newline and nowhere else, raises for a missing / non-gzip / truncated / CRC-damaged remote and removes "
        "its temporary file on every path; download_file leaves `local` byte for byte the decompressed remote file or, on any "
        "failure, untouched. read_lines_sha1/sha256 is the digest of the concatenation of the items (str as UTF-8, bytes as "
        "is) whatever the cutting, mix and iterable. patch_lines applies the hunks in the order given, each to the list as the "
        "previous ones left it, in place on the caller's list. merge_as_sets returns a new strictly increasing list of the "
        "distinct elements. No helper keeps state between calls. Unspecified: hunks beyond the end (refused or cut like a "
        "slice) and reversed ranges, return values of patch_lines / replace_file, mode of the published file, symlinked "
        "`local`, zero-byte / trailing-garbage / non-UTF-8 remotes."),
    technique=(
        "TLA+ step machines AtomicPublish (replace_file / download_gunzip_lines / download_file over directory contents with "
        "fault transitions; OldOrNew in every state, NoTempLeft, RaisedUntouched, FaultRaises, termination) and value-level "
        "spec PdiffHelpers (digest chunking, patch_lines, merge_as_sets, multi-member gzip lines) model-checked by TLC with 10 "
        "spec-level negative controls; every terminal state / case replayed into the real functions with audit-hook "
        "observation, audit-hook and RLIMIT_FSIZE fault injection; snapshot sequences of all executions and random call "
        "histories validated by TLC (TraceAtomicPublish, TracePdiffHelpers) with corrupted control traces."))

K_CR = "X18-download-file-translates-cr"
KNOWN = [
    dict(id=K_CR,
         signature="download_file(remote, local) does not copy a remote file that contains carriage returns faithfully: "
                   "download_gunzip_lines reads the gzip file in text mode with universal newlines, so CR LF and lone CR "
                   "arrive as LF and replace_file writes those, e.g. remote.gz = gzip(b'a\\r\\nb\\n') leaves local = "
                   "b'a\\nb\\n' (expected: the decompressed file b'a\\r\\nb\\n'; update_file's hash of such a local copy can "
                   "never match the index)"),
]

AP_NEG = [("AtomicPublish_neg_inPlace.cfg", "OldOrNew"), ("AtomicPublish_neg_noCleanup.cfg", "NoTempLeft"),
          ("AtomicPublish_neg_renameEarly.cfg", "OldOrNew"), ("AtomicPublish_neg_keepTmp.cfg", "NoTempLeft"),
          ("AtomicPublish_neg_swallow.cfg", "FaultRaises"), ("AtomicPublish_neg_inPlace_held.cfg", "HeldIntact")]
PH_NEG = [("PdiffHelpers_neg_H.cfg", "HChunkingInvisibleInv"), ("PdiffHelpers_neg_P.cfg", "PSequentialAsGivenInv"),
          ("PdiffHelpers_neg_M.cfg", "MStrictlyIncreasingInv"), ("PdiffHelpers_neg_G.cfg", "GMemberBoundaryInvisibleInv")]
JOPTS = ["-XX:TieredStopAtLevel=1"]
NPROC = 4
STRESS_OF = (0, 1, 2, 1, 1, 2)       # size / character stress of the replay variants of the file-system leg


def read_cases(path):
    out = []
    with open(path, errors="replace") as f:
        for line in f:
            if line.startswith('<<"CASE", "'):
                out.append(json.loads(line[11:-4].replace('\\"', '"').replace("\\\\", "\\")))
    out.sort(key=lambda c: json.dumps(c, sort_keys=True))
    return out


def emit(ctx, module, cfg):
    r = ctx.tlc_must_hold(module, cfg, workers=1, want_tags=set(), keep_raw=True, java_opts=JOPTS)
    cases = read_cases(r.raw_path)
    if not cases:
        raise core.MachineryError("%s / %s emitted no CASE lines" % (module, cfg))
    return r, cases


def neg_control(ctx, module, cfg, inv):
    r = ctx.tlc(module, cfg, workers=1, count=False, want_tags=set(), java_opts=JOPTS)
    if r.violated != inv:
        raise core.MachineryError("negative control %s: expected TLC to report %s, got %r" % (cfg, inv, r.violated))
    return cfg.replace(".cfg", ""), inv


# ---------------------------------------------------------------------- corrupted control traces

def ap_controls(traces):
    """executions the step machine must NOT accept"""
    import copy
    out = []

    def first(pred, edit):
        for t in traces:
            if pred(t):
                c = copy.deepcopy(t)
                edit(c)
                out.append(c)
                return
    plain = lambda t: t["in"]["remote"] != "any" and t["in"]["fault"]["k"] not in ("anywrite", "maybe")     # noqa: E731
    first(lambda t: plain(t) and t["out"]["out"] == "returned", lambda c: c["out"].update(out="raised"))
    first(lambda t: plain(t) and t["out"]["out"] == "raised", lambda c: c["out"].update(out="returned"))
    first(lambda t: t["in"]["newc"] == "new" and t["out"]["out"] == "returned" and t["in"]["entry"] != "download_gunzip_lines",
          lambda c: c["obs"][-1].update(l="part"))
    first(lambda t: not t["in"]["stale"] and t["out"]["out"] == "raised", lambda c: c["obs"][-1].update(n="present"))
    first(lambda t: not t["in"]["stale"] and t["out"]["out"] == "returned", lambda c: c["obs"][-1].update(n="present"))
    first(lambda t: t["in"]["entry"] != "replace_file", lambda c: c["obs"][-1].update(t="present"))
    first(lambda t: t["in"]["entry"] == "replace_file" and t["out"]["out"] == "returned" and len(t["obs"]) == 3 and not t["in"]["stale"],
          lambda c: c["obs"].pop(1))
    first(lambda t: t["out"]["out"] == "raised" and t["in"]["old0"] == "old", lambda c: c["out"].update(ino="fresh"))
    first(lambda t: t["out"]["out"] == "raised" and t["in"]["old0"] == "old" and t["in"]["newc"] == "new",
          lambda c: c["obs"][-1].update(l="new"))
    return out


def ph_controls(traces):
    import copy
    out = []
    for t in traces:         # a line changes in a list the call was not given
        for j, e in enumerate(t):
            if e["op"] == "patch" and len(e["after"]) >= 2:
                other = [b for b in e["after"] if b != e["b"]][0]
                c = copy.deepcopy(t)
                c[j]["after"][other] = c[j]["after"][other] + [5]
                out.append(c)
                break
        if out:
            break
    for op, edit in (("frame", lambda e: e["after"].update({sorted(e["after"])[0]: e["after"][sorted(e["after"])[0]] + [3]})),
                     ("merge", lambda e: e.update(res=e["res"] + e["res"][-1:] if e["res"] else [1])),
                     ("hash", lambda e: e.update(got=[[0, 0]] if e["got"] != [[0, 0]] else [[1, 1]])),
                     ("gunzip", lambda e: e.update(out="raise" if e["out"] == "lines" else "lines", got=[]))):
        done = False
        for t in traces:
            for j, e in enumerate(t):
                if e["op"] != op or (op == "gunzip" and e["damage"] in ("garbage", "undecodable", "emptyfile")) \
                        or (op == "gunzip" and e["out"] == "raise"):
                    continue
                c = copy.deepcopy(t)
                edit(c[j])
                out.append(c)
                done = True
                break
            if done:
                break
    return out


# ---------------------------------------------------------------------- the check

def run(ctx):
    quick = ctx.tier == "quick"
    ctx.assumptions += [
        "contents are classes in the models (old / new / part / empty ...; line ids; UTF-8 length classes; symbols x n r): a class stands for content of any size inside its class, texts and sizes are sampled (seeded)",
        "small scope of the exhaustive part: <= 2 distinguished items per replace_file call (2 = many), texts of <= 2 (thorough 3) characters in <= 3 chunks, lists of <= 2 (3) lines with <= 2 hunks, <= 3 arguments of <= 2 elements over 3 (4) distinct values, gzip contents of <= 3 (4) symbols in <= 3 members",
        "unspecified, executed, any outcome accepted: hunks beyond the end of the list (refused or cut like a slice; anything else is a violation), reversed ranges, return values of patch_lines / replace_file, mode / ownership of the published file, zero-byte remote, garbage after the last gzip member, non-UTF-8 content, lines returned for content with carriage returns",
        "the process runs with a UTF-8 locale encoding (download_gunzip_lines decodes with the locale's encoding); otherwise the gzip leg uses ASCII content only",
        "write faults are byte limits (RLIMIT_FSIZE): which write / flush / close fails is left to TLC; a fault through the audit hook or the open() proxy counts only when it took effect (an implementation that does not perform the operation is skipped; fewer than 30 % of the hook / byte-limit faults taking effect is a machinery failure); a write fault on empty content is unrealisable and not replayed",
        "trusted: TLC, hashlib / gzip / zlib / codecs as builders of inputs and of the digest of TLC's byte sequence, the audit-hook recorder and the projection of file bytes onto content classes",
    ]
    if not V.utf8_locale():
        ctx.drift("locale encoding is not UTF-8: gzip leg restricted to ASCII content")
    tm = {}
    t00 = time.time()
    tlcs = ThreadPoolExecutor(max_workers=2)          # at most two TLC processes at a time
    pool = multiprocessing.get_context("fork").Pool(NPROC)
    try:
        _run(ctx, quick, tlcs, pool, tm, t00)
    finally:
        pool.terminate()
        pool.join()
        tlcs.shutdown(wait=True, cancel_futures=True)


def _run(ctx, quick, tlcs, pool, tm, t00):
    sfx = "" if quick else "_big"
    f_ap = tlcs.submit(emit, ctx, "AtomicPublish", "AtomicPublish_emit.cfg")
    gcfg = "PdiffHelpers_G%s.cfg" % sfx
    f_g = tlcs.submit(emit, ctx, "PdiffHelpers", gcfg)
    f_val = {p: tlcs.submit(emit, ctx, "PdiffHelpers", "PdiffHelpers_%s%s.cfg" % (p, sfx)) for p in "HPM"}
    # value histories need nothing from TLC: record them now
    nvh, nops = (160, 25) if quick else (1500, 40)
    vh_async = pool.map_async(V.vhistory_chunk, [(ctx.work, ctx.seed, list(range(i, min(nvh, i + 20))), nops) for i in range(0, nvh, 20)], chunksize=1)
    # design level
    f_design = [tlcs.submit(ctx.tlc_must_hold, "AtomicPublish", c, workers=1 if quick else 2, want_tags=set(), java_opts=JOPTS)
                for c in ("AtomicPublish_mc.cfg", "AtomicPublish_buf.cfg", "AtomicPublish_live.cfg")]
    if quick:       # a rotating half of the negative controls (all of them in the thorough tier)
        s = ctx.seed
        negs = [AP_NEG[0], AP_NEG[1], AP_NEG[2 + s % 4], PH_NEG[s % 4], PH_NEG[(s + 1) % 4]]
    else:
        negs = AP_NEG + PH_NEG
    f_neg = [tlcs.submit(neg_control, ctx, "AtomicPublish" if c.startswith("Atomic") else "PdiffHelpers", c, inv) for c, inv in negs]

    r_ap, ap = f_ap.result()
    r_g, gcs = f_g.result()
    tm["emission_fs"] = round(time.time() - t00, 1)
    if any(c["tmpd"] != "absent" for c in ap):
        raise core.MachineryError("AtomicPublish: a terminal state with a download temp")
    # ---- spec -> code, file-system leg
    tasks = []
    for idx, c in enumerate(ap):
        if quick:
            vs = [0] + ([1] if (idx + ctx.seed) % 2 == 0 else []) + ([2] if (idx + ctx.seed) % 5 == 3 else [])
        else:
            vs = [0, 1, 2, 3, 4, 5]
        for v in vs:
            tasks.append((idx, c, v, STRESS_OF[v]))
    chunks = [tasks[i:i + 60] for i in range(0, len(tasks), 60)]
    fs_async = pool.map_async(F.replay_chunk, [(ctx.work, ctx.seed, ch, gcs) for ch in chunks], chunksize=1)
    nh, ncalls = (60, 8) if quick else (600, 10)
    inputs = [c["in"] for c in ap]
    hist_async = pool.map_async(F.history_chunk, [(ctx.work, ctx.seed, list(range(i, min(nh, i + 10))), inputs, gcs, ncalls)
                                                  for i in range(0, nh, 10)], chunksize=1)
    # ---- spec -> code, value level
    vtasks = []
    for idx, c in enumerate(gcs):
        vs = [(idx + ctx.seed) % 4] + ([(idx + ctx.seed + 2) % 4] if idx % 4 == 0 else []) if quick else [0, 1, 2, 3]
        vtasks += [("G", idx, c, v) for v in vs]
    vcases = {"G": gcs}
    for p in "HPM":
        r, cs = f_val[p].result()
        vcases[p] = cs
        for idx, c in enumerate(cs):
            if p == "H":
                vs = [0] + ([1] if idx % 2 == 0 else []) + ([3] if idx % 5 == 0 else []) if quick else [0, 1, 2, 3]
            elif p == "P":
                vs = [(idx + ctx.seed) % 3] + ([(idx + 1) % 3] if idx % 4 == 0 else []) if quick else [0, 1, 2]
            else:
                vs = [(idx + ctx.seed) % 3] + ([(idx + 1) % 3] if idx % 3 == 0 else []) if quick else [(idx + ctx.seed) % 3, (idx + 1 + ctx.seed) % 3]
            vtasks += [(p, idx, c, v) for v in vs]
    tm["emission_values"] = round(time.time() - t00, 1)
    vchunks = [vtasks[i:i + 400] for i in range(0, len(vtasks), 400)]
    val_async = pool.map_async(V.value_chunk, [(ctx.work, ctx.seed, ch) for ch in vchunks], chunksize=1)

    # ---- collect: value histories -> TLC
    vhs = sorted((h, ev) for ch in vh_async.get() for h, ev in ch)
    vtraces = [ev for _, ev in vhs]
    f_vt = tlcs.submit(core.validate_traces, ctx, "TracePdiffHelpers", "TracePdiffHelpers.cfg", vtraces,
                       extra_env={"TRACE_DIAG": "1"}, controls=ph_controls(vtraces), java_opts=JOPTS)
    # ---- collect: file-system replays
    fs_res = sorted((x for ch in fs_async.get() for x in ch), key=lambda x: (x["idx"], x["variant"]))
    tm["fs_replay_done"] = round(time.time() - t00, 1)
    hist_res = sorted((h, calls) for ch in hist_async.get() for h, calls in ch)
    tm["fs_histories_done"] = round(time.time() - t00, 1)
    counts = {}
    api = {}
    skipped = 0
    seen_drift = set()
    for x in fs_res:
        counts[x["status"]] = counts.get(x["status"], 0) + 1
        ctx.case_seen(("fs", x["idx"], x["variant"]))
        if x["status"] == "error":
            raise core.MachineryError("fs replay: %s" % x["msg"])
        if x["status"] == "unrealisable":
            continue
        for k in ("fn", "container", "encoding", "local_form", "url_form", "inject"):
            api["%s=%s" % (k, x[k])] = api.get("%s=%s" % (k, x[k]), 0) + 1
        api["args=%s" % ("keyword" if x["kw"] else "positional")] = api.get("args=%s" % ("keyword" if x["kw"] else "positional"), 0) + 1
        if x["status"] == "violation":
            if len(ctx.violations) < 5:
                ctx.violation({"kind": "fs", "idx": x["idx"], "variant": x["variant"], "seed": ctx.seed, "case": ap[x["idx"]],
                               "stress": STRESS_OF[x["variant"]], "gcfg": gcfg, "before": x["before"]}, x["msg"])
        elif x["status"] == "skipped":
            skipped += 1
            if "skipped" not in seen_drift:
                seen_drift.add("skipped")
                ctx.drift(x["msg"])
        elif x["status"] == "diag" and "diag" not in seen_drift:
            seen_drift.add("diag")
            ctx.drift(x["msg"])
    fs_res = [x for x in fs_res if x["status"] != "unrealisable"]
    faulty = [x for x in fs_res if x["inject"] in ("hook", "rlimit", "natural")]
    took = [x for x in faulty if x["status"] != "skipped"]
    if len(took) < 0.3 * len(faulty) and not ctx.violations:
        raise core.MachineryError("only %d of %d injected faults (audit hook, byte limit) took effect: the fault injection does not reach the code" % (len(took), len(faulty)))
    missing = [v for v in (["fn=" + f for fs in F.ENTRY_FNS.values() for f in fs] + ["container=" + c for c in F.CONTAINERS]
                           + ["encoding=%s" % e for e in F.ENCODINGS] + ["local_form=" + l for l in F.LOCAL_FORMS]
                           + ["url_form=" + u for u in V.URL_FORMS] + ["inject=" + i for i in ("none", "hook", "rlimit", "wrap", "natural")]
                           + ["args=keyword", "args=positional"]) if not api.get(v)]
    if missing and not ctx.violations:
        raise core.MachineryError("file-system leg: variants never exercised in this run: %r" % missing)
    for want in ("raised", "returned"):
        for x in fs_res:
            if x["outcome"] == want and x["inject"] in ("rlimit", "hook") and x["status"] == "ok":
                ctx.sample("fs %s -> %s%s, %d snapshots" % (x["summary"], x["outcome"], " " + x["exc"] if want == "raised" else "", x["nobs"]))
                break
    # ---- code -> spec: snapshot sequences of every execution
    fs_traces, origin = [], []
    for x in fs_res:
        if x.get("trace") and x["status"] != "violation":
            fs_traces.append(x["trace"])
            origin.append(("fs", x["idx"], x["variant"]))
    hcalls = 0
    for h, calls in hist_res:
        for c in calls:
            if c["status"] == "error":
                raise core.MachineryError("fs history %d: %s" % (h, c["msg"]))
            hcalls += 1
            ctx.case_seen(("fs-hist", h, c["call"]))
            if c.get("bad_ret") and len(ctx.violations) < 5:
                ctx.violation({"kind": "fs-hist", "seed": ctx.seed, "hidx": h, "call": c["call"], "ncalls": ncalls, "gcfg": gcfg},
                              "call %d of history %d: %s" % (c["call"] + 1, h, c["bad_ret"]))
            if c["status"] == "ok":
                fs_traces.append(c["trace"])
                origin.append(("fs-hist", h, c["call"]))
    f_ft = tlcs.submit(core.validate_traces, ctx, "TraceAtomicPublish", "TraceAtomicPublish.cfg", fs_traces,
                       extra_env={"TRACE_DIAG": "0"}, controls=ap_controls(fs_traces), java_opts=JOPTS)

    # ---- collect: value-level replays
    val_res = [x for ch in val_async.get() for x in ch]
    tm["value_replay_done"] = round(time.time() - t00, 1)
    vstat, vapi, known_n, known_ex = {}, {}, 0, None
    for x in val_res:
        key = "%s:%s" % (x["part"], x["status"])
        vstat[key] = vstat.get(key, 0) + 1
        ctx.case_seen((x["part"], x["idx"], x["variant"], x["fn"]))
        vapi[x["fn"]] = vapi.get(x["fn"], 0) + 1
        for k in ("container", "form", "fam", "url", "typ"):
            if k in x:
                vapi["%s.%s=%s" % (x["part"], k, x[k])] = vapi.get("%s.%s=%s" % (x["part"], k, x[k]), 0) + 1
        if x["status"] == "violation":
            if len(ctx.violations) < 5:
                ctx.violation({"kind": "value", "part": x["part"], "idx": x["idx"], "variant": x["variant"], "seed": ctx.seed,
                               "case": vcases[x["part"]][x["idx"]], "fn": x["fn"], "before": x["before"], "sfx": sfx}, x["msg"])
        elif x["status"] == "known-cr":
            known_n += 1
            known_ex = known_ex or x["msg"]
        elif x["status"] == "diag" and ("vdiag", x["part"]) not in seen_drift:
            seen_drift.add(("vdiag", x["part"]))
            ctx.drift("%s: %s" % (x["fn"], x["msg"]))
    need = ["read_lines_sha1", "readLinesSHA1", "read_lines_sha256", "patch_lines", "patchLines", "merge_as_sets", "mergeAsSets",
            "download_gunzip_lines", "downloadGunzipLines", "download_file", "downloadFile"]
    need += ["H.container=" + c for c in V.CONTAINERS[:6]] + ["P.form=" + f for f in V.HUNK_FORMS] + ["M.fam=" + f for f in V.M_FAMILIES]
    missing = [v for v in need if not vapi.get(v)]
    if missing and not ctx.violations:
        raise core.MachineryError("value leg: variants never exercised in this run: %r" % missing)
    for p in "HPMG":
        big = max((x for x in val_res if x["part"] == p and x["status"] == "ok"), key=lambda x: x["size"])
        ctx.sample("%s case %s via %s: ok at size %d" % (p, json.dumps(vcases[p][big["idx"]], separators=(",", ":"))[:150], big["fn"], big["size"]))

    # ---- collect: trace validations
    acc, prog, _ = f_vt.result()
    for i in range(1, len(vtraces) + 1):
        ctx.case_seen(("vhist", vhs[i - 1][0]))
        if i not in acc and len(ctx.violations) < 5:
            k = prog.get(i, 0)
            ev = vtraces[i - 1]
            e = ev[k] if k < len(ev) else {}
            ctx.violation({"kind": "vhist", "seed": ctx.seed, "hidx": vhs[i - 1][0], "nops": nops},
                          "history of helper calls %d not explained by PdiffHelpers at event %d of %d: %s" % (
                              vhs[i - 1][0], k + 1, len(ev), json.dumps(e, separators=(",", ":"))[:900]))
    acc, _, _ = f_ft.result()
    tm["trace_validation_done"] = round(time.time() - t00, 1)
    for i in range(1, len(fs_traces) + 1):
        if i in acc or len(ctx.violations) >= 5:
            continue
        o = origin[i - 1]
        t = fs_traces[i - 1]
        if o[0] == "fs":
            xo = [x for x in fs_res if (x["idx"], x["variant"]) == (o[1], o[2])][0]
            case = {"kind": "fs-trace", "idx": o[1], "variant": o[2], "seed": ctx.seed, "case": ap[o[1]], "stress": STRESS_OF[o[2]], "gcfg": gcfg,
                    "before": xo["before"]}
            summary = xo["summary"]
        else:
            case = {"kind": "fs-hist", "seed": ctx.seed, "hidx": o[1], "call": o[2], "ncalls": ncalls, "gcfg": gcfg}
            summary = [c["summary"] for h, calls in hist_res if h == o[1] for c in calls if c["call"] == o[2]][0]
            summary = "call %d of history %d: %s" % (o[2] + 1, o[1], summary)
        ctx.violation(case, "%s: the observed sequence of directory states %s with outcome %s is not a behaviour of AtomicPublish for input %s "
                            "(l = `local`, n = another new entry next to it, t = an entry in the temporary directory)" % (
                                summary, json.dumps(t["obs"], separators=(",", ":")), json.dumps(t["out"], separators=(",", ":")),
                                json.dumps(t["in"], separators=(",", ":"))))
    ctx.traces += len(fs_res) + len(val_res) + len(fs_traces) + len(vtraces)
    for x in fs_res:
        if x["status"] == "ok" and x["nobs"] >= 4:
            ctx.sample("trace %s: %s" % (x["summary"], json.dumps(x["trace"]["obs"], separators=(",", ":"))))
            break

    # ---- design level
    design = [f.result() for f in f_design]
    neg = dict(f.result() for f in f_neg)
    tm["design_done"] = round(time.time() - t00, 1)
    ctx.extra["extra"] = {"id": "X18", "title": EXTRA["title"]}
    ctx.extra["phase_seconds"] = tm
    ctx.extra["model"] = {"AtomicPublish": {"inputs": len(ap), "states_closed": design[0].distinct, "states_buffered": design[1].distinct,
                                            "states_liveness": design[2].distinct},
                          "PdiffHelpers_cases": {p: len(vcases[p]) for p in "HPMG"}}
    ctx.extra["spec_negative_controls"] = neg
    ctx.extra["fs_replay_status"] = counts
    ctx.extra["fs_calls_per_variant"] = api
    ctx.extra["fs_outcomes"] = {o: sum(1 for x in fs_res if x["outcome"] == o) for o in ("returned", "raised")}
    ctx.extra["fs_exception_types"] = {e: sum(1 for x in fs_res if x["exc"] == e) for e in sorted({x["exc"] for x in fs_res})}
    ctx.extra["fs_biggest_published_file"] = max(x["size"] or 0 for x in fs_res)
    ctx.extra["fs_audited_events"] = sum(x["events"] for x in fs_res)
    ctx.extra["fs_old_mode_kept_after_publish"] = {str(k): sum(1 for x in fs_res if x["outcome"] == "returned" and x.get("mode_kept") is k)
                                                   for k in (True, False)}
    ctx.extra["fs_histories"] = {"histories": len(hist_res), "calls": hcalls,
                                 "calls_on_what_the_previous_call_left": sum(1 for _, cs in hist_res for c in cs if c.get("kept")),
                                 "same_content_published_again_after_outside_change": sum(1 for _, cs in hist_res for c in cs if c.get("repeat")),
                                 "by_entry": {e: sum(1 for _, cs in hist_res for c in cs if c.get("entry") == e) for e in F.ENTRY_FNS},
                                 "by_injection": {i: sum(1 for _, cs in hist_res for c in cs if c.get("inject") == i)
                                                  for i in ("none", "hook", "rlimit", "wrap", "natural")}}
    ctx.extra["fs_traces_validated"] = len(fs_traces)
    ctx.extra["value_replay_status"] = vstat
    ctx.extra["value_calls_per_variant"] = vapi
    ctx.extra["aligned_cases"] = sum(1 for x in val_res if x.get("align"))
    ctx.extra["value_histories"] = {"histories": len(vtraces), "events": sum(len(t) for t in vtraces),
                                    "by_op": {op: sum(1 for t in vtraces for e in t if e["op"] == op) for op in ("new", "patch", "frame", "hash", "merge", "gunzip")}}
    ctx.extra["known_findings"] = {K_CR: {"occurrences": known_n, "example": known_ex}}
    if known_n:
        print("KNOWN-FINDING: extra=X18 %s (%d occurrences; id=%s)" % (KNOWN[0]["signature"], known_n, K_CR))


# ---------------------------------------------------------------------- replay of a recorded case

def _gcases(ctx, case):
    return emit(ctx, "PdiffHelpers", case.get("gcfg", "PdiffHelpers_G.cfg"))[1]


def replay(ctx, case):
    kind = case["kind"]
    seed = case["seed"]
    if kind == "value":
        part = case["part"]
        tasks = []
        if case.get("before"):      # the calls the process made just before (state kept by the code under test comes from them)
            cache = {}
            for p, i, v in case["before"]:
                if p not in cache:
                    cache[p] = emit(ctx, "PdiffHelpers", "PdiffHelpers_%s%s.cfg" % (p, case.get("sfx", "")))[1]
                tasks.append((p, i, cache[p][i], v))
        tasks.append((part, case["idx"], case["case"], case["variant"]))
        res = V.value_chunk((ctx.work, seed, tasks))
        bad = [x for x in res if x["status"] == "violation" and (x["part"], x["idx"], x["variant"]) == (part, case["idx"], case["variant"])]
        return bad[0]["msg"] if bad else None
    if kind in ("fs", "fs-trace"):
        gcs = _gcases(ctx, case)
        tasks = []
        if case.get("before"):
            ap = emit(ctx, "AtomicPublish", "AtomicPublish_emit.cfg")[1]
            tasks = [(i, ap[i], v, s) for i, v, s in case["before"]]
        tasks.append((case["idx"], case["case"], case["variant"], case["stress"]))
        res = F.replay_chunk((ctx.work, seed, tasks, gcs))[-1]
        if res["status"] == "violation":
            return res["msg"]
        if res.get("trace"):
            acc, _, _ = core.validate_traces(ctx, "TraceAtomicPublish", "TraceAtomicPublish.cfg", [res["trace"]], extra_env={"TRACE_DIAG": "0"})
            if 1 not in acc:
                return "%s: observed directory states %s with outcome %s still not a behaviour of AtomicPublish" % (
                    res["summary"], json.dumps(res["trace"]["obs"]), json.dumps(res["trace"]["out"]))
        return None
    if kind == "fs-hist":
        gcs = _gcases(ctx, case)
        ap = emit(ctx, "AtomicPublish", "AtomicPublish_emit.cfg")[1]
        calls = F.history(ctx.work, seed, case["hidx"], [c["in"] for c in ap], gcs, case["ncalls"])
        bad = [c["bad_ret"] for c in calls if c.get("bad_ret")]
        if bad:
            return "history %d: %s" % (case["hidx"], bad[0])
        traces = [c["trace"] for c in calls if c["status"] == "ok"]
        acc, _, _ = core.validate_traces(ctx, "TraceAtomicPublish", "TraceAtomicPublish.cfg", traces, extra_env={"TRACE_DIAG": "0"})
        bad = [i for i in range(1, len(traces) + 1) if i not in acc]
        if bad:
            return "history %d: %d call(s) still not explained by AtomicPublish, first: %s" % (case["hidx"], len(bad), json.dumps(traces[bad[0] - 1]))
        return None
    if kind == "vhist":
        ev = V.vhistory(seed, case["hidx"], case["nops"], os.path.join(ctx.work, "vh-replay"))
        acc, prog, _ = core.validate_traces(ctx, "TracePdiffHelpers", "TracePdiffHelpers.cfg", [ev], extra_env={"TRACE_DIAG": "1"})
        if 1 not in acc:
            k = prog.get(1, 0)
            return "history of helper calls still not explained at event %d: %s" % (k + 1, json.dumps(ev[k] if k < len(ev) else {})[:600])
        return None
    return "unknown case kind"
