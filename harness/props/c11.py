"""C11 -- list views of a field read the exact values and write back only what changed.

spec:      spec/ListView.tla      reference: token layouts, Split (reference reader), Valid, the layout
                                  automaton, list semantics of append/remove/replace/value references
           spec/ListViewImpl.tla  token-list layer transcribed from Deb822ParsedTokenList & friends;
                                  TLC checks, over EVERY layout within the bounds (both interpretations) x
                                  every edit sequence: ReadExact/Refines, RoundTrip, EditResult, StillValid,
                                  RefuseOnlyWhen ...; negative controls RemoveNodeOnly, LeakComments,
                                  NoContinuation, DropNlBeforeCmt (MC_ListViewImpl_neg_*.cfg) each make TLC
                                  report a violation
           spec/TraceListView.tla validation of recorded executions against the reference
           spec/ListViewMulti.tla (+ TraceListViewMulti.tla, harness/multi_c11.py) several views alive at once:
                                  two handles on one field / two fields / two parses of the same text / both
                                  interpretations of one field, nested with-blocks, the same object entered again,
                                  ValueReferences held across other edits; Isolation, DocLocal checked by TLC for
                                  all interleavings of two handles, negative control SharedTokenCache; WriteBack
                                  (every round of one object is written, also a round that edits the list back to a content
                                  the object held before), negative control StaleSnapshot (MC_ListViewMulti_neg_stale.cfg)
history shapes (round 6): ONE list object is used for several rounds -- ListView!AReenter / ListViewMulti!Reenter1: the
           recorded executions enter the same object again after close / abort / a refused or faulted close (40 % of
           the follow-up with-blocks, 85 % after a failure), and 70 % of those rounds edit the list BACK to a content the
           object held when it was made or when it was left earlier (undo_step: replace / reference assignment /
           remove / reference removal / append), single-view and multi-view leg alike.  REFUSED values are ordinary
           steps (ListView!ARefuse, ListViewImpl!Refused1, ListViewMulti!Bad1): append / replace / reference
           assignment with a text that is not a single item (bad_value: 2..100 items joined by the separator in
           several spellings, separators or blanks at either end, empty, blank, bare newline, second line without
           continuation) in TLC's cases (badappend / badreplace / badrefset followed by any other call), in the
           recorded executions (22 % of those calls) and between the calls of other views, fields and documents in
           the multi-view legs.  Verdict for the refused call: an exception, nothing changes; if the code ACCEPTS such
           a text the list is unspecified and the execution is only validated up to there (today: comma words may hold a
           newline, "a\nb" is accepted as one value -- not generated).  Then the history carries on.
faults of caller-supplied objects (notes/SIZE_STRESS.md part 5): the only caller-supplied object a list view CALLS is the
           formatter of value_formatter(f).  vfmtx / vfmtxf install a faulting twin of the stock formatter (raises when
           called / at the k-th token pulled / after the k-th piece yielded / at the very end; OSError, ValueError,
           KeyError, RuntimeError, a private class; k beyond the input = behaves as the stock one).  TraceListView:
           leaving may end with "Fault" (the very exception object the formatter raised) only while that formatter is
           installed, nothing is written, the object keeps its list; the same object is then entered again, usually
           repaired (value_formatter(stock) / no_reformatting_when_finished) and must write its edits.
binding:   (a) CASE lines printed by TLC (layout, edit sequence, expected list after each call, expected
               outcome of leaving the with-block, predicted text) replayed on real documents through
               paragraph.as_interpreted_dict_view(LIST_*_INTERPRETATION)
           (b) random long layouts (<= 8 values) and edit sequences (several with-blocks, value
               references, streaming reference passes) executed on the real code; TLC validates the events

           (c) behaviours of ListViewMulti drawn by TLC's simulator replayed on two parses of one document, and
               random interleavings of three view objects recorded and validated by TLC (TraceListViewMulti)
size:      notes/SIZE_STRESS.md -- the abstract cases stay, the concretization has a size dimension in both legs:
           every 8th replayed case gets words / blank runs / comment lines of boundary lengths (1 .. 8193,
           65535+ in the thorough tier); recorded traces include lists of 1,2,3,9,10,11,..,100,101,255..257 and
           1000 values (one line, one per continuation line, leading separators, identical items), 99..257
           comment lines between two values and INSIDE one comma value, and 100 appends followed by 100 removes
           in one with-block.  TLC treats words as numbers, so Split/the list semantics are length-independent
           by construction; counts are real (TLC splits the 1000-value layouts itself).

value alphabet: words of the generated fields (all legs: read-only, append/remove/replace, references, recorded
           executions, several views) include values that BEGIN with '#' -- directly after the colon ("F:#foo"),
           after blanks on the first line, first on a continuation line after the blank/tab, mid-line -- and values
           holding '#', ':' and (whitespace view) ','.  The expectation is the spec's: word tokens are values
           wherever they stand, only CM tokens (a '#' in COLUMN 0 of a line) are comment lines.  Handing in a NEW
           value that begins with '#' (append / replace target / reference set) is refused by the code
           (ValueError, nothing changes): unspecified -- not generated in the replay leg, accepted either way in
           recorded traces (event flag `hash`) as long as the list stays consistent.

API surface (notes/API_SURFACE.md) -- every public way to reach the list behaviour -> exercising leg.  "variant n"
is make_list()/Block/show()/call() below; variants rotate with the concretization (Conc.idioms, per event in
traces) in the QUICK tier too and are MIXED within one history: the values on open are read from a second list
object made through another entry point than the one that is edited, fresh reads use yet another one, the
handles of the multi-view legs are created through different entry points and live at the same time.
  entry point / variant                                                   exercised by
  paragraph.as_interpreted_dict_view(interp)[name]                        open variant 0: replay, trace, multi
  ... (interp, auto_resolve_ambiguous_fields=False | =True)[...]          open variants 1, 2 (keyword-only argument)
  view[(name, i)]                                                         variant 2 ((name, 0) of an ordinary field); multi
                                                                          legs: F and G as occurrences 0 / 1 of ONE duplicated
                                                                          field name (parse_deb822_file(...,
                                                                          accept_files_with_duplicated_fields=True)), the plain
                                                                          name reaching occurrence 0
  view[name] of a duplicated field with auto_resolve...=False             out of domain: AmbiguousDeb822FieldKeyError, no list
  view[field_token]                                                       open variant 3
  kvpair.interpret_as(interp) / (interp, discard_comments_on_read=True)   open variants 4, 6
  interp.interpret(kvpair)                                                open variant 5
  interpret_as(interp, discard_comments_on_read=False),                   "keep" traces (25 % of the comma traces, all their
  interp.interpret(kvpair, discard_comments_on_read=False | , False)      sessions and fresh reads): values carry their comment
                                                                          lines, reference = ListView!SplitKeep (KeepExact in TLC)
  as_interpreted_dict_view(..., discard_comments_on_read=...)             does not exist (the unexported wrapper class takes
                                                                          and ignores such an argument: no public path)
  paragraph.configured_view(...)                                          out of domain: str-valued view (C05), no list
  `with obj as lst:` (a real with statement) / obj.__enter__(),           block variants 1 / 0 (Block), all legs
  obj.__exit__(None, None, None)
  with-block left by an exception / __exit__(exc_type, exc, tb)           "abort": every 10th replayed concretization, 12 % of
                                                                          the trace sessions, Abort1 in the multi legs
  the same object entered again                                           reenter: recorded traces (single view, 40 % of the follow-up
                                                                          blocks) and multi legs, with rounds that cancel earlier ones
  append / replace / ref.value = <text that is not a single item>         bad* steps in all legs: refused, nothing changes, carry on
  value_formatter(f) with a caller's f that raises                        vfmtx / vfmtxf in recorded traces ("Fault" on leaving)
  list(lst), iteration, lst.value_parts (+ convert_to_text[_without_      read variants 0-3, rotating after EVERY call; bool(lst)
  comments]), [r.value for r in lst.iter_value_references()], bool(lst)   is compared on every read
  append(v) / append_value(element)                                       all legs; every 3rd append goes through append_value
                                                                          with an element taken from a scratch document's view
  append_separator() / (space_after_separator=True|False) / (False)       sep, sep0 (comma lists; space lists: not generated)
  append_newline() / append_comment(text)                                 nl / cmt with "note", "# given", "", "tail   \n", "#x", ...
  remove(v) / replace(v, w)                                               all legs
  sort(...) / sort_elements(...)                                          covered by the extra check X04 -- not duplicated here
  iter_value_references(): .value, .value = w, .remove()                  refset/refremove/refpass, hold/heldget/heldset/
                                                                          heldremove (multi), read variant 3
  reformat_when_finished() / no_reformatting_when_finished()              reformat / noreformat (TLC cases, traces, multi)
  value_formatter(f) / (f, force_reformat=True) / (f, True)               vfmt / vfmtf with the stock formatter; other formatters:
                                                                          out of domain (formatter contract, DESIGN.md 9)
  LIST_UPLOADERS_INTERPRETATION                                           out of domain (not named by the statement; DESIGN.md 9)
No divergence between entry points was found on the unchanged tree.

Verdict observables (DESIGN.md 5/C11): values on open = Split(layout) (TLC); the list the view shows after
every call = reference list; leaving without change => dump() byte-identical; after edits a fresh parse of
dump() gives the reference list for the field, everything outside the field byte-identical, no error
element, one paragraph, same field names; ValueError on leaving only for an empty list / trailing comment
and then the document is byte-identical.  Diagnostics (drift): the exact text written for the field, the
exception raised for remove/replace of an absent value and for a double append_newline.
Unspecified: leaving the with-block with an EMPTY list (the code refuses with ValueError, except that after
append_separator it writes ", " and with reformat_when_finished a field without content that the list view
cannot read any more -- reproduced by the model with 3 calls, reported, outside the statement's edits): only
the document level is checked.  A text that is not a single item of the interpretation and is ACCEPTED (none today but
"a\\nb" on a comma list, which is not generated): the execution ends there.  Not generated: empty list fields ("F:\\n":
the views assert content), NEW values with a leading '#' in the replay leg; append_separator on a space list; sort.
"""
import json
import re
import threading

import core
import multi_c11 as multi

MANIFEST = dict(
    technique="TLA+ spec (ListView reference: layout automaton, Split reader, list semantics; ListViewImpl: token-list layer transcribed from Deb822ParsedTokenList) model-checked by TLC over all bounded layouts x edit sequences; TLC-emitted cases replayed into as_interpreted_dict_view; recorded executions validated by TLC (TraceListView)",
    text="A field value is modelled as a sequence of layout tokens (word, comma, blanks, newline, continuation blank, comment line). TLC enumerates every well-formed layout within the bounds for the whitespace- and the comma-separated interpretation (trailing and leading separators, comment lines anywhere, values continuing over lines with comment lines inside, tab continuation) and every sequence of append/remove/replace/value-reference/append_separator/append_newline/append_comment/reformat calls, and checks that the transcribed token-list algorithm reads exactly the reference split, writes back an untouched list identically, and after edits writes a syntactically valid field that re-reads as the edited list. The binding is two-way: cases printed by TLC (with the expected list after every call and the expected outcome of leaving the with-block) are replayed on real documents with concretized words, blanks and comments, and random executions on much longer layouts with several with-blocks are recorded and validated by TLC against the reference list semantics.",
    note="Several views at once (ListViewMulti: isolation between handles, fields, documents with the same text, held ValueReferences; two writers on one field / the other interpretation after a write / empty lists are unspecified) and a size dimension of the concretization (boundary lengths, lists up to 1000 values, 100+ comment/continuation lines, 200 consecutive edits) were added in the hardening rounds; round 6 added histories that use ONE list object for several with-blocks (rounds that cancel earlier rounds, re-entry after refused/faulted closes), refused values (texts that are not a single item) as ordinary steps in all legs, and a caller-supplied formatter that raises. Small scope: layouts up to 3 words/7 tokens x 2 calls (quick), 4 words/9 tokens x 2 calls (thorough) (tokens are finer than in DESIGN.md: newline and continuation blank are separate and the final newline counts); concretization of words/blanks/comments is sampled. Removing the only value is modelled as the code does (ValueError on leaving, document untouched). Trusted: TLC, the concretizer, the projections list(view), dump(), byte comparison of the text around the field.",
    design="5 (C11)")

SP, NL, CT, CTS, CM, SEP = -1, -2, -3, -4, -5, -6
# only effective while known_findings.json has an OPEN entry with this id (none is expected):
# the whitespace-separated view cannot read a field whose first line holds only blanks ("F: \n a")
KNOWN_BLANK_FIRST = "C11-blank-first-line"


# only effective while known_findings.json has an OPEN entry with this id (none is expected): a value that
# begins with '#' DIRECTLY after the colon ("F:#foo") is read as a comment line by both list views
KNOWN_HASH_COLON = "C11-hash-after-colon"


def hash_after_colon(lay, texts):
    return bool(lay) and lay[0] >= 1 and texts[0].startswith("#")


def blank_first_line(mode, lay):
    return mode == "sp" and list(lay[:2]) == [SP, NL]
NEWW, ABSENT, UNKNOWN = 9, 8, 99999

# ------------------------------------------------------------------ concretization
SP_WORDS = ["amd64", "i386", "any", "all", "linux-any", "kfreebsd-amd64", "hurd-i386", "foo", "a", "x,y",
            "libfoo-dev", "!armel", "b2", "naïve", "中", "a:b", "c#d", "q=1", "[x]", "-",
            # values may BEGIN with '#' (only a '#' in column 0 of a line starts a comment) and hold ':' and ','
            "#1003", "#beta", "#", "##x,y", ":x", "k:", ",,"]
CM_WORDS = ["foo", "bar (>= 1.0)", "a | b", "libc6 (>= 2.3) [amd64 i386]", "baz:any", "d", "x-y.z+1",
            "debhelper-compat (= 13)", "p <!nocheck>", "naïve", "${misc:Depends}", "q #r", "e  f", "g\th",
            "#1003", "#beta (>= 1)", "# x", "#", "k: v", ":x"]
BLANKS = [" ", " ", "  ", "\t", " \t", "   "]
COMMENTS = ["# comment\n", "#\n", "#x\n", "# a, b , c\n", "#  two  words \n", "# é中\n", "#,\n", "# Field: like\n"]
FIELDS = ["Architecture", "Depends", "Build-Depends", "X-List", "Uploaders2", "Provides", "a-b", "F"]
BEFORE = ["Package: foo\n", "Source: s\nSection: misc\n", "# leading comment\nPackage: foo\n", "P: a,\n b,\n# c\n c\n"]
AFTER = ["Description: short\n long text\n .\n more, text\n", "Zz: y\n", "# comment of the next field\nZz: y z\n",
         "Priority: optional\n#c1\n#c2\nHomepage: http://x\n", "Last: x"]


# size dimension (notes/SIZE_STRESS.md): the abstract case stays, payload lengths hit boundary neighbourhoods
BOUNDS = [1, 2, 7, 8, 9, 15, 16, 17, 31, 32, 33, 63, 64, 65, 71, 72, 73, 79, 80, 81, 127, 128, 129, 255, 256, 257,
          1023, 1024, 1025, 4095, 4096, 4097, 8191, 8192, 8193]
COUNTS = [1, 2, 3, 9, 10, 11, 16, 17, 31, 32, 33, 99, 100, 101, 255, 256, 257]


def heavy_len(rng, huge=False):
    r = rng.random()
    if huge and r > 0.97:
        return rng.choice([65535, 65536, 65537])
    return rng.choice(BOUNDS[:26]) if r < 0.7 else rng.choice(BOUNDS[26:])


def sized_word(mode, wid, n):
    """a word of (about) n characters that is different for every word id"""
    head = "w%d" % wid
    if n <= len(head) + 7:
        return head
    if mode == "sp":
        return head + "-" + "x" * (n - len(head) - 1)
    return head + " (>= " + "1" * (n - len(head) - 6) + ")"


class Conc:
    """concrete text for one layout: one string per layout position, words by id, the surrounding fields"""

    def __init__(self, rng, mode, lay, canonical=False, stress=False, huge=False, safe=()):
        self.mode = mode
        pool = SP_WORDS if mode == "sp" else CM_WORDS
        ids = sorted({t for t in lay if t >= 1} | {NEWW, ABSENT})
        extra = ["pkg%d" % k if (mode == "sp" or k % 2) else "pkg%d (>= %d)" % (k, k) for k in range(len(ids))]
        chosen = (pool[:len(ids)] if canonical else rng.sample(pool, min(len(ids), len(pool)))) + extra
        self.word = dict(zip(ids, chosen))
        for wid in set(safe) | {NEWW, ABSENT}:      # NEW values that begin with '#' are refused (unspecified): not here
            if wid not in self.word:
                continue
            if self.word[wid].startswith("#"):
                self.word[wid] = "n%d" % wid if mode == "sp" else "n%d (= %d)" % (wid, wid)
        if stress:
            for wid in ids:
                if rng.random() < (0.5 if len(ids) < 40 else 0.05):
                    self.word[wid] = sized_word(mode, wid, heavy_len(rng, huge))
        self.tab = False if canonical else rng.random() < 0.4
        self.field = "F" if canonical else rng.choice(FIELDS)
        self.before = BEFORE[0] if canonical else rng.choice(BEFORE)
        self.after = AFTER[1] if canonical else rng.choice(AFTER)
        self.texts = []
        for t in lay:
            if t >= 1:
                self.texts.append(self.word[t])
            elif t == SP:
                if stress and rng.random() < (0.3 if len(lay) < 100 else 0.02):
                    self.texts.append(rng.choice([" ", "\t", " \t"]) * heavy_len(rng))      # long whitespace run
                else:
                    self.texts.append(" " if canonical else rng.choice(BLANKS))
            elif t == NL:
                self.texts.append("\n")
            elif t == CT:
                self.texts.append("\t" if self.tab else " ")
            elif t == CM:
                if stress and rng.random() < (0.3 if len(lay) < 100 else 0.02):
                    self.texts.append("#" + rng.choice(["c", " c,", "# "]) * heavy_len(rng) + "\n")
                else:
                    self.texts.append(COMMENTS[0] if canonical else rng.choice(COMMENTS))
            elif t == SEP:
                self.texts.append(",")
            else:
                raise core.MachineryError("layout token %r" % (t,))
        self.lay = list(lay)
        self.idioms = 0 if canonical else rng.randrange(56)      # entry-point variants (see Session)

    # -- (de)serialisation for replay files
    def to_json(self):
        return {"mode": self.mode, "word": {str(k): v for k, v in self.word.items()}, "tab": self.tab,
                "field": self.field, "before": self.before, "after": self.after, "texts": self.texts,
                "lay": self.lay, "idioms": self.idioms}

    @classmethod
    def from_json(cls, j):
        c = cls.__new__(cls)
        c.mode, c.tab, c.field, c.before, c.after = j["mode"], j["tab"], j["field"], j["before"], j["after"]
        c.word = {int(k): v for k, v in j["word"].items()}
        c.texts, c.lay, c.idioms = list(j["texts"]), list(j["lay"]), j.get("idioms", 0)
        return c

    def value_text(self):
        return "".join(self.texts)

    def document(self):
        return self.before + self.field + ":" + self.value_text() + self.after

    def new_word(self, wid, rng=None):
        """text of a word id that is not in the layout (ids >= 100 are made on demand)"""
        if wid not in self.word:
            pool = SP_WORDS if self.mode == "sp" else CM_WORDS
            used = set(self.word.values())
            free = [w for w in pool if w not in used and not w.startswith("#")]
            self.word[wid] = (rng.choice(free) if rng and free else None) or "w%d" % wid
        return self.word[wid]

    def tables(self, keep=False):
        """model value (tuple of codes) <-> text for every run of the layout that starts and ends in a word
        and holds no separator (the comment lines inside are not part of the value), and for single words.
        This only inverts the concretization; which runs ARE values is decided by TLC."""
        enc, dec = {}, {}

        def put(codes, text):
            codes = tuple(codes)
            if enc.get(codes, text) != text or dec.get(text, codes) != codes:
                raise core.MachineryError("ambiguous concretization %r / %r" % (codes, text))
            enc[codes] = text
            dec[text] = codes
        for wid, w in self.word.items():
            put((wid,), w)
        n = len(self.lay)
        if self.mode == "cm":
            for i in range(n):
                if self.lay[i] < 1:
                    continue
                for j in range(i + 1, n):
                    if self.lay[j] == SEP:
                        break
                    if self.lay[j] >= 1:
                        put([c for c in self.lay[i:j + 1] if keep or c != CM],
                            "".join(x for c, x in zip(self.lay[i:j + 1], self.texts[i:j + 1]) if keep or c != CM))
        return enc, dec

    def enc_value(self, codes, enc=None):
        enc = enc if enc is not None else self.tables()[0]
        codes = tuple(codes)
        if codes not in enc:
            if len(codes) == 1:
                return self.new_word(codes[0])
            raise core.MachineryError("model value %r has no text in layout %r" % (codes, self.lay))
        return enc[codes]


# ------------------------------------------------------------------ driving the real code

def interp_of(mode):
    from debian._deb822_repro.parsing import (LIST_SPACE_SEPARATED_INTERPRETATION,
                                              LIST_COMMA_SEPARATED_INTERPRETATION)
    return LIST_SPACE_SEPARATED_INTERPRETATION if mode == "sp" else LIST_COMMA_SEPARATED_INTERPRETATION


def parse(text, dups=False):
    from debian._deb822_repro import parse_deb822_file
    if dups:
        return parse_deb822_file(text.splitlines(keepends=True), accept_files_with_duplicated_fields=True)
    return parse_deb822_file(text.splitlines(keepends=True))


# ---- every public way to obtain the list object of a field (notes/API_SURFACE.md) ----------------------------
N_OPEN = 7


def make_list(para, mode, key, variant=0, keep=False):
    """key: field name or (name, i).  keep: discard_comments_on_read=False (only interpret_as / interpret offer it)"""
    interp = interp_of(mode)
    if keep:
        kv = para.get_kvpair_element(key)
        return [lambda: kv.interpret_as(interp, discard_comments_on_read=False),
                lambda: interp.interpret(kv, discard_comments_on_read=False),
                lambda: interp.interpret(kv, False)][variant % 3]()
    v = variant % N_OPEN
    if v == 0:
        return para.as_interpreted_dict_view(interp)[key]
    if v == 1:
        return para.as_interpreted_dict_view(interp, auto_resolve_ambiguous_fields=False)[key]
    if v == 2:
        return para.as_interpreted_dict_view(interp, auto_resolve_ambiguous_fields=True)[(key, 0) if isinstance(key, str) else key]
    kv = para.get_kvpair_element(key)
    if v == 3:
        return para.as_interpreted_dict_view(interp)[kv.field_token]
    if v == 4:
        return kv.interpret_as(interp)
    if v == 5:
        return interp.interpret(kv)
    return kv.interpret_as(interp, discard_comments_on_read=True)


class _Abort(Exception):
    """raised by the harness inside a with-block: the block must not write anything"""


# ---- faults of caller-supplied objects (notes/SIZE_STRESS.md part 5): the one object a list view accepts from
# the caller and CALLS is the formatter of value_formatter(f).  A faulting twin of the stock formatter raises
# when it is called / at the k-th token it pulls / after the k-th piece it yields / at the very end.
class _PrivateFault(Exception):
    """an exception class the library has never heard of"""


FAULT_EXC = [OSError, ValueError, KeyError, _PrivateFault, RuntimeError]
FAULT_KINDS = ["call", "pull", "yield", "end"]
_faults = []        # the exception objects the harness injected (identity decides, the class may be ValueError)


def faulty_formatter(variant):
    from debian._deb822_repro.formatter import one_value_per_line_trailing_separator as stock
    kind = FAULT_KINDS[variant % len(FAULT_KINDS)]
    k = [1, 2, 3, 5, 8, 10 ** 6][(variant // len(FAULT_KINDS)) % 6]        # 10**6: never reached -> behaves as the stock one
    exc = FAULT_EXC[(variant // 3) % len(FAULT_EXC)]

    def boom():
        e = exc("injected fault of the caller's formatter")
        del _faults[:-8]
        _faults.append(e)
        raise e

    def pulled(token_iter):
        for n, t in enumerate(token_iter, 1):
            if kind == "pull" and n == k:
                boom()
            yield t

    def fmt(name, sep_token, token_iter):
        if kind == "call":
            boom()

        def gen():
            n = 0
            for piece in stock(name, sep_token, pulled(token_iter)):
                n += 1
                if kind == "yield" and n == k:
                    boom()
                yield piece
            if kind == "end":
                boom()
        return gen()
    return fmt


def outcome_of(e):
    """how a call / leaving a with-block ended: the harness' own fault ("Fault": the caller's exception object
    itself must come out), ValueError, or another exception"""
    if any(e is f for f in _faults):
        return "Fault"
    if isinstance(e, ValueError):
        return "ValueError"
    return "EXC:%s" % type(e).__name__


def _with_statement(obj, box):
    try:
        with obj as lst:
            box["lst"] = lst
            cmd = yield
            if cmd == "abort":
                raise _Abort("leave the block by an exception")
        box["res"] = "ok"
    except _Abort:
        box["res"] = "ok"
    except Exception as e:
        box["res"] = outcome_of(e)
    yield


class Block:
    """one with-block on a list object: a real `with` statement (kept suspended in a generator while the
    harness makes its calls) or manual __enter__/__exit__ calls"""

    def __init__(self, obj, real_with):
        self.obj, self.real_with, self.gen, self.box = obj, real_with, None, {}

    def enter(self):
        if self.real_with:
            self.box = {}
            self.gen = _with_statement(self.obj, self.box)
            next(self.gen)
            if "lst" not in self.box:
                raise RuntimeError("entering the with-block failed: %s" % self.box.get("res"))
            return self.box["lst"]
        return self.obj.__enter__()

    def leave(self, abort=False):
        try:
            if self.real_with:
                self.gen.send("abort" if abort else "leave")
                self.gen.close()
                return self.box.get("res", "EXC:?")
            if abort:
                exc = _Abort("leave the block by an exception")
                return "ok" if not self.obj.__exit__(_Abort, exc, None) else "EXC:swallowed"
            self.obj.__exit__(None, None, None)
            return "ok"
        except Exception as e:
            return outcome_of(e)


def read_field(text, mode, field, want_list=True, keep=False, dups=False, variant=0):
    """fresh parse: (value list of the field or None, field names | message).  With want_list=False
    only the document level is looked at (the list is returned as [])"""
    try:
        f = parse(text, dups)
        if f.find_first_error_element() is not None:
            return None, "error element in a fresh parse"
        paras = list(f)
        if len(paras) != 1:
            return None, "%d paragraphs in a fresh parse" % len(paras)
        names = [str(k) for k in paras[0].keys()]
        if not want_list:
            return [], names
        vals = show(make_list(paras[0], mode, field, variant, keep), variant, keep, strict=True)
        return vals, names
    except Exception as e:      # observation, not a harness failure
        return None, "fresh parse raised %s: %s" % (type(e).__name__, e)


COMMENT_ARGS = ["note", "# given", "", "tail   \n", "#x", "two words"]
_scratch = {}


def value_element(mode, text):
    """a value element for append_value(), taken from the list view of a scratch document (public API only)"""
    f = parse("Scratch: %s\n" % text)
    kv = next(iter(f)).get_kvpair_element("Scratch")
    els = list(kv.interpret_as(interp_of(mode)).value_parts)
    if len(els) != 1:
        raise ValueError("not a single value: %r" % text)
    _scratch[id(els[0])] = f            # keep the scratch document alive (parents are weak references)
    if len(_scratch) > 64:
        _scratch.clear()
    return els[0]


def call(lst, op, v=None, w=None, i=0, variant=0, mode=None):
    """one call on the open list; returns 'ok' | 'ValueError' | 'EXC:<type>'"""
    try:
        if op == "append":
            if variant % 3 == 1 and mode is not None:
                lst.append_value(value_element(mode, v))
            else:
                lst.append(v)
        elif op == "remove":
            lst.remove(v)
        elif op == "replace":
            lst.replace(v, w)
        elif op == "refset":
            list(lst.iter_value_references())[i - 1].value = w
        elif op == "refremove":
            list(lst.iter_value_references())[i - 1].remove()
        elif op == "sep":
            lst.append_separator() if variant % 2 else lst.append_separator(space_after_separator=True)
        elif op == "sep0":
            lst.append_separator(space_after_separator=False) if variant % 2 else lst.append_separator(False)
        elif op == "nl":
            lst.append_newline()
        elif op == "cmt":
            lst.append_comment(COMMENT_ARGS[variant % len(COMMENT_ARGS)])
        elif op == "reformat":
            lst.reformat_when_finished()
        elif op == "noreformat":
            lst.no_reformatting_when_finished()
        elif op in ("vfmtx", "vfmtxf"):
            if op == "vfmtx":
                lst.value_formatter(faulty_formatter(variant))
            elif variant % 2:
                lst.value_formatter(faulty_formatter(variant), True)
            else:
                lst.value_formatter(faulty_formatter(variant), force_reformat=True)
        elif op in ("vfmt", "vfmtf"):
            from debian._deb822_repro.formatter import one_value_per_line_trailing_separator
            if op == "vfmt":
                lst.value_formatter(one_value_per_line_trailing_separator)
            elif variant % 2:
                lst.value_formatter(one_value_per_line_trailing_separator, True)
            else:
                lst.value_formatter(one_value_per_line_trailing_separator, force_reformat=True)
        else:
            raise core.MachineryError("op %r" % op)
        return "ok"
    except core.MachineryError:
        raise
    except ValueError:
        return "ValueError"
    except Exception as e:
        return "EXC:%s" % type(e).__name__


N_READ = 4


def show(lst, variant=0, keep=False, strict=False):
    """what the view shows, through one of the public read paths: list(), iteration, value_parts, the values
    of iter_value_references(); bool(lst) must agree"""
    try:
        v = variant % N_READ
        if v == 0:
            out = list(lst)
        elif v == 1:
            out = [x for x in iter(lst)]
        elif v == 2:
            out = [(e.convert_to_text() if keep else e.convert_to_text_without_comments()) for e in lst.value_parts]
        else:
            out = [r.value for r in lst.iter_value_references()]
        if bool(lst) != bool(out):
            return ["<bool(lst) is %r but the view shows %r>" % (bool(lst), out)]
        return out
    except Exception as e:
        if strict:
            raise
        return ["<reading the list raised %s>" % type(e).__name__]


class Session:
    """a with-block on the list view of one field of a parsed document; `idiom` selects the entry points"""

    def __init__(self, text, mode, field, idiom=0, keep=False):
        self.file = parse(text)
        self.para = next(iter(self.file))
        self.mode, self.field, self.keep = mode, field, keep
        self.idiom = idiom
        self.lst = None
        self.block = None
        self.reads = idiom

    def open_values(self):
        # a separate list object made through ANOTHER entry point: reading it must not touch the list edited later
        try:
            return show(make_list(self.para, self.mode, self.field, self.idiom + 3, self.keep), self.idiom + 1, self.keep, strict=True)
        except Exception as e:
            return ["<reading the view raised %s: %s>" % (type(e).__name__, str(e)[:80])]

    def enter(self):
        self.obj = make_list(self.para, self.mode, self.field, self.idiom, self.keep)
        self.block = Block(self.obj, (self.idiom // N_OPEN) % 2 == 1)
        self.lst = self.block.enter()
        return self.lst

    def reenter(self, idiom):
        """the SAME list object is entered again (a re-usable context manager), by the other kind of block"""
        self.block = Block(self.obj, (idiom // N_OPEN) % 2 == 1)
        self.lst = self.block.enter()
        return self.lst

    def show(self):
        self.reads += 1
        return show(self.lst, self.reads, self.keep)

    def leave(self, abort=False):
        return self.block.leave(abort)

    def dump(self):
        try:
            return self.file.dump()
        except Exception as e:
            return "<dump() raised %s: %s>" % (type(e).__name__, str(e)[:80])


def around(conc, text):
    """the text of the list field inside `text`, or None when the text around it is not byte-identical"""
    pre = conc.before + conc.field + ":"
    if not text.startswith(pre) or not text.endswith(conc.after) or len(text) < len(pre) + len(conc.after):
        return None
    return text[len(pre):len(text) - len(conc.after)]


def shape(text, conc):
    """diagnostic only: a field text reduced to w , # newline and single blanks"""
    words = sorted(set(conc.word.values()), key=len, reverse=True)
    out = []
    for n, line in enumerate(text.splitlines(keepends=True)):
        if n and line.startswith("#"):          # (the first line of a value is never a comment line)
            out.append("#\n")
            continue
        for w in words:
            line = line.replace(w, "\x00")
        line = re.sub(r"[ \t]+", " ", line)
        if conc.mode == "cm":
            line = re.sub(r"[^ ,\n\x00]+", "\x00", line)
        else:
            line = re.sub(r"[^ \n\x00]+", "\x00", line)
        out.append(re.sub("\x00+", "w", line))
    return "".join(out)


def model_shape(out):
    s = "".join({SP: " ", NL: "\n", CT: " ", CTS: " ", CM: "#\n", SEP: ","}.get(t, "w") for t in out)
    return re.sub(r" +", " ", s)


# ------------------------------------------------------------------ (a) replay of a TLC case

def run_case(ctx, case, conc, drift=None):
    """replay one CASE of ListViewImpl on the real code; returns None or a message (verdict observables)"""
    mode = case["mode"]
    enc, _ = conc.tables()
    text = conc.document()
    try:
        s = Session(text, mode, conc.field, conc.idioms)
    except Exception as e:
        return "parsing %r raised %s: %s" % (text, type(e).__name__, e)
    if s.dump() != text:
        return "dump() of the untouched document differs from the input %r" % text
    try:
        names0 = list(s.para.keys())
    except Exception as e:
        return "keys() raised %s" % type(e).__name__
    exp0 = [conc.enc_value(v, enc) for v in case["v0"]]
    got0 = s.open_values()
    if got0 != exp0 and blank_first_line(mode, case["lay"]) and got0[:1] and got0[0].startswith("<reading the view raised") \
            and ctx.known_open(KNOWN_BLANK_FIRST):
        ctx.known_hit(KNOWN_BLANK_FIRST)
        return None
    if got0 != exp0 and hash_after_colon(case["lay"], conc.texts) and ctx.known_open(KNOWN_HASH_COLON):
        ctx.known_hit(KNOWN_HASH_COLON)
        return None
    if got0 != exp0:
        return "values on open %r, splitting the text gives %r (field text %r)" % (got0, exp0, conc.value_text())
    try:
        lst = s.enter()
    except Exception as e:
        return "opening the view raised %s: %s" % (type(e).__name__, e)
    if conc.idioms % 4 == 3:
        got = s.show()
        if got != exp0:
            return "values in the with-block %r, expected %r" % (got, exp0)
    for k, e in enumerate(case["ops"]):
        v = conc.enc_value(e["v"], enc) if e["v"] else None
        w = conc.enc_value(e["w"], enc) if e["w"] else None
        if e["op"].startswith("bad"):
            # a text that is not a single item of the interpretation (drawn reproducibly from the concretization):
            # refused by SOME exception, nothing changes (ListView!ARefuse) -- the history then carries on
            import random
            real = e["op"][3:]
            w = bad_value(random.Random("%d/%d/%s" % (conc.idioms, k, conc.value_text()[:40])), mode, list(conc.word.values()))
            r = call(lst, real, w if real == "append" else v, w, e["i"])
            if r == "ok":
                if drift is not None:
                    drift("%s(%r) accepted on a %s list: unspecified, the case ends here" % (real, w[:60], mode))
                s.leave(True)
                return None
            r = e["r"]
        else:
            r = call(lst, e["op"], v, w, e["i"], conc.idioms + k, mode)
        where = "call %d %s(%s)" % (k + 1, e["op"], ", ".join(repr(x) for x in (v, w, e["i"] or None) if x is not None))
        absent = e["op"] in ("remove", "replace") and e["r"] == "ValueError"
        if r != e["r"]:
            if r.startswith("EXC:") or not (absent or e["op"] == "nl"):
                return "%s: outcome %s, reference says %s" % (where, r, e["r"])
            if drift is not None:
                drift("%s: outcome %s, model %s" % (where, r, e["r"]))
        exp = [conc.enc_value(x, enc) for x in e["vals"]]
        got = s.show()
        if got != exp:
            return "%s: the view shows %r, reference list %r (field text %r)" % (where, got, exp, conc.value_text())
    abort = conc.idioms % 10 == 9           # every 10th concretization leaves the block by an exception
    r = s.leave(abort)
    after = s.dump()
    expv = [conc.enc_value(x, enc) for x in case["vals"]]
    where = "leaving the with-block after %d call(s)" % len(case["ops"])
    if r.startswith("EXC:"):
        return "%s raised %s" % (where, r[4:])
    if abort:                               # ListView!AAbort: nothing is written
        if r != "ok":
            return "%s by an exception: __exit__ raised %s itself" % (where, r)
        if after != text:
            return "%s by an exception, yet the document changed: %r -> %r" % (where, text, after)
        return None
    if r == "ValueError":
        if not (case["tail"] == "cmt" or not case["vals"]):       # ListView!CloseMayRefuse
            return "%s raised ValueError, the reference list %r can be written" % (where, expv)
        if case["cres"] != "ValueError" and drift is not None:
            drift("%s: ValueError although the model says %s" % (where, case["cres"]))
        if after != text:
            return "%s raised ValueError but the document changed: %r" % (where, after)
        expv = exp0
    else:
        if case["cres"] == "ValueError" and drift is not None:
            drift("%s: written although the model refuses (%s)" % (where, case["tail"]))
        if not case["ops"] and after != text:
            return "open+close without change altered the document: %r -> %r" % (text, after)
    mid = around(conc, after)
    if mid is None:
        return "%s: text outside the field changed: %r -> %r" % (where, text, after)
    # writing an EMPTY list is unspecified (ListViewImpl!EmptyWrite): only the document level is looked at
    empty_write = r == "ok" and not expv
    got, names = read_field(after, mode, conc.field, want_list=not empty_write)
    if got is None:
        return "%s: %s; document %r" % (where, names, after)
    if names != names0:
        return "%s: field names %r -> %r" % (where, names0, names)
    if got != expv:
        return "%s: the field re-parses to %r, reference list %r; field text %r" % (where, got, expv, mid)
    if drift is not None and r == "ok" and not empty_write:
        if case["cres"] == "nowrite" and after != text:
            drift("%s: model writes nothing, text changed to %r" % (where, mid))
        elif case["cres"] == "ok" and shape(mid, conc) != model_shape(case["out"]):
            drift("layout written %r, model predicts shape %r (ops %s on %r)"
                  % (mid, model_shape(case["out"]), [o["op"] for o in case["ops"]], conc.value_text()))
    return None


def emit_cfg(maxw, maxt, maxc, edits, slice_k, slice_r, dups=True):
    return """CONSTANTS
  Modes = {"sp", "cm"}
  MaxW = %d
  MaxT = %d
  MaxC = %d
  Dups = %s
  MaxEdits = %d
  Extras = TRUE
  Emit = TRUE
  SliceK = %d
  SliceR = %d
  InnerAlways = TRUE
  RemoveNodeOnly = FALSE
  LeakComments = FALSE
  NoContinuation = FALSE
  DropNlBeforeCmt = FALSE
SPECIFICATION Spec
CHECK_DEADLOCK FALSE
""" % (maxw, maxt, maxc, "TRUE" if dups else "FALSE", edits, slice_k, slice_r)


# ------------------------------------------------------------------ texts that are NOT a single item
BAD_COUNTS = [2, 2, 2, 2, 3, 3, 4, 5, 6, 7, 9, 17, 33, 100]


def bad_value(rng, mode, words):
    """a text that by construction is not a single item of the interpretation: text after an inner separator (2 .. 100
    items: the tokenizers look ahead), separators / blanks at either end, nothing at all, a bare newline, a second
    line that is not a continuation line.  ListView!ARefuse: the call is refused and nothing changes."""
    words = [x for x in words if x and not x.startswith("#") and x == x.strip() and "\n" not in x] or ["c", "d"]
    if mode == "cm":
        words = [x for x in words if "," not in x] or ["c", "d"]
    else:
        words = [x for x in words if not re.search(r"\s", x)] or ["c", "d"]
    w = lambda: rng.choice(words)
    n = rng.choice(BAD_COUNTS)
    many = lambda sep: sep.join(w() for _ in range(n))
    if mode == "cm":
        inner = [lambda: many(", "), lambda: many(","), lambda: many(" , "), lambda: many(",\n "), lambda: w() + ",," + w(),
                 lambda: w() + "\n ," + w(), lambda: many(", ") + ","]
        # (not here: "a\nb" -- the comma tokenizer takes a newline INSIDE a word, such a text is accepted as one value)
        edge = [lambda: w() + ",", lambda: ", " + w(), lambda: ",", lambda: "", lambda: " ", lambda: "\n",
                lambda: " " + w(), lambda: w() + " ", lambda: w() + "\n", lambda: "\t" + w(), lambda: "," * n,
                lambda: w() + "\n# x, y\n"]
    else:
        inner = [lambda: many(" "), lambda: many("  "), lambda: many("\t"), lambda: many("\n "), lambda: w() + "\n#x\n " + w(),
                 lambda: w() + ", " + w()]
        edge = [lambda: " " + w(), lambda: w() + " ", lambda: "", lambda: " ", lambda: "\n", lambda: w() + "\n" + w(), lambda: w() + "\n",
                lambda: "\t" + w()]
    return rng.choice(inner if rng.random() < 0.7 else edge)()


# ------------------------------------------------------------------ (b) recording executions

def can_follow(mode, p2, p, has_c, first, t):
    """generator side mirror of ListView!CanFollow (TLC re-checks every generated layout: TLayoutOK)"""
    w = lambda x: x >= 1
    if p == 0:
        return t in (SP, NL) or w(t) or (mode == "cm" and t == SEP)
    if p == SP:
        return (w(t) and (mode == "sp" or not w(p2))) or (mode == "cm" and t == SEP) or (t == NL and (has_c or first))
    if w(p):
        return t in (SP, NL) or (mode == "cm" and t == SEP)
    if p == SEP:
        return t in (SP, NL, SEP) or w(t)
    if p in (NL, CM):
        return t in (CM, CT)
    if p == CT:
        return t == SP or w(t) or (mode == "cm" and t == SEP)
    return False


def gen_layout(rng, mode, nwords):
    """random walk through the layout automaton until `nwords` words were placed; words are numbered
    afterwards: items of several words get fresh numbers, single-word items may repeat an earlier one"""
    W = 1
    lay = []
    weights = {W: 5, SP: 3, NL: 2, CT: 1, CM: 1, SEP: 4 if mode == "cm" else 0}
    sep_heavy = rng.random() < 0.3
    cmt_heavy = rng.random() < 0.3
    while True:
        p = lay[-1] if lay else 0
        p2 = lay[-2] if len(lay) > 1 else 0
        line = []
        for x in reversed(lay):
            if x in (NL, CM):
                break
            line.append(x)
        has_c = any(x >= 1 or x == SEP for x in line)
        first = NL not in lay
        nw = sum(1 for x in lay if x >= 1)
        if p == NL and nw >= nwords and (nw > 0) and rng.random() < 0.8:
            break
        opts = []
        for t in (W, SP, NL, CT, CM, SEP):
            if t == SEP and mode != "cm":
                continue
            if can_follow(mode, p2, p, has_c, first, t):
                wt = weights[t]
                if t == SEP and sep_heavy:
                    wt *= 2
                if t == CM and cmt_heavy:
                    wt *= 4
                opts.append((t, wt))
        t = rng.choices([o[0] for o in opts], weights=[o[1] for o in opts])[0]
        lay.append(t)
        if len(lay) > 200:
            raise core.MachineryError("layout generator does not terminate")
    # number the words
    items, cur = [], []
    for k, t in enumerate(lay):
        if mode == "cm" and t == SEP:
            items.append(cur)
            cur = []
        elif t >= 1:
            cur.append(k)
            if mode == "sp":
                items.append(cur)
                cur = []
    items.append(cur)
    nxt = 1
    singles = []
    for it in items:
        for k in it:
            if len(it) == 1 and singles and rng.random() < 0.2:
                lay[k] = rng.choice(singles)
            else:
                lay[k] = nxt
                if len(it) == 1:
                    singles.append(nxt)
                nxt += 1
    return lay


def stress_layout(rng, mode, kind, n):
    """layouts with a COUNT dimension: n values in one line / one per continuation line / leading separators,
    n comment lines between two values, n comment lines INSIDE a comma value; a few values are identical"""
    ids = list(range(1, n + 1))
    for k in range(len(ids)):
        if n >= 3 and k and rng.random() < 0.1:
            ids[k] = ids[rng.randrange(k)]                 # identical items
    sep = [SEP] if mode == "cm" else []
    lay = []
    if kind == "oneline":
        lay = [SP]
        for k, w in enumerate(ids):
            lay += [w] + (sep + [SP] if k < n - 1 else [])
        lay += [NL]
    elif kind == "perline":
        lay = [NL]
        for w in ids:
            lay += [CT, SP, w] + sep + [NL]
    elif kind == "leadsep":
        lay = [SP, ids[0], NL]
        for w in ids[1:]:
            lay += [CT] + (sep + [SP] if sep else [SP]) + [w, NL]
    elif kind == "comments":       # value, n comment lines, value (, value)
        lay = [SP, 1] + sep + [NL] + [CM] * n + [CT, 2] + sep + [SP, 3, NL]
    elif kind == "inner":          # ONE comma value that runs over n comment lines, then another value
        lay = [SP, 1, NL] + [CM] * n + [CT, 2, SEP, SP, 3, NL]
    else:
        raise core.MachineryError(kind)
    return lay


def record_trace(rng, mode, nwords, nsessions, nops, script=None, lay=None, forced=None, stress=False, huge=False, keep=None):
    """execute random with-blocks on a real document; returns the trace for TLC plus what replay needs.
    With `script` (a recorded list of concrete sessions) the same calls are executed again."""
    if script is None:
        if lay is None:
            lay = gen_layout(rng, mode, nwords)
        conc = Conc(rng, mode, lay, stress=stress, huge=huge)
        sessions = None
        if keep is None:        # discard_comments_on_read=False: only where it makes a difference
            keep = mode == "cm" and rng.random() < 0.25
    else:
        conc = Conc.from_json(script["conc"])
        lay = conc.lay
        sessions = script["sessions"]
        keep = script.get("keep", False)
    _, dec = conc.tables(keep)
    nextid = [max([100] + [t + 1 for t in lay])]      # numbers of NEW words: above every word of the layout
    last_obs = [[]]
    cur_s = [None]

    def observe(lst):
        last_obs[0] = cur_s[0].show()
        return [code_of(x) for x in last_obs[0]]

    def code_of(s):
        if s not in dec:
            return [UNKNOWN]
        return list(dec[s])

    def reg(x):
        if x is not None and x not in dec:
            dec[x] = (nextid[0],)
            nextid[0] += 1

    def new_value(fresh_p=0.6):
        if rng.random() < 0.06 and "#new" not in dec and not forced:
            dec["#new"] = (nextid[0],)       # a NEW value beginning with '#': refused today, unspecified (hash flag)
            nextid[0] += 1
            return "#new"
        if rng.random() < fresh_p or not dec:
            wid = nextid[0]
            nextid[0] += 1
            if stress and rng.random() < 0.3:
                conc.word[wid] = sized_word(mode, wid, heavy_len(rng, huge))
            s = conc.new_word(wid, rng)
            if s in dec:            # the pool handed out a word that exists: it IS that value
                return s
            dec[s] = (wid,)
            return s
        return rng.choice(sorted(dec))

    text = conc.document()
    events, script_out = [], []
    unspecified = []
    stop = False
    undo_rounds = 0
    doc_names = read_field(text, mode, conc.field)[1]
    cur = text
    s = None
    last_r = "ok"
    snaps = []                # what the CURRENT list object showed when it was made and each time it was left
    faulted = False
    for sn in range(nsessions if sessions is None else len(sessions)):
        plan = sessions[sn]["calls"] if sessions is not None else None
        force = forced[sn] if (forced and sn < len(forced) and plan is None) else None
        # the SAME list object is entered again (a view is a re-usable context manager) -- after a refused or
        # faulted write-back nearly always: the history carries on where the failure left the object
        if sessions is not None:
            reuse = bool(sessions[sn].get("reenter"))
        else:
            reuse = s is not None and force is None and rng.random() < (0.85 if faulted else 0.4)
        idiom = rng.randrange(56) if sessions is None else sessions[sn]["idiom"]
        undo = None
        try:
            if reuse:
                lst = s.reenter(idiom)
                s.idiom = idiom
                opened = s.show()
                last_obs[0] = opened
            else:
                s = Session(cur, mode, conc.field, idiom, keep)
                cur_s[0] = s
                opened = s.open_values()
                lst = s.enter()
                snaps = [list(opened)]
                last_obs[0] = opened
        except Exception as e:
            events.append({"op": "reenter" if reuse else "open", "v": [], "w": [], "i": 0, "res": "EXC:%s" % type(e).__name__, "obs": [], "doc": "ok"})
            break
        events.append({"op": "reenter" if reuse else "open", "v": [], "w": [], "i": 0, "res": "ok", "obs": [code_of(x) for x in opened], "doc": "ok"})
        calls = []
        n = (len(force) if force is not None else rng.randint(1 if (reuse and last_r == "Fault") else 0, nops)) if plan is None else len(plan)
        if reuse and plan is None and last_r != "Fault" and rng.random() < 0.7:
            # a round whose edits CANCEL earlier rounds: back to a content this object held before
            older = [x for x in snaps if x != opened]
            if older:
                undo = rng.choice(older[:1] * 3 + older)
                n = len(undo) + len(opened) + 2
        k = 0
        now = opened          # what the last read showed (no extra read: reading primes caches of the code)
        while k < n:
            if events[-1]["op"] != "open" and not events[-1]["res"].startswith("EXC"):
                now = last_obs[0]
            if plan is not None:
                c = plan[k]
                if c["op"] in ("refset", "refremove") and c["i"] > len(now):
                    break       # (replay on another tree: the recorded history no longer applies from here)
            elif undo is not None:
                c = undo_step(rng, now, undo)
                if c is None:
                    undo_rounds += list(now) == list(undo)
                    break
            else:
                op = rng.choice(["append"] * 4 + ["remove"] * 3 + ["replace"] * 2 + ["refset", "refremove", "refremove",
                                "nl", "cmt", "reformat", "refpass", "noreformat", "vfmt", "vfmtf", "vfmtx", "vfmtxf"]
                               + (["sep", "sep0"] if mode == "cm" else []))
                where = None
                if force is not None:
                    op, _, where = force[k].partition("@")
                elif k == 0 and reuse and last_r == "Fault" and rng.random() < 0.7:
                    op = rng.choice(["vfmt", "vfmtf", "noreformat"])      # the caller repairs the formatter and tries again
                c = {"op": op, "v": None, "w": None, "i": 0, "var": rng.randrange(120)}
                if force is None and op in ("append", "replace", "refset") and rng.random() < 0.22 and (now or op == "append"):
                    # the same call with a text that is not a single item: refused (ListView!ARefuse), then carry on
                    c["bad"] = True
                    bad = bad_value(rng, mode, list(now) + [x for x in conc.word.values()])
                    if op == "append":
                        c["v"] = bad
                    elif op == "replace":
                        c["v"], c["w"] = rng.choice(now), bad
                    else:
                        c["i"], c["w"] = rng.randint(1, len(now)), bad
                elif op == "append":
                    c["v"] = new_value(0.9 if force is not None else 0.6)
                elif op in ("remove", "replace") and where and now:
                    c["v"] = now[{"first": 0, "last": -1, "mid": len(now) // 2}[where]]
                    if op == "replace":
                        c["w"] = new_value()
                elif op in ("remove", "replace"):
                    c["v"] = rng.choice(now) if now and rng.random() < 0.9 else conc.new_word(ABSENT)
                    if op == "replace":
                        c["w"] = new_value()
                elif op in ("refset", "refremove"):
                    if not now:
                        k += 1
                        continue
                    c["i"] = rng.randint(1, len(now))
                    if op == "refset":
                        c["w"] = new_value()
                elif op == "refpass":
                    c["plan"] = [rng.choice(["keep", "keep", "set", "remove"]) for _ in now]
                    c["ws"] = [new_value() for _ in now]
            calls.append(c)
            isbad = bool(c.get("bad"))
            for x in ([c.get("v")] if isbad and c["op"] != "append" else [] if isbad else [c.get("v"), c.get("w")]) + list(c.get("ws") or []):
                reg(x)
            if c["op"] == "refpass":
                # the documented streaming idiom: one pass over iter_value_references()
                idx = 0
                try:
                    for ref, what, wv in zip(lst.iter_value_references(), c["plan"], c["ws"]):
                        idx += 1
                        if what == "set":
                            try:
                                ref.value = wv
                                r2 = "ok"
                            except ValueError:
                                r2 = "ValueError"
                            events.append({"op": "refset", "v": [], "w": code_of(wv), "i": idx, "res": r2,
                                           "hash": wv.startswith("#"), "obs": observe(lst), "doc": "ok"})
                        elif what == "remove":
                            ref.remove()
                            events.append({"op": "refremove", "v": [], "w": [], "i": idx, "res": "ok",
                                           "obs": observe(lst), "doc": "ok"})
                            idx -= 1
                except Exception as e:
                    events.append({"op": "refset", "v": [], "w": [], "i": idx, "res": "EXC:%s" % type(e).__name__,
                                   "obs": [], "doc": "ok"})
            else:
                r = call(lst, c["op"], c["v"], c["w"], c["i"], c.get("var", 0), mode if not isbad else None)
                newv = c["v"] if c["op"] == "append" else c["w"]
                if isbad and r == "ok":
                    # a text that is not a single item was ACCEPTED: what the list then is, is unspecified -- the
                    # execution ends here and is validated up to the call before
                    unspecified.append("%s(%r) accepted on a %s list" % (c["op"], newv[:60], mode))
                    calls.pop()
                    stop = True
                    break
                events.append({"op": c["op"], "v": code_of(c["v"]) if (c["v"] is not None and not (isbad and c["op"] == "append")) else [],
                               "w": code_of(c["w"]) if (c["w"] is not None and not isbad) else [], "i": c["i"], "res": r,
                               "bad": isbad,
                               "hash": bool(newv) and newv.startswith("#"), "obs": observe(lst), "doc": "ok"})
            k += 1
        if stop:
            try:
                s.leave(True)
            except Exception:
                pass
            script_out.append({"idiom": s.idiom, "calls": calls, "abort": True, "reenter": bool(reuse), "cut": True})
            break
        if sessions is not None and sessions[sn].get("cut"):
            break
        ab = (rng.random() < 0.12 and force is None) if sessions is None else bool(sessions[sn].get("abort"))
        r = s.leave(ab)
        faulted = r != "ok"
        last_r = r
        if not ab:
            snaps.append(list(last_obs[0]))
        after = s.dump()
        got, names = read_field(after, mode, conc.field, keep=keep, variant=s.idiom + sn)
        readable = "ok"
        if got is None and names.startswith("fresh parse raised"):
            # the list view cannot read what was written: only acceptable for an empty list (TLC decides)
            got, names = read_field(after, mode, conc.field, want_list=False)
            readable = "failed"
        doc = "ok"
        if around(conc, after) is None:
            doc = "text outside the field changed"
        elif got is None:
            doc = names
        elif names != doc_names:
            doc = "field names %r -> %r" % (doc_names, names)
        elif r != "ok" and after != cur:
            doc = "%s on leaving but the document changed" % r
        elif ab and after != cur:
            doc = "the block was left by an exception but the document changed"
        elif not calls and not reuse and after != cur:      # (an object entered AGAIN may still have edits to write)
            doc = "open+close without change altered the document"
        events.append({"op": "abort" if ab else "close", "v": [], "w": [], "i": 0, "res": r, "read": readable,
                       "obs": [code_of(x) for x in got] if got is not None else [], "doc": doc})
        script_out.append({"idiom": s.idiom, "calls": calls, "abort": ab, "reenter": bool(reuse)})
        if doc != "ok" or readable != "ok":
            break
        cur = after
    return {"mode": mode, "keep": bool(keep), "lay": lay, "events": events, "unspecified": unspecified, "undo_rounds": undo_rounds,
            "script": {"conc": conc.to_json(), "sessions": script_out, "keep": bool(keep)}, "text": text, "final": cur}


def undo_step(rng, now, target):
    """the next call that brings the list `now` one step closer to `target` (a content the object held before),
    or None when it is there / the step would hand in a value that begins with '#' (unspecified)"""
    for i in range(min(len(now), len(target))):
        if now[i] != target[i]:
            if target[i].startswith("#"):
                return None
            if now.index(now[i]) == i and rng.random() < 0.5:
                return {"op": "replace", "v": now[i], "w": target[i], "i": 0, "var": rng.randrange(120)}
            return {"op": "refset", "v": None, "w": target[i], "i": i + 1, "var": rng.randrange(120)}
    if len(now) > len(target):
        if now.index(now[-1]) == len(now) - 1 and rng.random() < 0.5:
            return {"op": "remove", "v": now[-1], "w": None, "i": 0, "var": rng.randrange(120)}
        return {"op": "refremove", "v": None, "w": None, "i": len(now), "var": rng.randrange(120)}
    if len(now) < len(target):
        if target[len(now)].startswith("#"):
            return None
        return {"op": "append", "v": target[len(now)], "w": None, "i": 0, "var": rng.randrange(120)}
    return None


def corrupt(t, how):
    import copy
    t = copy.deepcopy(t)
    first_open = t["events"][0]["obs"] if t["events"] and t["events"][0]["op"] == "open" else None
    reentered = False
    for e in t["events"]:
        reentered = reentered or e["op"] == "reenter"
        if how == "badmoved" and e.get("bad") and e["res"] != "ok" and e["obs"]:
            e["obs"] = e["obs"][:-1]                           # a refused value nevertheless changed the list
            return t
        if how == "staleround" and reentered and e["op"] == "close" and e["res"] == "ok" and e["obs"] \
                and first_open is not None and e["obs"] != first_open and e["doc"] == "ok":
            e["obs"] = first_open                              # a later round of the same object was not written
            return t
        if how == "faultwrote" and e["op"] == "close" and e["res"] == "Fault":
            e["doc"] = "Fault on leaving but the document changed"
            return t
        if how == "faultfree" and e["op"] == "close" and e["res"] == "ok":
            e["res"] = "Fault"                                 # (only legal while a faulting formatter is installed)
            if not any(x["op"] in ("vfmtx", "vfmtxf") for x in t["events"]):
                return t
            return None
        if how == "drop" and e["op"] == "append" and e["res"] == "ok" and len(e["obs"]) >= 2:
            e["obs"] = e["obs"][:-2] + e["obs"][-1:]          # a value vanished on append
            return t
        if how == "order" and e["op"] in ("refset", "replace", "remove", "refremove") and e["res"] == "ok" \
                and len(e["obs"]) >= 2 and e["obs"][0] != e["obs"][1]:
            e["obs"][0], e["obs"][1] = e["obs"][1], e["obs"][0]
            return t
        if how == "refuse" and e["op"] == "close" and e["res"] == "ok" and e["obs"]:
            e["res"] = "ValueError"                            # refused to write a non-empty list
            return t
        if how == "doc" and e["op"] == "close":
            e["doc"] = "text outside the field changed"
            return t
        if how == "open" and e["op"] == "open" and e["obs"]:
            e["obs"] = e["obs"][1:]                            # first value not read
            return t
    return None


def tlc_trace(t):
    return {"mode": t["mode"], "keep": bool(t.get("keep")), "lay": t["lay"],
            "events": [dict(e, hash=bool(e.get("hash")), bad=bool(e.get("bad"))) for e in t["events"]]}


def validate(ctx, traces, with_controls=True):
    controls = []
    if with_controls:
        for how in ("drop", "order", "refuse", "doc", "open", "badmoved", "staleround", "faultwrote", "faultfree"):
            for t in traces:
                c = corrupt(t, how)
                if c:
                    controls.append(tlc_trace(c))
                    break
    acc, _, r = core.validate_traces(ctx, "TraceListView", "TraceListView.cfg", [tlc_trace(t) for t in traces],
                                     extra_env={"TRACE_DIAG": "0"}, controls=controls)
    rejected = [i for i in range(1, len(traces) + 1) if i not in acc]
    info = {}
    if rejected:
        sub = [tlc_trace(traces[i - 1]) for i in rejected[:20]]
        _, prog, _ = core.validate_traces(ctx, "TraceListView", "TraceListView.cfg", sub, extra_env={"TRACE_DIAG": "1"})
        for j, i in enumerate(rejected[:20]):
            info[i] = prog.get(j + 1, 0)
    return rejected, info, len(controls)


# ------------------------------------------------------------------ the check

def run(ctx):
    quick = ctx.tier == "quick"
    rng = ctx.rng
    ctx.assumptions += [
        "layout tokens: word, comma, blanks, newline, continuation blank, comment line; bounds quick: <=3 words/7 tokens/1 comment line x 2 calls; thorough: <=4 words/9 tokens/2 comment lines x 2 calls and <=2 words/6 tokens x 3 calls (the final newline counts as a token); replayed cases: a 1/64 (quick, at most 3000 cases) or 1/4 (thorough) slice of the layouts <=3 words/7 tokens x 2 calls chosen by the seed, plus every layout with a comment line inside a value",
        "valid new values are single items of the interpretation (no leading '#'); texts that are NOT a single item (inner separators with text on both sides, blanks/separators at the ends, empty, bare newline) are handed in as ordinary steps and must be refused without any effect on this or a later call -- if one is accepted the execution is unspecified from there; append_separator on a space list and sort are not exercised",
        "one list object is entered several times (after close, abort, refused and faulted closes), with rounds that edit the list back to an earlier content; a caller-supplied formatter that raises: its exception object comes out of __exit__, nothing is written, the object keeps its edits and writes them in a later round",
        "removing the only value: modelled as the code does (ValueError on leaving the with-block, document untouched)",
        "remove/replace of an absent value and append_newline after a newline: only 'the list does not change' is a verdict, the exception is a diagnostic",
        "several views at once: what a view shows depends only on the calls made on it; two writers on one field, what the other interpretation reads after a write, and empty lists are unspecified (document-level checks only); a ValueReference whose value was removed must fail (not generated in replay); a partially consumed iter_value_references() is closed before the list is edited",
        "size: words/blank runs/comment lines of boundary lengths up to 8193 (65535+ thorough), lists up to 1000 values, 99-257 comment lines between/inside values, 100 appends + 100 removes in one with-block; empty fields ('F:\\n') are not generated (the views assert content)",
        "API surface: every public entry point of the module docstring's table is exercised on a rotating sample in both tiers; discard_comments_on_read=False only in recorded traces (reference SplitKeep); a with-block left by an exception must write nothing",
        "trusted: TLC, the concretizer (words/blanks/comments per token), projections list(view), dump(), byte comparison around the field",
    ]
    # 1. design level (independent of /repo): all layouts x edit sequences; runs beside the replay
    design = {}

    def design_run():
        try:
            cfgs = ["MC_ListViewImpl_quick.cfg"] if quick else ["MC_ListViewImpl.cfg", "MC_ListViewImpl_deep.cfg"]
            design["runs"] = [ctx.tlc_must_hold("ListViewImpl", c, workers=6 if quick else 12) for c in cfgs]
            design["multi"] = ctx.tlc_must_hold("ListViewMulti", "MC_ListViewMulti_quick.cfg" if quick else "MC_ListViewMulti.cfg",
                                                workers=6 if quick else 12)
            if not quick:
                neg = {}
                for name, inv in (("remove", "StillValid"), ("leak", "Refines"), ("cont", "StillValid"), ("cmtnl", "StillValid")):
                    r = ctx.tlc("ListViewImpl", "MC_ListViewImpl_neg_%s.cfg" % name, count=False, workers=2)
                    if r.violated != inv:
                        raise core.MachineryError("negative control %s: expected %s to fail, TLC says %r" % (name, inv, r.violated))
                    neg[name] = r.violated
                r = ctx.tlc("ListViewMulti", "MC_ListViewMulti_neg_cache.cfg", count=False, workers=2)
                if r.violated != "Isolation":
                    raise core.MachineryError("negative control SharedTokenCache: expected Isolation to fail, TLC says %r" % r.violated)
                neg["shared-token-cache"] = r.violated
                r = ctx.tlc("ListViewMulti", "MC_ListViewMulti_neg_stale.cfg", count=False, workers=2)
                if r.violated != "WriteBack":
                    raise core.MachineryError("negative control StaleSnapshot: expected WriteBack to fail, TLC says %r" % r.violated)
                neg["stale-snapshot"] = r.violated
                design["neg"] = neg
        except BaseException as e:      # re-raised in the main thread
            design["error"] = e
    def emit_run():
        try:
            if quick:
                emits = [emit_cfg(3, 7, 1, 2, 64, ctx.seed % 64)]
            else:
                emits = [emit_cfg(3, 7, 1, 2, 4, ctx.seed % 4), emit_cfg(3, 8, 2, 1, 2, ctx.seed % 2)]
            out = []
            for cfg in emits:
                r = ctx.tlc("ListViewImpl", cfg, workers=1, want_tags={"CASE"})
                if r.violated:
                    raise core.MachineryError("emission run violated %s" % r.violated)
                out += r.printed.get("CASE", [])
            if len(out) < 100:
                raise core.MachineryError("only %d cases emitted" % len(out))
            design["cases"] = out
        except BaseException as e:
            design["error"] = e

    def sim_run():
        try:
            design["walks"] = multi.simulate_cases(ctx, "ListViewMulti", multi.sim_cfg(12 if quick else 14), 30 if quick else 500, 14 if quick else 16, ctx.seed + 1)
        except BaseException as e:
            design["error"] = e
    threads = [threading.Thread(target=f) for f in (design_run, emit_run, sim_run)]
    for th in threads:
        th.start()

    try:
        n_replayed = 0
        # 3. code -> spec: recorded executions on long layouts, validated by TLC
        ntr = 250 if quick else 8000
        traces = []
        for i in range(ntr):
            mode = "sp" if i % 2 == 0 else "cm"
            t = record_trace(rng, mode, rng.randint(1, 8), rng.randint(1, 3), 5)
            if blank_first_line(mode, t["lay"]) and t["events"][0]["res"].startswith("EXC") and ctx.known_open(KNOWN_BLANK_FIRST):
                ctx.known_hit(KNOWN_BLANK_FIRST)
                continue
            if hash_after_colon(t["lay"], t["script"]["conc"]["texts"]) and ctx.known_open(KNOWN_HASH_COLON):
                ctx.known_hit(KNOWN_HASH_COLON)
                continue
            traces.append(t)
        # size stress: counts of values / comment lines / continuation lines / consecutive edits
        nstress = 0
        plan = []
        for rep in range(1 if quick else 6):
            for mode in ("sp", "cm"):
                plan += [(mode, "oneline", rng.choice(COUNTS[:6]), None), (mode, "perline", rng.choice(COUNTS[3:11]), None),
                         (mode, "leadsep", rng.choice(COUNTS[8:14]), None), (mode, "oneline", rng.choice(COUNTS[11:]), None),
                         (mode, "comments", rng.choice([99, 100, 101, 128]), [["remove@mid", "append"], ["remove@last"]]),
                         (mode, "comments", rng.choice([100, 257]), [["remove@last", "remove@last"]]),
                         (mode, "perline", rng.choice([9, 10, 11]),
                          [["append"] * rng.choice([99, 100, 101]) + ["remove@first", "remove@last", "remove@mid"] * 33 + ["remove@last"]])]
            plan += [("cm", "inner", rng.choice([99, 100, 101]), [["append", "remove@first"], ["remove@first", "replace@first"]]),
                     ("cm", "inner", 100, [["remove@mid"]]),
                     (rng.choice(["sp", "cm"]), "perline", 1000, None)]
        for mode, kind, n, forced in plan:
            traces.append(record_trace(rng, mode, 0, len(forced) if forced else 2, 6, lay=stress_layout(rng, mode, kind, n),
                                       forced=forced, stress=True, huge=(not quick and n < 20)))
            nstress += 1
        ctx.extra["stress_traces"] = nstress
        mtraces = [multi.record_multi(rng, 30) for _ in range(100 if quick else 2000)]
        rejected, info, ncontrols = validate(ctx, traces)
        ctx.traces += len(traces)
        ctx.evaluations += len(traces)
        for i in range(len(traces)):
            ctx.distinct.add(("trace", i))
        t0 = max(traces[:50], key=lambda t: len(t["events"]))
        ctx.sample("recorded trace on %r: %s" % (
            Conc.from_json(t0["script"]["conc"]).value_text(),
            json.dumps([[e["op"], e["v"], e["w"], e["i"], e["res"], e["obs"]] for e in t0["events"][:5]], separators=(",", ":"))))
        for i in rejected[:5]:
            t = traces[i - 1]
            at = info.get(i, 0)
            ev = t["events"][at] if at < len(t["events"]) else None
            ctx.violation({"kind": "trace", "script": t["script"], "mode": t["mode"], "first_unexplained_event": at + 1},
                          "recorded execution on field text %r not explained by ListView: event %d %s (after %d accepted events)"
                          % (Conc.from_json(t["script"]["conc"]).value_text(), at + 1, json.dumps(ev), at))
        ctx.extra["traces_recorded"] = len(traces)
        evs = [e for t in traces for e in t["events"]]
        ctx.extra["trace_history_shapes"] = {
            "refused_values": sum(1 for e in evs if e.get("bad")),
            "valid_calls_right_after_a_refused_value": sum(1 for t in traces for a, b in zip(t["events"], t["events"][1:])
                                                           if a.get("bad") and not b.get("bad") and b["op"] in ("append", "replace", "refset", "open", "close")),
            "same_object_entered_again": sum(1 for e in evs if e["op"] == "reenter"),
            "rounds_back_to_an_earlier_content": sum(t.get("undo_rounds", 0) for t in traces),
            "faulty_formatter_installed": sum(1 for e in evs if e["op"] in ("vfmtx", "vfmtxf")),
            "leaving_raised_the_callers_fault": sum(1 for e in evs if e["op"] == "close" and e["res"] == "Fault"),
            "refused_value_accepted_(unspecified,_trace_cut)": sum(len(t.get("unspecified", [])) for t in traces)}
        for t in traces:
            for u in t.get("unspecified", [])[:1]:
                ctx.drift("trace: " + u)
        ctx.extra["traces_rejected"] = len(rejected)
        ctx.extra["trace_events"] = sum(len(t["events"]) for t in traces)
        ctx.extra["trace_max_values"] = max(len(e["obs"]) for t in traces for e in t["events"])

        mrej, minfo, _ = multi.validate_multi(ctx, mtraces)
        ctx.traces += len(mtraces)
        ctx.evaluations += len(mtraces)
        for i in mrej[:5]:
            t = mtraces[i - 1]
            at = minfo.get(i, 0)
            ev = t["events"][at] if at < len(t["events"]) else None
            ctx.violation({"kind": "multitrace", "script": t["script"], "first_unexplained_event": at + 1},
                          "several views on document %r: event %d %s not explained by ListViewMulti (after %d accepted events)"
                          % (t["text"], at + 1, json.dumps(ev), at))
        ctx.sample("multi-view trace: " + json.dumps([[e["op"], e["h"], e["d"], e["f"], e["m"], e["res"], e["all"]]
                                                      for e in mtraces[0]["events"][:6]], separators=(",", ":")))
        ctx.extra["multi"] = {"traces_recorded": len(mtraces), "traces_rejected": len(mrej),
                              "events": sum(len(t["events"]) for t in mtraces),
                              "refused_values": sum(1 for t in mtraces for e in t["events"] if e["op"].startswith("bad")),
                              "same_object_entered_again": sum(1 for t in mtraces for e in t["events"] if e["op"] == "reenter")}
        # 2. spec -> code: cases printed by TLC (emitted in the background meanwhile)
        threads[1].join()
        if "error" in design:
            raise design["error"]
        cases = design["cases"]
        if quick and len(cases) > 3600:      # keep the budget: values that run over several lines first, of the
            first = [c for c in cases if any(len(v) > 1 for v in c["v0"])][:1800]      # others a sample drawn by the seed
            rest = [c for c in cases if not any(len(v) > 1 for v in c["v0"])]
            keep = set(rng.sample(range(len(rest)), min(len(rest), 3600 - len(first))))
            cases = first + [c for i, c in enumerate(rest) if i in keep]
        elif not quick and len(cases) > 80000:      # (the refused-value steps added half as many cases again)
            keep = set(rng.sample(range(len(cases)), 80000))
            cases = [c for i, c in enumerate(cases) if i in keep]
        per_op = {}
        nconc = 1
        for ci, case in enumerate(cases):
            for c in range(nconc):
                # canonical minimal form every 4th case, a size-stressed one (boundary lengths of words,
                # blank runs and comment lines) every 8th
                handed_in = [x[0] for o in case["ops"] for x in ((o["v"] if o["op"] == "append" else []), o["w"]) if len(x) == 1]
                conc = Conc(rng, case["mode"], case["lay"], canonical=(c == 0 and ci % 4 == 0), stress=(ci % 8 == 2),
                            safe=handed_in)
                msg = run_case(ctx, case, conc, drift=ctx.drift)
                n_replayed += 1
                key = (case["mode"], tuple(case["lay"]), tuple((o["op"], json.dumps(o["v"]), o["i"]) for o in case["ops"]))
                ctx.case_seen(key, bool(case["ops"]))
                if msg:
                    ctx.violation({"kind": "case", "case": case, "conc": conc.to_json()}, msg)
                    break
            for o in case["ops"]:
                per_op[o["op"]] = per_op.get(o["op"], 0) + 1
            if len(ctx.violations) >= 5:
                break
            if ci in (len(cases) // 3, 2 * len(cases) // 3) and case["ops"]:
                conc = Conc(rng, case["mode"], case["lay"])
                ctx.sample("case %s %r: %s -> list %s, leaving: %s" % (
                    case["mode"], conc.value_text(), [(o["op"], o["v"], o["w"], o["i"]) for o in case["ops"]],
                    case["vals"], case["cres"]))
        ctx.extra["cases_emitted"] = len(cases)
        ctx.extra["cases_replayed"] = n_replayed
        ctx.extra["calls_per_action"] = per_op
        ctx.extra["cases_by_outcome"] = {k2: sum(1 for c in cases if c["cres"] == k2) for k2 in ("ok", "nowrite", "ValueError")}

        ctx.traces += n_replayed
        # 4. several views at once (ListViewMulti): simulated behaviours replayed, recorded interleavings validated
        for th in threads[1:]:
            th.join()
        if "error" in design:
            raise design["error"]
        walks = design["walks"]
        nm = 0
        for wk in walks:
            if len(ctx.violations) >= 5:
                break
            mconc = multi.replay_conc(rng)
            msg = multi.run_multi_case(ctx, wk, mconc, rng.randrange(2))
            nm += 1
            ctx.case_seen(("walk", nm), True)
            if msg:
                ctx.violation({"kind": "multicase", "case": wk, "mconc": mconc.to_json()}, msg)
        ctx.traces += nm
        ctx.extra["multi"]["walks_replayed"] = nm
    finally:
        for th in threads:
            th.join()
    if "error" in design:
        raise design["error"]
    ctx.extra["constants"] = {
        "design": "MaxW=3 MaxT=7 MaxC=1 MaxEdits=2 Dups=FALSE" if quick else "MaxW=4 MaxT=9 MaxC=2 MaxEdits=2; MaxW=2 MaxT=6 MaxC=1 MaxEdits=3",
        "modes": ["sp", "cm"], "Dups": True, "Extras": True,
        "emission": "MaxW=3 MaxT=7 MaxC=1 MaxEdits=2 slice %d/64 + inner-comment layouts (at most 3000 cases)" % (ctx.seed % 64) if quick
                    else "MaxW=3 MaxT=7 MaxC=1 MaxEdits=2 slice %d/4; MaxW=3 MaxT=8 MaxC=2 MaxEdits=1 slice %d/2" % (ctx.seed % 4, ctx.seed % 2),
        "trace layouts": "<= 8 words generated (+ appended), 1-3 with-blocks x <= 5 calls"}
    ctx.extra["multi"]["model_states"] = design["multi"].distinct
    ctx.extra["model"] = {"design_runs": [{"distinct": r.distinct, "generated": r.generated, "wall_s": round(r.wall, 1)}
                                          for r in design["runs"]],
                          "negative_controls": design.get("neg", "run in the thorough tier")}


def replay(ctx, case):
    import random
    if case["kind"] == "case":
        return run_case(ctx, case["case"], Conc.from_json(case["conc"]))
    if case["kind"] == "trace":
        t = record_trace(random.Random(0), case["mode"], 0, 0, 0, script=case["script"])
        rejected, info, _ = validate(ctx, [t], with_controls=False)
        if rejected:
            at = info.get(1, 0)
            ev = t["events"][at] if at < len(t["events"]) else None
            return "execution still not explained by the specification at event %d: %s" % (at + 1, json.dumps(ev))
        return None
    if case["kind"] == "multicase":
        return multi.run_multi_case(ctx, case["case"], multi.MultiConc.from_json(case["mconc"]))
    if case["kind"] == "multitrace":
        t = multi.record_multi(random.Random(0), 0, script=case["script"])
        rejected, info, _ = multi.validate_multi(ctx, [t], with_controls=False)
        if rejected:
            at = info.get(1, 0)
            ev = t["events"][at] if at < len(t["events"]) else None
            return "interleaving still not explained by the specification at event %d: %s" % (at + 1, json.dumps(ev))
        return None
    return "unknown case kind"
