"""C20 -- the debtags database keeps its two indexes mutually inverse.

spec:      spec/Debtags.tla -- reference relation (P, T, R) + implementation layer (the db / rdb
           dictionaries, every DB method transcribed), model-checked closed by TLC:
           Inverse, Refines, QueriesAgree for histories of any length over 3 packages x 3 tags.
           Named deviation InsertNewTagStoresChars (known finding C20-insert-chars): OFF in the
           property configurations; MC_Debtags_dev.cfg switches it ON and TLC must report
           `Inverse` violated (spec-level negative control, run in every check).
binding:   (a) spec -> code: the complete LTS of the reference (EDGE/STATE lines printed by TLC)
               is replayed into debian.debtags.DB with concretized names; after every call the
               pair sets projected from db and from rdb and the key sets must equal the model
               state, the query methods must answer like the STATE table computed by TLC;
           (b) code -> spec: histories recorded from the real class over much larger alphabets
               are validated by TLC against spec/TraceDebtags.tla; corrupted control traces
               must be rejected.
sources:   copy() / reverse_copy() (and the pickle round trip) promise an INDEPENDENT collection
           (fix 86ec833, finding C20-shallow-copy): the source object of the last copy is kept
           and after every later call on the derived object its projection must still be the
           model state it had when it was copied (spec: src/sabs, SourceRefines; negative control
           ShallowCopy = TRUE -> TLC reports SourceInverse violated).
sharing:   (hardening after seeds C20-H / C20-J) the object a SHARING derivation was taken from is watched too
           (one watched object per history: class Objects; which one is the harness' choice, what it must show
           is the specification's):
           * reverse() is a VIEW on the same two dictionaries: whatever is inserted through the view (or through
             the view of the view) the ORIGINAL must show the reverse (the same) collection, hence stay mutually
             inverse -- for every size of the two indexes, in particular an EMPTY one (packages without tags,
             a tag_filter rejecting every tag, DB()).  spec: src.kind/link/sd/sr, Mirror, ViewAbs, action Switch
             ('back': the history continues on the original, the view is watched); TraceDebtags: TEvolve/TMirror;
             negative control ViewReplacesEmptyIndex (`self.db = db or {}`) -> TLC reports SourceRefines violated.
             The replay concretizes a reverse edge of the LTS taken on an intact view as GOING BACK to the
             original (same reference transition, TLC's expected state) and compares the watched original with
             the target of TLC's reverse edge after every call; the family "view" takes EVERY in-place transition
             of the LTS through a view, with a derivation of the original taken before (kept aside) and taken
             AGAIN after going back (it must be a derivation of the edited collection: memoised derivations).
           * choose_* / filter_* (set objects shared, new dictionaries): the source must stay what it was until an
             insert names an existing key of the tag index (it may reach a shared set: today the source then
             loses the inverse -- d.filter_tags(f).insert('x', {'t'}); d.choose_packages([p]).reverse().insert(..)
             -- the docstrings say "sharing": UNSPECIFIED, source released / src.unspec).  The filter_*_copy forms
             promise copied tagsets: watched like copy().  choose_packages_copy is documented as copying but
             stores self.db[pkg] itself (diagnostic sample, reported to the lead): treated as sharing.
           In domain because the statement quantifies over ALL histories of inserts and derivations and names
           reverse: the original of a view is a DB whose history contains the inserts made through its view.
failures:  a read() whose input or tag_filter raises part-way, a qread() of a truncated pickle and
           other raising calls (insert(pkg, None), a raising filter, read(None)) are injected in the
           replay and in the recorder, on empty and non-empty collections, and the history CONTINUES
           on the same object: the exception must propagate and the object must be consistent
           (unchanged, or a line-prefix collection / the new collection: spec ReadFails / QReadFails;
           negative controls NonAtomicRead, NonAtomicQread -> TLC reports Inverse violated).
faults of caller-supplied objects (notes/SIZE_STRESS.md part 5, hardening after seed C20-K): insert(pkg, source)
           with a tag source of the caller -- generator, iterator object, re-iterable object, map() over a function
           that raises, itertools.chain, an object whose copy() raises too -- that hands over the first k of n names
           (k = 0, 1, middle, n-1, n; known and new names, some twice) and then raises OSError / ValueError / KeyError
           / RuntimeError / a private exception class is an ORDINARY step of the histories in both legs (spec:
           InsertFails / IInsertFails, EDGE insert_fails in the replayed LTS: every transition is also taken AFTER
           such a failed call, through views, on copies, in the walks; TraceDebtags: "insert_fail"): an exception
           (type unspecified: today AttributeError from tags.copy()) comes out and the object is unchanged -- or
           holds the package consistently with a prefix of the names handed over (tolerated like the line prefix
           of a failed read; IInsertFailsAllowed) -- and the history continues: later calls, the watched object,
           kept derivations, fresh reads.  Negative control NonAtomicInsert (tag index updated while the source is
           consumed, db[pkg] bound afterwards) -> TLC reports Inverse violated.  In domain: the statement is about
           EVERY sequence of inserts, and a call that raised is a call of the sequence; what the statement fixes is
           only that the indexes stay mutually inverse and agree with the reference relation afterwards.
           qread() also gets file objects that RAISE OSError part-way (not only truncated ones); predicates of
           filter_* raising at their n-th call, choose_packages(iterable that raises after n names), qwrite() /
           dump() / dump_reverse() to a writer whose n-th write() raises are probes of the recorded histories.
           OUT of domain (diagnostic sample): a SET (subclass) whose own iteration raises -- tags.copy() works,
           db[pkg] is bound, the walk stops half-way: a hostile object rather than a failing source.
API surface (notes/API_SURFACE.md) -- every public way of loading, querying, deriving and writing;
R = replay of TLC's LTS, T = recorded traces validated by TLC, S = size-stress replay, X = cross-object
differential at the end of replayed behaviours; all in the quick tier on rotating samples, variants
are mixed inside one history (the variant is drawn per call):
  entry point / variant                                             exercised by
  ----------------------------------------------------------------  -----------------------------------
  DB.read(input_data, tag_filter): list of lines / iterator /        R T S  (via list|iter|gen|stringio|
    generator / io.StringIO / real text file / last line without       file|nonl; positional, keyword
    newline / tag_filter omitted, positional, keyword                   and omitted tag_filter)
    text layer (io.TextIOWrapper) over: unbuffered real file,         R T S  (via file0|short|gzip|bz2|lzma|
    BufferedReader on a raw stream with SHORT reads (not seekable),     spooled: notes/SIZE_STRESS.md part 4; the
    GzipFile / BZ2File / LZMAFile (on BytesIO and on a real file),      cheap forms carry most cases, each of these
    tempfile.SpooledTemporaryFile                                       a rotating share, ctx.extra file_object_kinds)
    block alignment: blank-line padding puts a line end / its newline  R T    (st["align"]: offsets 2^k, k=9..17, -1/0/+1,
    / the separator / a line start / a middle byte at 2^k (+-1)         bytes for byte-backed forms; aligned_cases)
  read_tag_database, read_tag_database_reversed,                     R T X  (via fn|fn_rev|fn_bw: a new DB
    read_tag_database_both_ways(+tag_filter pos/kw), reverse(db)        filled by the module readers;
    and readTagDatabase* aliases; parse_tags (under all of them)        X: output() text read back)
  DB.qwrite / DB.qread: io.BytesIO and real binary file              R T S  (qread into the same object,
                                                                        pickle copy into a new one)
    qread(file) positional / keyword from: buffered and unbuffered     R T S  (BIN_KINDS file|file0|short|gzip|bz2|
    real file, BufferedReader on a short-read raw stream, GzipFile /    lzma|spooled; also for truncated pickles)
    BZ2File / LZMAFile (fileno() names the compressed file), Spooled
    qwrite() appending to a file that already holds data, qread()      R T    (st["align"] of a qread: the end of the
    from that position                                                    first pickle at 2^k, k=9..17, -1/0/+1)
  pickle.dumps/loads(db), copy.deepcopy(db)                          R T    (copy variants objpickle|deepcopy)
  copy.copy(db)                                                      out of domain: Python's shallow copy
                                                                        shares both dictionaries by definition
  DB.dump(), output(db), DB.dump_reverse()/dumpReverse() then read   R T S  (actions DumpRead / DumpReverseRead:
                                                                        keys without pairs are not written)
  DB.insert(pkg, tags) positional / keyword                          R T
  DB.insert(pkg, <source of the caller raising after k names>)       R T    (insert_fails / "insert_fail": 6 shapes x 5
                                                                        exception types x k; see "faults")
  DB.copy, reverse_copy/reverseCopy, reverse                         R T S  (+ retained source, kept aside)
  reverse() as a view: inserts through the view / the view of the    R T    (watched original, 'back', family "view":
    view, original used again, derivations repeated around it           see "sharing")
  restrictions taking FEW of MANY names out (totals around 64, 72,   S T    (threshold_case: blow-ups with a dropped
    100, 128, 256, 512, 1000; dropped 1,2,3, 1/8 -1/0/+1, 1/4), a       SOLE carrier, every restrict variant; recorder:
    dropped name being the sole carrier of a tag                         histories with 64..128 packages, few dropped)
  choose_packages(_copy), filter_packages(_copy),                    R T S  snake_case and camelCase alias,
    filter_packages_tags(_copy), filter_tags(_copy), facet_collection   positional and keyword argument
  has_package, has_tag, tags_of_package, packages_of_tag, card,      R T S  (card, discriminance have no alias)
    discriminance, package_count, tag_count, iter_packages, iter_tags,  snake_case / alias, positional /
    iter_packages_tags, iter_tags_packages (+ camelCase aliases)        keyword
  tags_of_packages / packages_of_tags (+aliases)                     executed in every query round; value out
                                                                        of domain (docstring "all", code unions)
  relevance_index_function / relevanceIndexFunction                  X      (card**2 / card with TLC's cards)
  correlations(), ideal_tagset / idealTagset                         X      (same answers on a second object
                                                                        loaded through another entry point)
  failing read()/qread()/other raising calls                         R T S  (see "failures")
  qread(file raising OSError), filter_*(predicate raising at call    R T / T (qread_fail raises=True; probes pred_raises_at,
    n), choose_packages*(faulting iterable), qwrite/dump(failing fd)    choose_faulting, qwrite_fails, dump_fails)
  dunder protocols (len, in, iter, ==)                               not defined by DB
known finding: a replayed behaviour that diverges from the (deviation-off) model is recorded as a
           trace and handed to TLC with DEV=1 -- only while C20-insert-chars is open.  If TLC
           explains it with the deviation-on operators, every deviation step is counted with
           ctx.known_hit and the rest of the history was checked from the deviating state on;
           a trace TLC cannot explain that way is a VIOLATION.  With the finding not open DEV=0
           and the same divergence is a VIOLATION.
"""
import io
import json
import pickle

import core
from lts import LTS

MANIFEST = dict(
    technique="TLA+ spec (Debtags: reference relation (P,T,R) + implementation layer db/rdb with every DB method transcribed) model-checked closed by TLC; complete reference LTS replayed into debtags.DB; recorded histories validated by TLC (TraceDebtags); named deviation for the open known finding",
    text="TLC explores the closed state space of the two-layer model (3 packages of length 1/2/3 x 3 tags in 2 facets, reads with and without tag filter, inserts, reverse, copies, choose/filter derivations, facet collection; thorough: 4 packages) and checks in every reachable state that the two dictionaries are mutually inverse, refine the reference relation and that the query operators agree with it; with the named deviation InsertNewTagStoresChars switched on TLC reports Inverse violated (negative control). The source of every copy()/reverse_copy() is kept as a second observed object with explicit identities of shared set objects: it stays inverse and unchanged whatever is done to the copy (negative control ShallowCopy: TLC reports SourceInverse violated). Binding is two-way: every transition of the reference LTS plus random walks are replayed into the real DB class (all method variants: _copy forms, reverse/reverse_copy, copy/pickle) comparing both projected pair sets, key sets and all query methods with TLC's expected state, and the retained source of the last copy with the state it was copied in; histories recorded from the real class with up to 30 packages and arbitrary names are validated by TLC. Failing calls are part of the histories (read() whose input or tag_filter raises part-way, qread() of a truncated pickle or from a file object that raises, insert() whose caller-supplied tag source raises after handing over k names -- generators, iterator objects, map/chain, five exception types --, other raising calls): the exception must propagate and the object stay consistent (negative controls NonAtomicRead / NonAtomicQread / NonAtomicInsert). Derivations are also taken and kept aside while the same object is re-read (read / qread) and derived from again (negative control ReverseViewCached); every method is also called through its deprecated camelCase alias on several live objects (negative control AliasBoundToFirstObject). reverse() is a view: the original of a view is watched while inserts go through the view (and the view while the original is used again), it must show the reverse collection for every size of the indexes including empty ones (negative control ViewReplacesEmptyIndex); every in-place transition of the LTS is taken through a view with a derivation of the original taken before and again afterwards; restrictions that take few of many names out (totals around 64..1000, a dropped sole carrier of a tag) are replayed as blow-ups of TLC's abstract cases; inputs go through every kind of file object (short-read streams, decompressing wrappers, unbuffered and spooled files) with line ends aligned at 2^k offsets. Names are stressed by characters (non-NFC twins, case hazards, non-BMP, format characters) in both legs and by size in the replay leg (stretched names up to 4 KiB; blow-ups of abstract behaviours to 10 000 packages / 1 000 tags a package). Divergences exactly explained by the known finding C20-insert-chars are counted as KNOWN-FINDING by TLC re-validating the history with the deviation-on operators; anything else is a violation.",
    note="Small-scope: model constants 3 (4) packages x 3 tags; concretization of names is sampled. Domain: fresh package names for insert, each package on one line for read, facet_collection on facet::name tags, one current object plus ONE watched object: the source of the last copy()/reverse_copy(), the original of a reverse() view (must follow the view) or the source of a set-sharing restriction (unchanged until an insert may reach a shared set; what it shows afterwards is unspecified: the docstrings say 'sharing'); the model watches a source for 2 further calls, the binding until the next retained derivation. Unicode whitespace inside names is excluded (parse_tags treats it as format whitespace); size stress runs only on behaviours without insert/facet_collection (no known deviation there) and is judged against the blow-up of TLC's abstract expectation. Trusted: TLC, the projections of DB.db/DB.rdb, the concretizer. Corrupted control traces must be rejected in every run.",
    design="5 (C20)")

ALIGN_P = [0.005]         # share of the replayed read() calls that get an alignment case (the recorder: 0.15)
KNOWN = "C20-insert-chars"
KNOWN_Q = "C20-qread-nonatomic"     # fixed by 65b1608: nothing is suppressed unless it is re-opened
JUNK = ("_zz", "_")        # names outside every alphabet used by the concretizer
TRACE_MOD, TRACE_CFG = "TraceDebtags", "TraceDebtags.cfg"

# ------------------------------------------------------------------ concretization
ALPHA = "abcdefghijklmnopqrstuvwxyz0123456789-+."
EXOTIC = "éßжλ中"
CANON = {1: "p", 2: "a", 3: "b", 4: "c", 5: "d", 6: "f", 7: "g", 8: "h", 9: "i", 10: "j", 11: "k", 12: "l"}


# Part 2 of notes/SIZE_STRESS.md: characters that are not NFC/NFKC-stable next to their twins
# (1 -> U+00E9 and <<2,3>> -> e + U+0301 are DIFFERENT packages), case-mapping hazards, non-BMP,
# format characters.  Unicode WHITESPACE is excluded: parse_tags' own \s treats it as format whitespace.
STRESS = {
    "nfc":   {1: "\u00e9", 2: "e", 3: "\u0301", 4: "\u212b", 5: "\u00c5", 6: "\u00df", 7: "\u0130", 8: "\u0131",
              9: "\u017f", 10: "\U0001F600", 11: "\ufb01", 12: "\uff21"},
    "marks": {1: "\ufeff", 2: "\u200d", 3: "\u00ad", 4: "\u200f", 5: "\U0010FFFF", 6: "\u1100", 7: "\u1161", 8: "\u03c2",
              9: "\u03c3", 10: "\U00010400", 11: "\U00010428", 12: "\uf9d0"},
    "case":  {1: "K", 2: "k", 3: "\u212a", 4: "S", 5: "s", 6: "I", 7: "i", 8: "\u0131", 9: "\u0130", 10: "\u00df", 11: "\u1e9e", 12: "\u017f"},
}
STRESS_POOL = "".join(sorted({c for m in STRESS.values() for c in m.values()})) + "\u200b\u0300\u1112\u11a8\U0001F1E9"
# code -> repetition: multi-character package names (codes 2-5, 11, 12) and the tag part after '::'
# (codes 8, 9) may be stretched; single-character names, facets and ':' never are (a stretched
# name has the same SET of characters, so the known insert deviation is concretized exactly)
STRETCH_PKG, STRETCH_TAG = (2, 3, 4, 5, 11, 12), (8, 9)
PKG_REPS = (1, 4, 8, 16, 21, 32, 43, 64, 85, 128, 341, 512, 1365, 2048)        # x2 / x3 code names: 8..4096
TAG_REPS = (1, 7, 15, 31, 63, 127, 255, 1023, 4091)


class Conc:
    """injective map model character code -> real character (0 is ':'), hence model name -> real name;
    rep stretches a code to a run of the same character (size stress)"""

    def __init__(self, rng=None, canonical=False, cmap=None, rep=None, flavour=None):
        if cmap is not None:
            self.cmap = {int(k): v for k, v in cmap.items()}
        elif canonical:
            self.cmap = dict(CANON)
        elif flavour in STRESS:
            self.cmap = dict(STRESS[flavour])
        else:
            pool = ALPHA + (EXOTIC if rng.random() < 0.3 else "")
            self.cmap = dict(zip(sorted(CANON), rng.sample(pool, len(CANON))))
        self.cmap[0] = ":"
        self.rep = {int(k): v for k, v in (rep or {}).items()}
        if flavour == "size":
            rp, rt = rng.choice(PKG_REPS), rng.choice(TAG_REPS)
            self.rep = dict([(c, rp) for c in STRETCH_PKG] + [(c, rt) for c in STRETCH_TAG])
        self._cache = {}

    def name(self, seq):
        t = tuple(seq)
        r = self._cache.get(t)
        if r is None:
            rep = self.rep if len(t) > 1 else {}
            r = self._cache[t] = "".join(self.cmap[c] * rep.get(c, 1) for c in t)
        return r

    def names(self, seqs):
        return {self.name(s) for s in seqs}

    def to_json(self):
        return {"cmap": {str(k): v for k, v in self.cmap.items()}, "rep": {str(k): v for k, v in self.rep.items()}}

    @classmethod
    def from_json(cls, j):
        if "cmap" not in j:
            return cls(cmap=j)
        return cls(cmap=j["cmap"], rep=j.get("rep"))


# ------------------------------------------------------------------ driving the real object

# every public method of DB that has a deprecated camelCase alias (the alias is the same action)
ALIAS = {"dump_reverse": "dumpReverse", "facet_collection": "facetCollection", "reverse_copy": "reverseCopy", "choose_packages": "choosePackages",
         "choose_packages_copy": "choosePackagesCopy", "filter_packages": "filterPackages",
         "filter_packages_copy": "filterPackagesCopy", "filter_packages_tags": "filterPackagesTags",
         "filter_packages_tags_copy": "filterPackagesTagsCopy", "filter_tags": "filterTags",
         "filter_tags_copy": "filterTagsCopy", "has_package": "hasPackage", "has_tag": "hasTag",
         "tags_of_package": "tagsOfPackage", "packages_of_tag": "packagesOfTag", "iter_packages": "iterPackages",
         "iter_tags": "iterTags", "iter_packages_tags": "iterPackagesTags", "iter_tags_packages": "iterTagsPackages",
         "package_count": "packageCount", "tag_count": "tagCount", "tags_of_packages": "tagsOfPackages",
         "packages_of_tags": "packagesOfTags", "ideal_tagset": "idealTagset"}


def meth(obj, name, alias):
    """the bound method `name` of obj, through its deprecated alias when asked for (and present)"""
    if alias and name in ALIAS:
        m = getattr(obj, ALIAS[name], None)
        if m is not None:
            return m
    return getattr(obj, name)


def quiet_deprecations():
    import warnings
    warnings.filterwarnings("ignore", category=DeprecationWarning)


WORKDIR = [None]          # scratch directory of the run (real files are created there)


class _ShortRaw(io.RawIOBase):
    """a raw stream that returns SHORT reads (1..7 bytes per call)"""

    def __init__(self, data):
        io.RawIOBase.__init__(self)
        self._d, self._p, self._n = data, 0, 0

    def readable(self):
        return True

    def readinto(self, b):
        self._n += 1
        k = min(len(b), 1 + self._n % 7, len(self._d) - self._p)
        b[:k] = self._d[self._p:self._p + k]
        self._p += k
        return k


# kinds of BINARY file objects qread() is given (notes/SIZE_STRESS.md part 4); "" = io.BytesIO
BIN_KINDS = ("", "file", "file0", "short", "gzip", "bz2", "lzma", "spooled")
# kinds of TEXT inputs read() is given beside list / iterator / generator
TEXT_FILE_KINDS = ("stringio", "file", "short", "gzip", "bz2", "lzma", "spooled", "file0")
BYTE_BACKED = ("file", "short", "gzip", "bz2", "lzma", "spooled", "file0")


def _bin_reader(kind, data):
    """a binary file object of the given kind holding `data`, positioned at the start"""
    import tempfile
    if kind in ("file", "file0"):
        f = tempfile.NamedTemporaryFile("w+b", dir=WORKDIR[0])
        f.write(data)
        f.flush()
        if kind == "file":
            f.seek(0)
            return f
        g = open(f.name, "rb", buffering=0)         # unbuffered: io.FileIO
        f.close()                                   # (unlinked; g keeps the file)
        return g
    if kind == "short":
        return io.BufferedReader(_ShortRaw(data), buffer_size=rnd_bufsize(len(data)))
    if kind in ("gzip", "bz2", "lzma"):
        # decompressing wrappers: seekable, but fileno() (if any) names the COMPRESSED stream -- half of them
        # sit on a real file, the others on io.BytesIO
        import bz2
        import gzip
        import lzma
        comp = gzip.compress(data, 1) if kind == "gzip" else bz2.compress(data, 1) if kind == "bz2" else lzma.compress(data, preset=0)
        under = _bin_reader("file", comp) if len(data) % 2 else io.BytesIO(comp)
        return gzip.GzipFile(fileobj=under) if kind == "gzip" else bz2.BZ2File(under) if kind == "bz2" else lzma.LZMAFile(under)
    if kind == "spooled":
        f = tempfile.SpooledTemporaryFile(max_size=4096, dir=WORKDIR[0])    # rolls over to a real file beyond 4 KiB
        f.write(data)
        f.seek(0)
        return f
    return io.BytesIO(data)


def rnd_bufsize(n):
    return (16, 512, 4096, 8192)[n % 4]


def _qwritten(db):
    buf = io.BytesIO()
    db.qwrite(buf)
    return buf.getvalue()


def padded(text, align):
    """the lines with the blank-line padding of an alignment case put in (blank lines are no records)"""
    if not align:
        return text
    a = align["after"]
    return text[:a] + ["\n"] * align["n"] + text[a:]


class _text_input(object):
    """the documented input forms of read(): list of lines, iterator, generator, text file objects"""

    def __init__(self, via, text):
        self.via, self.text, self.f = via, text, None

    def __enter__(self):
        import tempfile
        if self.via == "list":
            return self.text
        if self.via == "gen":
            return (line for line in self.text)
        if self.via == "stringio":
            return io.StringIO("".join(self.text))
        if self.via == "file":
            self.f = tempfile.TemporaryFile("w+", dir=WORKDIR[0], encoding="utf-8", newline="")
            self.f.write("".join(self.text))
            self.f.seek(0)
            return self.f
        if self.via in ("short", "gzip", "bz2", "lzma", "file0"):     # text layer over the binary kinds
            self.f = io.TextIOWrapper(_bin_reader(self.via, "".join(self.text).encode("utf-8")), encoding="utf-8", newline="\n")
            return self.f
        if self.via == "spooled":
            self.f = tempfile.SpooledTemporaryFile(max_size=4096, mode="w+", dir=WORKDIR[0], encoding="utf-8", newline="\n")
            self.f.write("".join(self.text))
            self.f.seek(0)
            return self.f
        return iter(self.text)

    def __exit__(self, *exc):
        if self.f is not None:
            self.f.close()
        return False


class _Fault(Exception):
    """a private exception class of the caller"""


# notes/SIZE_STRESS.md part 5: objects the CALLER supplies fail at one particular step
FAULT_EXC = {"OSError": OSError, "ValueError": ValueError, "KeyError": KeyError, "private": _Fault, "RuntimeError": RuntimeError}
FAULT_EXCS = tuple(sorted(FAULT_EXC))
# shapes of a tag source that hands over some names and then raises: generator, iterator object, re-iterable
# object, map() over a function that raises for one element, itertools.chain ending in a faulting part, an
# object whose copy() raises as well
FAULT_SHAPES = ("gen", "gen", "iter", "iterable", "map", "chain", "copyfails")


def faulting_source(items, shape, excn):
    """an iterable that hands over `items` (in this order) and then raises FAULT_EXC[excn] instead of ending"""
    exc = FAULT_EXC[excn]
    items = list(items)

    def gen():
        for x in items:
            yield x
        raise exc("injected failure of the caller's tag source")
    if shape == "gen":
        return gen()
    if shape == "chain":
        import itertools
        return itertools.chain(items[:len(items) // 2], (x for x in items[len(items) // 2:]), gen_empty(exc))
    if shape == "map":
        end = object()

        def f(x):
            if x is end:
                raise exc("injected failure of the caller's function")
            return x
        return map(f, items + [end])
    if shape == "iter":
        class It(object):
            def __init__(self):
                self.i = 0

            def __iter__(self):
                return self

            def __next__(self):
                if self.i >= len(items):
                    raise exc("injected failure of the caller's iterator")
                self.i += 1
                return items[self.i - 1]
        return It()

    class Source(object):          # re-iterable: every pass fails at the same place
        def __iter__(self):
            return gen()

        def __len__(self):
            return len(items) + 1
    if shape == "copyfails":
        Source.copy = lambda self: (_ for _ in ()).throw(exc("injected failure of the caller's copy()"))
    return Source()


def gen_empty(exc):
    raise exc("injected failure of the caller's tag source")
    yield None           # pragma: no cover (makes this a generator)


class _FlakyReader(object):
    """a binary file object whose read()/readline() raise OSError once `cut` bytes were handed out (an I/O
    error instead of the early EOF of a truncated file)"""

    def __init__(self, data, cut):
        self._f = io.BytesIO(data[:cut])

    def read(self, n=-1):
        b = self._f.read(n)
        if n is None or n < 0 or len(b) < n:
            raise OSError("injected read failure")
        return b

    def readline(self):
        b = self._f.readline()
        if not b.endswith(b"\n"):
            raise OSError("injected read failure")
        return b

    def close(self):
        pass

    def __enter__(self):
        return self

    def __exit__(self, *exc):
        return False


class _FlakyWriter(object):
    """a file object whose k-th write() raises (k = 0: the first one)"""

    def __init__(self, k):
        self.k, self.n = k, 0

    def write(self, data):
        self.n += 1
        if self.n > self.k:
            raise OSError("injected write failure")
        return len(data)

    def flush(self):
        pass


def raises_at(k, pred=lambda x: True):
    """a caller-supplied predicate / key function that raises at its k-th call"""
    calls = [0]

    def f(x):
        calls[0] += 1
        if calls[0] == k:
            raise _Fault("injected failure of the caller's function at call %d" % k)
        return pred(x)
    return f


def do_call(cur, st):
    """one public call on the current object; returns (new current object, exception name or '')"""
    from debian import debtags
    op = st["op"]
    al = st.get("alias", False)
    try:
        kw = st.get("kw", False)                      # keyword instead of positional arguments
        via = st.get("via", "")
        if op in ("read", "qread", "pickle", "qread_fail"):
            key = "%s:%s" % ("read" if op == "read" else "qread", via or "bytesio")
            STATS["kinds"][key] = STATS["kinds"].get(key, 0) + 1
            if st.get("align") and op == "read":
                STATS["aligned"].append(dict(st["align"], via=via or "iter"))
        if op == "qread":                               # a successful qread() INTO the current object
            other = debtags.DB()
            other.read(iter(st["text"]))
            if via in ("", "file") and not st.get("kw"):          # written and read through the same file object
                import tempfile
                with (tempfile.TemporaryFile("w+b", dir=WORKDIR[0]) if via == "file" else io.BytesIO()) as f:
                    lead = 0
                    if st.get("align"):
                        # the file already holds `lead` bytes when qwrite() appends the two pickles: the END of the
                        # first pickle (the member boundary) lies at, one before or one after an offset 2^k
                        k, delta = st["align"]["k"], st["align"]["delta"]
                        first = len(pickle.dumps(other.db))
                        while (1 << k) + delta < first:
                            k += 1
                        lead = (1 << k) + delta - first
                        f.write(b"\0" * lead)
                        STATS["aligned"].append({"k": k, "delta": delta, "where": "end of the first pickle", "via": "qread:" + (via or "bytesio"), "n": lead})
                    other.qwrite(f)
                    f.seek(lead)
                    cur.qread(f)
            else:
                with _bin_reader(via, _qwritten(other)) as f:
                    if kw:
                        cur.qread(file=f)
                    else:
                        cur.qread(f)
            return cur, ""
        if op == "read":
            drop = set(st["drop"])
            filt = (lambda t: t not in drop) if st["usefilter"] else None
            text = padded(list(st["text"]), st.get("align"))
            if via == "nonl" and text and text[-1].endswith("\n") and text[-1].strip():
                text[-1] = text[-1][:-1]                # the last line of a file need not end in a newline
            if via in ("fn", "fn_rev", "fn_bw"):        # the module-level readers fill a NEW object
                new = debtags.DB()
                if via == "fn_bw":
                    f = getattr(debtags, "readTagDatabaseBothWays" if al else "read_tag_database_both_ways")
                    new.db, new.rdb = (f(iter(text), tag_filter=filt) if kw else f(iter(text), filt))
                else:
                    new.db = getattr(debtags, "readTagDatabase" if al else "read_tag_database")(iter(text))
                    new.rdb = (debtags.reverse(new.db) if via == "fn_rev" else
                               getattr(debtags, "readTagDatabaseReversed" if al else "read_tag_database_reversed")(text))
                return new, ""
            with _text_input(via, text) as src:
                if kw:
                    cur.read(input_data=src, tag_filter=filt)
                elif filt is None and via != "list":
                    cur.read(src)
                else:
                    cur.read(src, filt)
            return cur, ""
        if op == "insert":
            if kw:
                cur.insert(pkg=st["a"], tags=set(st["s"]))
            else:
                cur.insert(st["a"], set(st["s"]))
            return cur, ""
        if op == "insert_fail":                         # the caller's tag source raises after st["k"] names
            items = [t for t in st["seq"][:st["k"]] for _ in range(st.get("dup", 1))]
            src = faulting_source(items, st.get("shape", "gen"), st.get("excn", "OSError"))
            if kw:
                cur.insert(pkg=st["a"], tags=src)
            else:
                cur.insert(st["a"], src)
            return cur, ""
        if op == "reverse":
            return cur.reverse(), ""
        if op == "reverse_copy":
            return meth(cur, "reverse_copy", al)(), ""
        if op == "copy":
            return cur.copy(), ""
        if op == "pickle":                              # independent copies through the pickle / copy protocols
            if via == "objpickle":
                return pickle.loads(pickle.dumps(cur)), ""
            if via == "deepcopy":
                import copy
                return copy.deepcopy(cur), ""
            new = debtags.DB()
            with _bin_reader(via, _qwritten(cur)) as f:
                new.qread(f)
            return new, ""
        if op in ("dumpread", "dumprevread"):           # the printed text database read into a new DB
            import contextlib
            out = io.StringIO()
            with contextlib.redirect_stdout(out):
                if op == "dumprevread":
                    meth(cur, "dump_reverse", al)()
                elif via == "output":
                    debtags.output(cur.db)
                else:
                    cur.dump()
            new = debtags.DB()
            new.read(io.StringIO(out.getvalue()) if via != "lines" else out.getvalue().splitlines(True))
            return new, ""
        if op == "facet":
            return meth(cur, "facet_collection", al)(), ""
        if op == "read_fail":
            text = st["text"]
            if st["mode"] == "source":
                def source():
                    for i, line in enumerate(text):
                        if i == st["m"]:
                            raise IOError("injected input failure")
                        yield line
                    raise IOError("injected input failure")
                cur.read(source(), None)
            else:
                calls = [0]

                def strict(tag):
                    calls[0] += 1
                    if calls[0] == st["fcall"]:
                        raise ValueError("injected filter failure")
                    return True
                cur.read(iter(text), strict)
            return cur, ""
        if op == "qread_fail":
            other = debtags.DB()
            other.read(iter(st["text"]))
            buf = io.BytesIO()
            other.qwrite(buf)
            data = buf.getvalue()
            probe = io.BytesIO(data)
            pickle.load(probe)
            first = probe.tell()                      # end of the first pickle
            if st["k"] == 0:
                cut = int(st["cutfrac"] * first)
            else:
                cut = first + int(st["cutfrac"] * (len(data) - first))
            with (_FlakyReader(data, cut) if st.get("raises") else _bin_reader(st.get("via", ""), data[:cut])) as f:
                cur.qread(f)
            return cur, ""
        if op == "probe":                             # calls expected to raise; the result is dropped
            w = st["what"]
            if w == "insert_none":
                cur.insert(st["a"], None)
            elif w == "insert_int":
                cur.insert(st["a"], 5)
            elif w == "filter_raises":
                cur.filter_packages(lambda p: 1 // 0)
            elif w == "filter_tags_raises":
                cur.filter_tags(lambda t: 1 // 0)
            elif w == "choose_none":
                cur.choose_packages(None)
            elif w == "read_none":
                cur.read(None)
            # caller-supplied predicates / iterables / writers failing at their n-th step (the result is dropped)
            elif w == "pred_raises_at":
                m = meth(cur, st["method"], al)
                m(raises_at(st["n"]))
            elif w == "choose_faulting":
                keys = sorted(cur.db)[:st["n"]] if isinstance(cur.db, dict) else []
                meth(cur, st["method"], al)(faulting_source(keys, st.get("shape", "gen"), st.get("excn", "OSError")))
            elif w == "qwrite_fails":
                cur.qwrite(_FlakyWriter(st["n"]))
            elif w == "dump_fails":
                import contextlib
                with contextlib.redirect_stdout(_FlakyWriter(st["n"])):
                    (cur.dump if st["n"] % 2 else meth(cur, "dump_reverse", al))()
            return cur, ""
        S = set(st["s"])
        if op == "choose":
            return (meth(cur, "choose_packages", al)(package_iter=list(st["s"])) if kw else meth(cur, "choose_packages", al)(list(st["s"]))), ""
        if op == "choose_copy":
            return (meth(cur, "choose_packages_copy", al)(package_iter=list(st["s"])) if kw else meth(cur, "choose_packages_copy", al)(list(st["s"]))), ""
        if op == "filter_p":
            return (meth(cur, "filter_packages", al)(package_filter=lambda p: p in S) if kw else meth(cur, "filter_packages", al)(lambda p: p in S)), ""
        if op == "filter_p_copy":
            return (meth(cur, "filter_packages_copy", al)(filter_data=lambda p: p in S) if kw else meth(cur, "filter_packages_copy", al)(lambda p: p in S)), ""
        if op == "filter_pt":
            return (meth(cur, "filter_packages_tags", al)(package_tag_filter=lambda pt: pt[0] in S) if kw else meth(cur, "filter_packages_tags", al)(lambda pt: pt[0] in S)), ""
        if op == "filter_pt_copy":
            return (meth(cur, "filter_packages_tags_copy", al)(package_tag_filter=lambda pt: pt[0] in S) if kw else meth(cur, "filter_packages_tags_copy", al)(lambda pt: pt[0] in S)), ""
        if op == "filter_t":
            return (meth(cur, "filter_tags", al)(tag_filter=lambda t: t in S) if kw else meth(cur, "filter_tags", al)(lambda t: t in S)), ""
        if op == "filter_t_copy":
            return (meth(cur, "filter_tags_copy", al)(tag_filter=lambda t: t in S) if kw else meth(cur, "filter_tags_copy", al)(lambda t: t in S)), ""
    except Exception as e:            # an exception of the code under test is an observation
        return cur, type(e).__name__
    raise core.MachineryError("unknown op %r" % (op,))


def proj(cur):
    """the two dictionaries as {key: frozenset(members)}; (None, None, msg) if not projectable"""
    try:
        db = {k: frozenset(v) for k, v in cur.db.items()}
        rdb = {k: frozenset(v) for k, v in cur.rdb.items()}
        for d in (db, rdb):
            for k, v in d.items():
                if not isinstance(k, str) or not k or any(not isinstance(m, str) or not m for m in v):
                    return None, None, "non-string or empty name in the dictionaries: %r" % ({k: sorted(v, key=repr)},)
        return db, rdb, None
    except Exception as e:
        return None, None, "dictionaries not projectable: %s: %s" % (type(e).__name__, e)


def pairs(d):
    return {(k, m) for k, v in d.items() for m in v}


def ask(cur, names, alias=False, kw=False):
    """all query methods (through their deprecated aliases when alias); returns (answers dict,
    exception name or '')"""
    try:
        m = lambda n: meth(cur, n, alias)       # noqa: E731
        one = (lambda n, k, v: m(n)(**{k: v})) if kw else (lambda n, k, v: m(n)(v))       # noqa: E731
        a = dict(pc=m("package_count")(), tc=m("tag_count")(),
                 qn=list(names),
                 qtags=[frozenset(one("tags_of_package", "pkg", n)) for n in names],
                 qpkgs=[frozenset(one("packages_of_tag", "tag", n)) for n in names],
                 qcard=[(cur.card(tag=n) if kw else cur.card(n)) for n in names],
                 qdisc=[(cur.discriminance(tag=n) if kw else cur.discriminance(n)) for n in names],
                 qhasp=[one("has_package", "pkg", n) for n in names],
                 qhast=[one("has_tag", "tag", n) for n in names],
                 itp=list(m("iter_packages")()), itt=list(m("iter_tags")()),
                 itpt=[(k, frozenset(v)) for k, v in m("iter_packages_tags")()],
                 ittp=[(k, frozenset(v)) for k, v in m("iter_tags_packages")()])
        if names:       # union queries: executed (docstring says "all", the code unions: value out of domain)
            set(m("tags_of_packages")(list(names)))
            set(m("packages_of_tags")(list(names)))
        for c in a["qcard"] + a["qdisc"] + [a["pc"], a["tc"]]:
            if not isinstance(c, int) or isinstance(c, bool):
                return None, "TypeError(count %r)" % (c,)
        for b in a["qhasp"] + a["qhast"]:
            if not isinstance(b, bool):
                return None, "TypeError(bool %r)" % (b,)
        return a, ""
    except Exception as e:
        return None, type(e).__name__


# ------------------------------------------------------------------ encoding for TLC (names = code points)

def enc(n):
    return [ord(c) for c in n]


def enc_set(s):
    return [enc(n) for n in sorted(s)]


def enc_dict(d):
    return [[enc(k), enc_set(d[k])] for k in sorted(d)]


COPY_OPS = ("copy", "reverse_copy", "pickle", "dumpread", "dumprevread")
FAIL_OPS = ("read_fail", "qread_fail", "probe", "insert_fail")
# derivations whose SOURCE may be retained as the watched object (TraceDebtags: CopyFormOps / ShareOps / reverse)
COPYFORM_OPS = ("filter_p_copy", "filter_pt_copy", "filter_t_copy")       # "with a copy of the tagsets"
SHARE_OPS = ("choose", "choose_copy", "filter_p", "filter_pt", "filter_t")  # share set objects with their source
RETAINABLE = COPYFORM_OPS + SHARE_OPS + ("reverse",)


class Objects:
    """the current object of a history and the WATCHED one: the source of the last copy (always retained),
    or of a sharing derivation when the call descriptor says retain (reverse(): the original of the view;
    choose_*/filter_*: the collection the sets are shared with).  op 'back' continues the history on the
    watched object and watches the former current one.  Which object is watched is the harness' choice;
    what it must show is decided by the specification."""

    def __init__(self):
        from debian import debtags
        self.cur = debtags.DB()
        self.src = None
        self.skind = ""        # how the watched object was retained: copy | view | part

    def call(self, st):
        """returns (exception name or '', sact) -- sact: 'retain' (the object the call was made on is
        now watched) / 'same'; None when the step is skipped (back without a watched object)"""
        if st["op"] == "back":
            if self.src is None:
                return None
            self.cur, self.src = self.src, self.cur
            return "", "same"
        before = self.cur
        self.cur, exc = do_call(self.cur, st)
        if exc:
            return exc, "same"
        if st["op"] in COPY_OPS or (st["op"] in RETAINABLE and st.get("retain")):
            self.src = before
            self.skind = "copy" if st["op"] in COPY_OPS + COPYFORM_OPS else ("view" if st["op"] == "reverse" else "part")
            return "", "retain"
        return "", "same"


def event_of(st, exc, db, rdb, answers=None, source=None, current=None, sact="same", skind=""):
    """trace event for TraceDebtags from a call descriptor and what was observed;
    source = (db, rdb) projection of the watched object (Objects), or None"""
    e = {"op": st["op"], "exc": exc, "db": enc_dict(db), "rdb": enc_dict(rdb), "slive": source is not None,
         "sact": sact, "skind": skind, "keep": current is not None}
    if current is not None:          # a kept derivation: db/rdb show the DERIVED object, cdb/crdb the current one
        e["cdb"], e["crdb"] = enc_dict(current[0]), enc_dict(current[1])
    if source is not None:
        e["sdb"], e["srdb"] = enc_dict(source[0]), enc_dict(source[1])
    op = st["op"]
    if op == "read":
        e["lines"] = [{"pkgs": enc_set(p), "tags": enc_set(t)} for p, t in st["lines"]]
        e["drop"] = enc_set(st["drop"]) if st["usefilter"] else []
    elif op == "qread":
        e["lines"] = [{"pkgs": enc_set(p), "tags": enc_set(t)} for p, t in st["lines"]]
    elif op == "insert":
        e["a"] = enc(st["a"])
        e["s"] = enc_set(st["s"])
    elif op == "insert_fail":
        e["a"] = enc(st["a"])
        e["seq"] = [enc(t) for t in st["seq"]]
        e["k"] = st["k"]
    elif op == "read_fail":
        e["lines"] = [{"pkgs": enc_set(p), "tags": enc_set(t)} for p, t in st["lines"]]
        e["drop"] = []
        e["k"] = st["k"]
        e["want"] = st["want"]
    elif op == "qread_fail":
        e["lines"] = [{"pkgs": enc_set(p), "tags": enc_set(t)} for p, t in st["lines"]]
        e["k"] = st["k"]
    elif op in ("probe", "back"):
        pass
    elif "s" in st and op not in ("q", "qs"):
        e["s"] = enc_set(st["s"])
    if op in ("q", "qs") or current is not None:
        a = answers
        if a is None:
            a = dict(pc=0, tc=0, qn=[], qtags=[], qpkgs=[], qcard=[], qdisc=[], qhasp=[], qhast=[], itp=[], itt=[], itpt=[], ittp=[])
        e.update(pc=a["pc"], tc=a["tc"], qn=[enc(n) for n in a["qn"]],
                 qtags=[enc_set(x) for x in a["qtags"]], qpkgs=[enc_set(x) for x in a["qpkgs"]],
                 qcard=a["qcard"], qdisc=a["qdisc"], qhasp=a["qhasp"], qhast=a["qhast"],
                 itp=[enc(n) for n in a["itp"]], itt=[enc(n) for n in a["itt"]],
                 itpt=[[enc(k), enc_set(v)] for k, v in a["itpt"]],
                 ittp=[[enc(k), enc_set(v)] for k, v in a["ittp"]])
    return e


def execute(plan):
    """run a plan (list of call descriptors) on a fresh DB and record one event per call.
    returns (events, problem): problem is a message when the state could not be projected"""
    objs = Objects()       # the current object and the watched one
    events = []
    for st in plan:
        current = None
        shown = None
        sact = "same"
        cur, srcobj = objs.cur, objs.src
        if st["op"] == "q":
            answers, exc = ask(cur, st["names"], st.get("alias", False), st.get("kw", False))
        elif st["op"] == "qs":                 # the query methods of the watched object
            if srcobj is None:
                continue
            answers, exc = ask(srcobj, st["names"], st.get("alias", False))
        elif st.get("keep"):                   # a derivation that is observed but does not become current
            shown, exc = do_call(cur, st)
            answers = None
            if not exc:
                try:
                    probe = sorted(shown.db)[:3] + sorted(shown.rdb)[:3] + list(st.get("names", ()))[:12]
                except Exception:
                    probe = []
                answers, qexc = ask(shown, probe, st.get("alias", False))
                exc = exc or ("queries:" + qexc if qexc else "")
        else:
            answers = None
            r = objs.call(st)
            if r is None:
                continue                       # back without a watched object
            exc, sact = r
            cur, srcobj = objs.cur, objs.src
        db, rdb, bad = proj(cur)
        if bad:
            return events, "after %s: %s" % (describe(st), bad)
        if shown is not None:
            current = (db, rdb)
            db, rdb, bad = proj(shown)
            if bad:
                return events, "after %s: derived object: %s" % (describe(st), bad)
        source = None
        if srcobj is not None:
            sdb, srdb, bad = proj(srcobj)
            if bad:
                return events, "after %s: the watched %s: %s" % (describe(st), SKIND_TEXT.get(objs.skind, "source"), bad)
            source = (sdb, srdb)
        try:
            events.append(event_of(st, exc, db, rdb, answers, source, current, sact, objs.skind))
        except Exception as e:
            return events, "after %s: answers not encodable (%s: %s)" % (describe(st), type(e).__name__, e)
    return events, None


SKIND_TEXT = {"copy": "source of the last copy", "view": "original of the reverse() view",
              "part": "collection the restriction shares its sets with"}


def describe(st):
    op = st["op"]
    if op == "back":
        return "[the history continues on the watched object: %s]" % st.get("why", "the original / the source")
    if op == "read":
        return "read(%s%s)%s" % (short("".join(st["text"])), ", tag_filter=not in %r" % (sorted(st["drop"]),) if st["usefilter"] else "",
                                 " [via %s%s]" % (st.get("via", "iter"), ", keywords" if st.get("kw") else "") if st.get("via") or st.get("kw") else "")
    if op == "insert":
        return "insert(%r, %r)" % (st["a"], sorted(st["s"]))
    if op == "insert_fail":
        return "insert(%r, <%s handing over %s and then raising %s>)" % (
            st["a"], {"gen": "generator", "iter": "iterator object", "iterable": "re-iterable object", "map": "map() over a function",
                      "chain": "itertools.chain", "copyfails": "iterable whose copy() raises too"}.get(st.get("shape", "gen"), st.get("shape")),
            short([t for t in st["seq"][:st["k"]] for _ in range(st.get("dup", 1))], 200), st.get("excn", "OSError"))
    if op == "qread":
        return "qread(pickle of %r)" % "".join(st["text"])
    if op == "qs":
        return "queries of the copied source"
    if op in ("dumpread", "dumprevread"):
        return "%s() printed and read() again [%s]" % (("dumpReverse" if st.get("alias") else "dump_reverse") if op == "dumprevread"
                                                        else ("output(db)" if st.get("via") == "output" else "dump"), st.get("via"))
    if op == "pickle" and st.get("via"):
        return "independent copy via %s" % st["via"]
    if op == "read_fail":
        return "read(%r) FAILING %s" % ("".join(st["text"]), "in the input after %d lines" % st["m"] if st["mode"] == "source"
                                        else "in tag_filter at its call %d" % st["fcall"])
    if op == "qread_fail":
        return "qread(pickle of %r %s in the %s pickle)" % ("".join(st["text"]), "from a file object raising OSError" if st.get("raises") else "truncated",
                                                           "first" if st["k"] == 0 else "second")
    if op == "probe":
        return "probe %s%s" % (st["what"], "".join(" %s=%r" % (k, st[k]) for k in ("method", "n", "shape", "excn") if k in st))
    if op == "q":
        return "queries"
    name = (ALIAS.get({"facet": "facet_collection", "choose": "choose_packages", "choose_copy": "choose_packages_copy",
                       "filter_p": "filter_packages", "filter_p_copy": "filter_packages_copy",
                       "filter_pt": "filter_packages_tags", "filter_pt_copy": "filter_packages_tags_copy",
                       "filter_t": "filter_tags", "filter_t_copy": "filter_tags_copy"}.get(op, op), op)
            if st.get("alias") else op) + (" [kept aside]" if st.get("keep") else "")
    if "s" in st:
        return "%s(%s)" % (name, short(sorted(st["s"])))
    return "%s()" % name


def short(x, limit=300):
    r = repr(x)
    return r if len(r) <= limit else r[:limit] + "...(%d chars)" % len(r)


# ------------------------------------------------------------------ spec -> code: replaying LTS paths

def read_text(rng, lines):
    """text lines for a collection given as [(pkgs, tags)], in one of the forms parse_tags accepts"""
    out = []
    groups = []
    for pk, tg in lines:
        pk = sorted(pk)
        rng.shuffle(pk)
        if len(pk) > 1 and rng.random() < 0.5:          # same tags, separate lines
            groups += [([p], tg) for p in pk]
        else:
            groups.append((pk, tg))
    rng.shuffle(groups)
    for pk, tg in groups:
        tg = sorted(tg)
        rng.shuffle(tg)
        if tg:
            out.append("%s:%s%s\n" % (", ".join(pk), rng.choice([" ", "  ", "\t"]), ", ".join(tg)))
        else:
            out.append("%s%s\n" % (", ".join(pk), rng.choice(["", ":", ": "])))
        if rng.random() < 0.1:
            out.append("\n")                             # not a record: skipped by parse_tags
    return out, [(sorted(p), sorted(t)) for p, t in groups]


# input forms of read(): list of lines, iterator, generator, text file objects, last line without newline;
# "fn*" = the module-level readers / reverse() filling a new object
# the cheap forms carry most cases, every other kind of file object a rotating share (quick-tier budget)
READ_VIAS = ("iter", "list", "gen", "nonl", "fn_bw", "stringio") * 5 + TEXT_FILE_KINDS
INPLACE_VIAS = ("iter", "list", "gen", "nonl", "stringio") * 5 + TEXT_FILE_KINDS
QREAD_VIAS = ("",) * 30 + BIN_KINDS
PICKLE_VIAS = QREAD_VIAS + ("objpickle", "deepcopy") * 5
ALIGN_K = (9, 9, 9, 9, 10, 10, 10, 10, 11, 11, 11, 12, 12, 12, 13, 13, 13, 14, 14, 15, 16, 17)
STATS = {"kinds": {}, "aligned": []}      # evidence: file-object kinds used, alignment cases built


def make_align(rng, text, via):
    """blank-line padding (blank lines are no records) that makes a line end, the newline itself, the
    package/tags separator, the start of a line or a byte in the middle of a line fall exactly at, one before
    or one after an offset 2^k (k = 9..17), measured in bytes for byte-backed inputs, else in characters"""
    if not text:
        return None
    size = (lambda t: len(t.encode("utf-8"))) if via in BYTE_BACKED else len
    j = len(text) - 1 if rng.random() < 0.4 else rng.randrange(len(text))
    line = text[j]
    where = rng.choice(("end", "end", "newline", "separator", "middle", "start"))
    inside = {"end": line, "newline": line[:-1] if line.endswith("\n") else line,
              "separator": line[:line.index(":")] if ":" in line else line, "middle": line[:len(line) // 2], "start": ""}[where]
    anchor = sum(size(t) for t in text[:j]) + size(inside)
    k, delta = rng.choice(ALIGN_K), rng.choice((-1, 0, 0, 1))
    while (1 << k) + delta < anchor:
        k += 1
    if k > 17:
        return None
    return {"after": rng.randint(0, min(j, 1)), "n": (1 << k) + delta - anchor, "k": k, "delta": delta, "where": where,
            "line": "last" if j == len(text) - 1 else j}


def concretize_step(e, conc, rng, junk):
    """one concrete call for a reference edge; where several methods implement the reference
    transition (Debtags.tla: variants) one of them is chosen"""
    op = e["op"]
    if op == "read":
        lines = [(conc.names(ln["pkgs"]), conc.names(ln["tags"])) for ln in e["lines"]]
        drop = conc.names(e["s"])
        text, glines = read_text(rng, lines)
        if not drop and rng.random() < 0.3:             # the same collection through qwrite/qread
            st = {"op": "qread", "text": text, "lines": glines, "via": rng.choice(QREAD_VIAS), "kw": rng.random() < 0.3}
            if rng.random() < 4 * ALIGN_P[0]:
                st.update(via=rng.choice(("", "file")), kw=False, align={"k": rng.choice(ALIGN_K), "delta": rng.choice((-1, 0, 0, 1))})
            return st
        usefilter = bool(drop) or rng.random() < 0.5
        vias = list(READ_VIAS) + ([] if usefilter else ["fn", "fn_rev"] * 4)
        st = {"op": "read", "text": text, "lines": glines, "drop": sorted(drop), "usefilter": usefilter,
              "via": rng.choice(vias), "kw": rng.random() < 0.3, "alias": rng.random() < 0.5}
        if rng.random() < ALIGN_P[0]:
            st["align"] = make_align(rng, text, st["via"])
        return st
    if op == "insert":
        return {"op": "insert", "a": conc.name(e["a"]), "s": sorted(conc.names(e["s"])), "kw": rng.random() < 0.3}
    if op == "insert_fails":
        # the caller's tag source hands over the first k names of TLC's sequence (some of them more than once:
        # a source need not be duplicate-free) and then raises
        return {"op": "insert_fail", "a": conc.name(e["a"]), "seq": [conc.name(t) for t in e["seq"]], "k": e["k"],
                "shape": rng.choice(FAULT_SHAPES), "excn": rng.choice(FAULT_EXCS), "dup": rng.choice((1, 1, 1, 2, 3)),
                "kw": rng.random() < 0.3}
    if op in ("dumpread", "dumprevread"):
        return {"op": op, "via": rng.choice(["dump", "output", "lines"]), "alias": rng.random() < 0.5}
    if op in ("read_fails", "qread_fails"):
        # the line ORDER is part of the case (prefixes): no shuffling here
        glines = [(sorted(conc.names(ln["pkgs"])), sorted(conc.names(ln["tags"]))) for ln in e["lines"]]
        text = ["%s: %s\n" % (", ".join(p), ", ".join(t)) if t else "%s\n" % ", ".join(p) for p, t in glines]
        k = e["k"]
        if op == "qread_fails":
            return {"op": "qread_fail", "text": text, "lines": glines, "k": k, "cutfrac": rng.random(), "via": rng.choice(QREAD_VIAS),
                    "raises": rng.random() < 0.3}
        st = {"op": "read_fail", "text": text, "lines": glines, "k": k, "m": k, "mode": "source", "fcall": 0, "want": "OSError"}
        if k < len(glines) and glines[k][1] and rng.random() < 0.5:
            st.update(mode="filter", fcall=1 + sum(len(t) for _, t in glines[:k]), want="ValueError")
        return st
    al = rng.random() < 0.5                             # through the deprecated camelCase alias
    kwf = rng.random() < 0.3                            # keyword instead of positional arguments
    if op == "reverse":
        return {"op": rng.choice(["reverse", "reverse_copy"]), "alias": al}
    if op == "copy":
        v = rng.choice(["copy", "copy", "pickle", "pickle"])
        return {"op": v, "via": rng.choice(PICKLE_VIAS) if v == "pickle" else ""}
    if op == "facet":
        return {"op": "facet", "alias": al}
    S = sorted(conc.names(e["s"]))
    if op == "filter_t":
        extra = [j for j in junk if rng.random() < 0.3]
        return {"op": e.get("variant") or rng.choice(["filter_t", "filter_t_copy"]), "s": sorted(set(S + extra)), "alias": al, "kw": kwf}
    if op == "restrict_p":
        present = conc.names(e["from"]["P"])
        absent = [j for j in junk if j not in present and rng.random() < 0.3]
        v = e.get("variant") or rng.choice(["choose", "choose", "choose_copy", "filter_p", "filter_p_copy", "filter_pt", "filter_pt_copy"])
        if v == "choose_copy":
            return {"op": v, "s": S, "alias": al, "kw": kwf}
        s = S + absent
        rng.shuffle(s)
        return {"op": v, "s": s if v == "choose" else sorted(set(s)), "alias": al, "kw": kwf}
    raise core.MachineryError("unknown edge op %r" % (op,))


def cstate(s, conc):
    return (conc.names(s["P"]), conc.names(s["T"]), {(conc.name(p), conc.name(t)) for p, t in s["R"]})


def compare_state(cur, s, conc, who=""):
    """verdict observables 1: key sets and the pair sets projected from db and from rdb = model"""
    db, rdb, bad = proj(cur)
    if bad:
        return who + bad
    P, T, R = cstate(s, conc)
    if set(db) != P:
        return "%spackages (keys of db) are %r, model says %r" % (who, sorted(db), sorted(P))
    if set(rdb) != T:
        return "%stags (keys of rdb) are %r, model says %r" % (who, sorted(rdb), sorted(T))
    pd = pairs(db)
    pr = {(p, t) for t, p in pairs(rdb)}
    if pd != R:
        return "%spairs in db are %r, model says %r" % (who, sorted(pd), sorted(R))
    if pr != R:
        return "%spairs in rdb are %r (package, tag), model says %r" % (who, sorted(pr), sorted(R))
    return None


def compare_queries(cur, table, conc, rng, junk, who=""):
    """verdict observables 2: the query methods answer like the reference (STATE table from TLC)"""
    names = [conc.name(n) for n in table["names"]]
    alias = rng.random() < 0.5
    m = _compare_queries(cur, table, conc, junk, names, alias, rng.random() < 0.3)
    return None if m is None else "%s%s%s" % (who, "(through the deprecated aliases) " if alias else "", m)


def _compare_queries(cur, table, conc, junk, names, alias, kw=False):
    a, exc = ask(cur, names + junk, alias, kw)
    if exc:
        return "query methods raised %s" % exc
    if a["pc"] != table["pc"] or a["tc"] != table["tc"]:
        return "package_count()/tag_count() = %r/%r, model says %r/%r" % (a["pc"], a["tc"], table["pc"], table["tc"])
    k = len(names)
    for i, n in enumerate(names):
        et, ep = conc.names(table["tagsOf"][i]), conc.names(table["pkgsOf"][i])
        if a["qtags"][i] != et:
            return "tags_of_package(%r) = %r, model says %r" % (n, sorted(a["qtags"][i]), sorted(et))
        if a["qpkgs"][i] != ep:
            return "packages_of_tag(%r) = %r, model says %r" % (n, sorted(a["qpkgs"][i]), sorted(ep))
        if a["qcard"][i] != table["card"][i]:
            return "card(%r) = %r, model says %r" % (n, a["qcard"][i], table["card"][i])
        if a["qdisc"][i] != table["disc"][i]:
            return "discriminance(%r) = %r, model says %r" % (n, a["qdisc"][i], table["disc"][i])
        if a["qhasp"][i] != table["hasP"][i]:
            return "has_package(%r) = %r, model says %r" % (n, a["qhasp"][i], table["hasP"][i])
        if a["qhast"][i] != table["hasT"][i]:
            return "has_tag(%r) = %r, model says %r" % (n, a["qhast"][i], table["hasT"][i])
    for i in range(k, k + len(junk)):       # names outside the model universe occur nowhere
        if a["qtags"][i] or a["qpkgs"][i] or a["qcard"][i] or a["qhasp"][i] or a["qhast"][i]:
            return "queries about the unknown name %r are not empty/0/False" % (junk[i - k],)
    ep = sorted(n for i, n in enumerate(names) if table["hasP"][i])
    et = sorted(n for i, n in enumerate(names) if table["hasT"][i])
    if sorted(a["itp"]) != ep:
        return "iter_packages() = %r, model says %r" % (sorted(a["itp"]), ep)
    if sorted(a["itt"]) != et:
        return "iter_tags() = %r, model says %r" % (sorted(a["itt"]), et)
    ept = sorted((n, sorted(conc.names(table["tagsOf"][i]))) for i, n in enumerate(names) if table["hasP"][i])
    etp = sorted((n, sorted(conc.names(table["pkgsOf"][i]))) for i, n in enumerate(names) if table["hasT"][i])
    if sorted((k_, sorted(v)) for k_, v in a["itpt"]) != ept:
        return "iter_packages_tags() = %r, model says %r" % (sorted((k_, sorted(v)) for k_, v in a["itpt"]), ept)
    if sorted((k_, sorted(v)) for k_, v in a["ittp"]) != etp:
        return "iter_tags_packages() = %r, model says %r" % (sorted((k_, sorted(v)) for k_, v in a["ittp"]), etp)
    return None


SHARING_OPS = ("reverse", "choose", "choose_copy", "filter_p", "filter_pt", "filter_t")   # documented / coded as sharing


def view_link(link, st):
    """the dictionary link between the current object and the watched ORIGINAL of a reverse() view after
    the call st: 'rev' (the current object is the reverse view), 'same' (the view of the view), None (no
    dictionary is shared any more: read()/qread() bind new ones, every other derivation builds new ones)"""
    op = st["op"]
    if st.get("keep") or op in ("insert", "read_fail", "qread_fail", "probe", "back", "insert_fail"):
        return link
    if op == "reverse":
        return {"rev": "same", "same": "rev"}.get(link, "rev")       # nothing watched: the original is retained
    return None


def plan_views(plan, rng, force_last=False):
    """a reverse edge of the reference taken while the current object is the reverse() view of a watched
    original may be concretized as GOING BACK to the original (op 'back': same reference transition, the
    expected state is TLC's); marks the reverse() calls whose original gets watched (retain)"""
    link = None
    last = max([i for i, st in enumerate(plan) if st["op"] == "reverse" and not st.get("keep")] or [-1])
    for i, st in enumerate(plan):
        if st["op"] == "reverse" and not st.get("keep"):
            if link == "rev" and ((force_last and i == last) or rng.random() < 0.4):
                st["op"], st["why"] = "back", SKIND_TEXT["view"]
                continue
            if link is None:
                st["retain"] = True
        elif st["op"] in SHARE_OPS + COPYFORM_OPS and not st.get("keep"):
            st.setdefault("retain", True)
        link = view_link(link, st)
    return plan


def replay_path(plan, exp, conc, rng, junk, deep):
    """step the real object through `plan`, comparing after each call with what TLC expects:
    exp[i] = {"to": state, "table": query table of it, "from": state, "ftable": its table[, "allowed"]}.
    * a step with keep=True is a derivation that is observed (== to) while the object it was taken
      from stays current (== from, unchanged);
    * the source of the last copy must stay the state it was copied in, its query methods too;
    * kept copies must still be what they were at the end; kept sharing derivations are not looked at again.
    returns None or (step index, message) of the first divergence"""
    from debian import debtags
    cur = debtags.DB()
    srcobj, srcexp, srcstep = None, None, 0
    vsrc, vlink, vstep = None, None, 0            # the original of a reverse() view (dictionaries shared)
    psrc, pexp, pstep = None, None, 0             # the collection a choose_*/filter_* result shares its sets with
    parked = []
    n = len(plan)
    for i, st in enumerate(plan):
        x = exp[i]
        where = "step %d %s: " % (i + 1, describe(st))
        if st.get("keep"):
            derived, exc = do_call(cur, st)
            if exc:
                return i, where + "raised %s" % exc
            m = compare_state(derived, x["to"], conc, "the derived collection: ")
            if m is None:
                m = compare_queries(derived, x["table"], conc, rng, junk, "the derived collection: ")
            if m is None:
                m = compare_state(cur, x["from"], conc, "the collection it was derived from changed: ")
            if m:
                return i, where + m
            if st["op"] not in SHARING_OPS:
                parked.append((derived, x, i + 1))
            continue
        before = cur
        if st["op"] == "back":                 # the reference transition of reverse(): back on the original of the view
            if vsrc is None or vlink != "rev":
                raise core.MachineryError("'back' planned without a watched original")
            cur, vsrc, exc = vsrc, cur, ""
        else:
            cur, exc = do_call(cur, st)
        if st["op"] in ("read_fail", "qread_fail", "insert_fail"):
            if (exc != st["want"]) if st["op"] == "read_fail" else (not exc):
                return i, where + "expected the injected exception to propagate, got %r" % (exc or "no exception")
            m = compare_state(cur, x["to"], conc)
            if m is not None and x.get("allowed") is not None:
                if any(compare_state(cur, a, conc) is None for a in x["allowed"]):
                    return None          # another consistent outcome the statement allows: the path ends here
                return i, where + "the object is none of the consistent collections allowed after the failure: " + m
        elif exc:
            return i, where + "raised %s" % exc
        if st["op"] in COPY_OPS:
            srcobj, srcexp, srcstep = before, x, i + 1
        # sharing derivations: the original of a view follows the view; the source of a set-sharing
        # restriction stays what it was until an insert may reach a shared set (then: unspecified)
        if st["op"] == "reverse" and vlink is None:
            vsrc, vstep = before, i + 1
        vlink = view_link(vlink, st)
        if vlink is None:
            vsrc = None
        if psrc is not None and st["op"] == "insert" and set(st["s"]) & conc.names(x["from"]["T"]):
            psrc = None
        if st["op"] in SHARE_OPS and psrc is None and x.get("rto") is not None:
            psrc, pexp, pstep = before, x, i + 1
        m = compare_state(cur, x["to"], conc)
        touched = st["op"] in ("insert", "back", "reverse", "read_fail", "qread_fail", "probe", "insert_fail") or i == n - 1
        if m is None and vsrc is not None and x.get("rto") is not None and touched:
            who = "the ORIGINAL of the reverse() view taken in step %d does not show what was done through %s: " % (
                vstep, "the view" if vlink == "rev" else "the view of the view")
            m = compare_state(vsrc, x["rto"] if vlink == "rev" else x["to"], conc, who)
            if m is None and (i == n - 1 or (deep and rng.random() < 0.25)):
                m = compare_queries(vsrc, x["rtable"] if vlink == "rev" else x["table"], conc, rng, junk, who)
        if m is None and psrc is not None and (touched or i + 1 == pstep):
            who = "the collection the %s result of step %d shares its sets with changed: " % (plan[pstep - 1]["op"], pstep)
            m = compare_state(psrc, pexp["from"], conc, who)
            if m is None and i == n - 1:
                m = compare_queries(psrc, pexp["ftable"], conc, rng, junk, who)
        if m is None and srcobj is not None:
            who = "the SOURCE of the %s of step %d changed: " % (plan[srcstep - 1]["op"], srcstep)
            m = compare_state(srcobj, srcexp["from"], conc, who)
            if m is None and (deep or i == n - 1):
                m = compare_queries(srcobj, srcexp["ftable"], conc, rng, junk, who)
        if m is None and (deep or i == n - 1):
            m = compare_queries(cur, x["table"], conc, rng, junk)
        if m:
            return i, where + m
    for derived, x, step in parked:
        m = compare_state(derived, x["to"], conc, "the copy taken in step %d changed afterwards: " % step)
        if m:
            return n - 1, m
    if n and not plan[-1].get("keep") and rng.random() < (1.0 if deep else 0.25):
        m = secondary_entry_points(cur, exp[-1], conc, rng)
        if m:
            return n - 1, "after step %d %s: %s" % (n, describe(plan[-1]), m)
    return None


def scoring(db, tags, alias):
    """the scoring helpers that are functions of the two indexes: correlations() and ideal_tagset()"""
    out = []
    try:
        out.append(("correlations", sorted((a, b, round(c, 9)) for a, b, c in db.correlations())))
    except Exception as e:
        out.append(("correlations", type(e).__name__))
    try:
        out.append(("ideal_tagset", sorted(meth(db, "ideal_tagset", alias)(list(tags)))))
    except Exception as e:
        out.append(("ideal_tagset", type(e).__name__))
    return out


def secondary_entry_points(cur, x, conc, rng):
    """entry points whose expectation is not a model state of its own:
    * relevance_index_function(full, sub)(tag) = sub.card(tag)**2 / full.card(tag) with the cards of TLC's table;
    * correlations() / ideal_tagset() must give the same on a second object holding the same
      collection that was loaded through another entry point (dump() text, module readers)."""
    from debian import debtags
    import contextlib
    table = x["table"]
    names = [conc.name(nm) for nm in table["names"]]
    tags = [nm for i, nm in enumerate(names) if table["hasT"][i]]
    out = io.StringIO()
    with contextlib.redirect_stdout(out):
        debtags.output(cur.db)
    twin = debtags.DB()
    lines = out.getvalue().splitlines(True)
    try:
        twin.db = debtags.read_tag_database(lines)
        twin.rdb = debtags.read_tag_database_reversed(iter(lines))
    except Exception as e:
        return "read_tag_database*/output() round trip raised %s" % type(e).__name__
    for t in tags:                       # a tag without packages cannot be written as text
        if not table["card"][names.index(t)]:
            twin.rdb.setdefault(t, set())
    m = compare_state(twin, x["to"], conc, "output(db) read back through read_tag_database / read_tag_database_reversed: ")
    if m:
        return m
    alias = rng.random() < 0.5
    if scoring(cur, tags, alias) != scoring(twin, tags, not alias):
        return "correlations()/ideal_tagset() differ between two objects holding the same collection: %s vs %s" % (
            short(scoring(cur, tags, alias), 400), short(scoring(twin, tags, not alias), 400))
    f = getattr(debtags, "relevanceIndexFunction" if alias else "relevance_index_function")
    sub = twin.filter_packages(lambda p: True)
    try:
        rel = f(cur, sub)
        for i, t in enumerate(names):
            c = table["card"][i]
            if table["hasT"][i] and c:
                if abs(rel(t) - float(c * c) / float(c)) > 1e-9:
                    return "relevance_index_function(db, same collection)(%r) = %r, model card %d" % (t, rel(t), c)
    except Exception as e:
        return "relevance_index_function raised %s" % type(e).__name__
    return None


def expectations(path, tables, rev_of=None):
    """what TLC expects along a path; rto / rtable: the target of the reference's reverse transition out of
    `to` (what the ORIGINAL of a reverse() view must show while the view shows `to`)"""
    out = []
    for e in path:
        x = {"to": e["to"], "table": tables[e["_t"]], "from": e["from"], "ftable": tables[e["_f"]]}
        if "allowed" in e:
            x["allowed"] = e["allowed"]
        if rev_of is not None:
            r = rev_of[e["_t"]]
            x["rto"], x["rtable"] = r["to"], tables[r["_t"]]
        out.append(x)
    return out


def with_queries(plan, names, every=True):
    """the plan with a query event after every call / after the last call (used when a behaviour
    is handed to TLC)"""
    out = []
    for i, st in enumerate(plan):
        out.append(dict(st, names=list(names)) if st.get("keep") else st)
        if every or i == len(plan) - 1:
            # snake_case methods and their deprecated aliases: both after the last call, alternating before
            for al in ((False, True) if i == len(plan) - 1 else (i % 2 == 0,)):
                out.append({"op": "q", "names": list(names), "alias": al})
                out.append({"op": "qs", "names": list(names), "alias": al})          # skipped while nothing was copied
    return out


# ------------------------------------------------------------------ size stress (notes/SIZE_STRESS.md part 1)

class BigConc:
    """one model name -> MANY real names (a package of the model becomes up to 10 000 packages that
    carry the same tags, a tag up to 1 000 tags), names padded up to 4 KiB.  Every operation of the
    model commutes with this blow-up, so TLC's expected states / query tables of the abstract case
    give the expected big collection (length- and count-independent by construction).  Used only on
    behaviours without insert / facet_collection (where the known insert deviation cannot occur)."""

    def __init__(self, base, counts, pad):
        self.base, self.counts, self.pad = base, {tuple(k): v for k, v in counts}, pad
        self._cache = {}

    def blow(self, seq):
        t = tuple(seq)
        r = self._cache.get(t)
        if r is None:
            stem = self.base.name(t)
            n = self.counts.get(t, 1)
            r = self._cache[t] = frozenset("%s%s~%d" % (stem, "=" * max(0, self.pad - len(stem) - len(str(i)) - 1), i)
                                           for i in range(n))
        return r

    def names(self, seqs):
        out = set()
        for q in seqs:
            out |= self.blow(q)
        return out

    def name(self, seq):
        return sorted(self.blow(seq))[0]

    def to_json(self):
        return {"base": self.base.to_json(), "counts": [[list(k), v] for k, v in self.counts.items()], "pad": self.pad}

    @classmethod
    def from_json(cls, j):
        return cls(Conc.from_json(j["base"]), j["counts"], j["pad"])


def compare_big(cur, s, table, bc, rng, who=""):
    """the big collection against the blow-up of TLC's state and query table"""
    db, rdb, bad = proj(cur)
    if bad:
        return who + bad
    names = [tuple(n) for n in table["names"]]
    tags_of = {n: table["tagsOf"][i] for i, n in enumerate(names)}
    pkgs_of = {n: table["pkgsOf"][i] for i, n in enumerate(names)}
    P, T = bc.names(s["P"]), bc.names(s["T"])
    if set(db) != P:
        return "%spackages (keys of db): %d, model (blown up) %d; e.g. %s" % (who, len(db), len(P), short(sorted(set(db) ^ P)[:3], 200))
    if set(rdb) != T:
        return "%stags (keys of rdb): %d, model (blown up) %d; e.g. %s" % (who, len(rdb), len(T), short(sorted(set(rdb) ^ T)[:3], 200))
    alias = rng.random() < 0.5
    try:
        pc, tc = meth(cur, "package_count", alias)(), meth(cur, "tag_count", alias)()
        if pc != len(P) or tc != len(T):
            return "%s%spackage_count()/tag_count() = %r/%r, model (blown up) %d/%d" % (
                who, "(through the deprecated aliases) " if alias else "", pc, tc, len(P), len(T))
        for p in s["P"]:
            want = bc.names(tags_of[tuple(p)])
            for c in bc.blow(p):
                if db[c] != want:
                    return "%sdb[%s] has %d tags, model (blown up) %d" % (who, short(c, 80), len(db[c]), len(want))
            c = rng.choice(sorted(bc.blow(p)))
            if frozenset(meth(cur, "tags_of_package", alias)(c)) != want or not meth(cur, "has_package", alias)(c):
                return "%stags_of_package/has_package(%s) disagree with the model" % (who, short(c, 80))
        for t in s["T"]:
            want = bc.names(pkgs_of[tuple(t)])
            for c in bc.blow(t):
                if rdb[c] != want:
                    return "%srdb[%s] has %d packages, model (blown up) %d" % (who, short(c, 80), len(rdb[c]), len(want))
            c = rng.choice(sorted(bc.blow(t)))
            if frozenset(meth(cur, "packages_of_tag", alias)(c)) != want or cur.card(c) != len(want) or not meth(cur, "has_tag", alias)(c):
                return "%spackages_of_tag/card/has_tag(%s) disagree with the model (card %r, model %d)" % (who, short(c, 80), cur.card(c), len(want))
        if len(list(meth(cur, "iter_packages", alias)())) != len(P) or len(list(meth(cur, "iter_tags_packages", alias)())) != len(T):
            return "%siter_packages()/iter_tags_packages() have the wrong number of items" % who
    except Exception as e:
        return "%squery methods raised %s" % (who, type(e).__name__)
    return None


BIG_OPS = ("read", "reverse", "copy", "restrict_p", "filter_t", "read_fails", "qread_fails", "dumpread", "dumprevread")


def big_path(g, rng, length):
    """a behaviour from DB() over edges that cannot meet the insert deviation, starting with a read
    of a collection that uses all the model packages"""
    starts = [e for e in g.out[g.init] if e["op"] == "read" and len(e["to"]["R"]) >= 3 and not e["s"]]
    path = [rng.choice(starts)]
    for _ in range(length):
        outs = [e for e in g.out[path[-1]["_t"]] if e["op"] in BIG_OPS and (e["op"] != "read" or rng.random() < 0.2)]
        w = [4 if e["_f"] != e["_t"] and e["to"]["R"] else 1 for e in outs]
        path.append(rng.choices(outs, weights=w)[0])
    return path


THRESH_N = (63, 64, 65, 71, 72, 73, 99, 100, 101, 127, 128, 129, 255, 256, 257, 511, 512, 513, 1000, 1024)


RESTRICT_VARIANTS = ("choose", "choose_copy", "filter_p", "filter_p_copy", "filter_pt", "filter_pt_copy", "filter_t", "filter_t_copy")


def threshold_case(g, by_op, rng, variant, total, kpick):
    """a behaviour DB() -read-> s -restriction-> s' [-> more] with a blow-up in which the restriction (the
    method `variant`) takes out only a FEW of MANY real names: the total lies around 64, 100, 128, 256 ...,
    the dropped share below / at / above 1/8 (and 1, 2, 3 names), preferably with a dropped name that is
    the SOLE carrier of a name of the other index (so a key must disappear from it).  The abstract case and
    its expectation are TLC's.  returns (path, counts, description) or None"""
    kind = "filter_t" if variant.startswith("filter_t") else "restrict_p"
    starts = [e for e in g.out[g.init] if e["op"] == "read" and not e["s"] and len(e["to"]["P"]) >= 2 and len(e["to"]["T"]) >= 2]
    rng.shuffle(starts)
    for r in starts:
        uni = [tuple(n) for n in (r["to"]["P"] if kind == "restrict_p" else r["to"]["T"])]
        cands = [e for e in by_op[r["_t"]].get(kind, []) if 0 < len({tuple(n) for n in e["s"]} & set(uni)) < len(uni)]
        if not cands:
            continue
        other = "T" if kind == "restrict_p" else "P"
        sole = [e for e in cands if len(e["to"][other]) < len(e["from"][other])]
        e = rng.choice(sole if sole and rng.random() < 0.85 else cands)
        kept = [n for n in uni if n in {tuple(x) for x in e["s"]}]
        dropped = [n for n in uni if n not in kept]
        k = max(len(dropped), (1, 2, 3, total // 16, total // 10, total // 8 - 1, total // 8, total // 8 + 1, total // 4)[kpick % 9])
        counts = {}
        for i, n in enumerate(dropped):
            counts[n] = k // len(dropped) + (1 if i < k % len(dropped) else 0)
        rest = max(len(kept), total - k)
        for i, n in enumerate(kept):
            counts[n] = rest // len(kept) + (1 if i < rest % len(kept) else 0)
        path = [r, dict(e, variant=variant)]
        for _ in range(rng.randint(0, 2)):
            outs = [x for x in g.out[path[-1]["_t"]] if x["op"] in BIG_OPS and x["op"] != "read"]
            path.append(rng.choice(outs))
        for x in path:
            for n in x["to"]["P"] + x["to"]["T"] + x["from"]["P"] + x["from"]["T"] + [q for a in x.get("allowed", []) for q in a["P"] + a["T"]]:
                counts.setdefault(tuple(n), rng.choice((1, 1, 2, 3)))
        return path, [[list(n), c] for n, c in sorted(counts.items())], dict(
            total=rest + k, dropped=k, restriction=variant, sole_carrier=e in sole, steps=[x["op"] for x in path])
    return None


def replay_big(path, tables, bc, rng):
    """like replay_path for a blown-up concretization; returns None or a message"""
    from debian import debtags
    cur = debtags.DB()
    srcobj, srcedge = None, None
    junk = list(JUNK)
    for i, e in enumerate(path):
        st = concretize_step(e, bc, rng, junk)
        if st["op"] in ("read", "qread") and rng.random() < 0.5:
            st["text"] = regroup(st["text"], rng)
        before = cur
        cur, exc = do_call(cur, st)
        where = "step %d %s (%d packages, %d tags in the collection): " % (i + 1, st["op"], len(getattr(cur, "db", ())), len(getattr(cur, "rdb", ())))
        if st["op"] in ("read_fail", "qread_fail"):
            if not exc:
                return where + "the injected exception did not propagate"
            if compare_big(cur, e["to"], tables[skey_state(e["to"])], bc, rng) is not None and \
                    any(compare_big(cur, a, tables[skey_state(a)], bc, rng) is None for a in e["allowed"] if skey_state(a) in tables):
                return None
        elif exc:
            return where + "raised %s" % exc
        if st["op"] in COPY_OPS:
            srcobj, srcedge = before, e
        m = compare_big(cur, e["to"], tables[skey_state(e["to"])], bc, rng)
        if m is None and srcobj is not None:
            m = compare_big(srcobj, srcedge["from"], tables[skey_state(srcedge["from"])], bc, rng, "the SOURCE of the copy changed: ")
        if m:
            return where + m
    return None


def regroup(text, rng):
    """the same records with the packages of a line split into chunks of boundary sizes"""
    out = []
    for line in text:
        if ": " in line and ", " in line.split(": ", 1)[0] and line.strip():
            pk, rest = line.split(": ", 1) if ":" in line else (line, "")
            names = pk.split(", ")
            size = rng.choice((1, 2, 3, 16, 17, 100, 255, 256, 257, 1000))
            for i in range(0, len(names), size):
                out.append("%s: %s" % (", ".join(names[i:i + size]), rest))
        else:
            out.append(line)
    return out


# ------------------------------------------------------------------ TLC as judge of recorded histories

def corrupt(t, how):
    """negative controls: histories the specification must NOT accept, whatever DEV is"""
    import copy
    if not t.get("clean", True):       # contains calls outside the domain: anything is accepted there
        return None
    t = copy.deepcopy(t)
    evs = t["events"]
    for i, e in enumerate(evs):
        if how == "drop-member" and e["op"] not in ("q",) + FAIL_OPS and not e["exc"] and any(len(x[1]) for x in e["rdb"]):
            for x in e["rdb"]:
                if x[1]:
                    x[1].pop()
                    break
            return {"events": evs[:i + 1]}
        if how == "card" and e["op"] == "q" and not e["exc"] and e["qcard"]:
            e["qcard"][0] += 1
            return {"events": evs[:i + 1]}
        if how == "fake-dev" and e["op"] in ("filter_p", "filter_t", "choose", "copy", "reverse", "read") and not e["exc"] and e["rdb"]:
            k = e["rdb"][0]
            k[1] = [[c] for c in sorted({c for m in k[1] for c in m})] + [[0x7a, 0x7a]]
            return {"events": evs[:i + 1]}
        if how == "exc" and e["op"] in ("copy", "reverse", "reverse_copy", "filter_t", "filter_p") and not e["exc"]:
            e["exc"] = "KeyError"
            return {"events": evs[:i + 1]}
        if how == "source-changed" and e["slive"] and e.get("skind") == "copy" and e["op"] not in COPY_OPS + COPYFORM_OPS + ("back",) \
                and e["srdb"]:
            e["srdb"][0][1] = e["srdb"][0][1] + [[0x7a, 0x7a]]
            return {"events": evs[:i + 1]}
        if how == "view-stale" and i and e["op"] == "insert" and not e["exc"] and e["slive"] and e["sact"] == "same" \
                and evs[i - 1]["op"] == "reverse" and evs[i - 1].get("sact") == "retain" and not evs[i - 1].get("keep") \
                and (e["db"], e["rdb"]) != (evs[i - 1]["db"], evs[i - 1]["rdb"]):
            # the original of a reverse() view that did not follow an insert made through the view
            e["sdb"], e["srdb"] = evs[i - 1]["sdb"], evs[i - 1]["srdb"]
            return {"events": evs[:i + 1]}
        if how == "fail-partial" and e["op"] in ("read_fail", "qread_fail") and e["db"] and e["rdb"]:
            e["db"] = []                 # new (empty) package index with the old tag index
            return {"events": evs[:i + 1]}
        if how == "fail-swallowed" and e["op"] == "read_fail":
            e["exc"] = ""
            return {"events": evs[:i + 1]}
        if how == "insert-fail-swallowed" and e["op"] == "insert_fail" and e["exc"] and e["seq"]:
            e["exc"] = ""
            return {"events": evs[:i + 1]}
        if how == "insert-fail-indexed" and e["op"] == "insert_fail" and e["k"] >= 1 and e["exc"] \
                and all(k[0] != e["a"] for k in e["db"]) and all(e["a"] not in k[1] for k in e["rdb"]):
            # the package is listed under the first name the source handed over, without an entry of its own
            t = e["seq"][0]
            hit = [k for k in e["rdb"] if k[0] == t]
            if hit:
                hit[0][1] = sorted(hit[0][1] + [e["a"]])
            else:
                e["rdb"] = sorted(e["rdb"] + [[t, [e["a"]]]])
            return {"events": evs[:i + 1]}
        if how == "extra-key" and e["op"] != "q" and not e["exc"]:
            e["db"] = e["db"] + [[[0x7a, 0x7a, 0x7a, 0x7a], []]]
            return {"events": evs[:i + 1]}
    return None


def make_controls(traces):
    out = []
    for how in ("drop-member", "card", "fake-dev", "exc", "extra-key", "source-changed", "view-stale", "fail-partial", "fail-swallowed",
                "insert-fail-swallowed", "insert-fail-indexed"):
        for t in traces:
            c = corrupt(t, how)
            if c:
                out.append(c)
                break
    return out


def judge(ctx, traces, controls=()):
    """TLC validates the traces.  returns (rejected ids (1-based), {id: [markers of deviation steps]},
    {rejected id: number of explained events}); marker 1 = C20-insert-chars, 2 = C20-qread-nonatomic"""
    dev = "1" if ctx.known_open(KNOWN) else "0"
    devq = "1" if ctx.known_open(KNOWN_Q) else "0"
    env = {"TRACE_DIAG": "0", "DEV": dev, "DEVQ": devq}
    acc, _, r = core.validate_traces(ctx, TRACE_MOD, TRACE_CFG, traces, extra_env=env, controls=list(controls))
    devsteps = {}
    for v in r.printed.get("AT", []):
        if len(v) >= 3 and v[2] in (1, 2) and v[0] <= len(traces):
            devsteps.setdefault(v[0], []).append(v[2])
    rejected = [i for i in range(1, len(traces) + 1) if i not in acc]
    info = {}
    if rejected:
        sub = [traces[i - 1] for i in rejected[:20]]
        _, prog, _ = core.validate_traces(ctx, TRACE_MOD, TRACE_CFG, sub, extra_env=dict(env, TRACE_DIAG="1"))
        for j, i in enumerate(rejected[:20]):
            info[i] = prog.get(j + 1, 0)
    return rejected, devsteps, info


def count_known(ctx, devsteps, ids):
    """one known_hit per deviation step TLC needed in an accepted trace"""
    n = 0
    for i in ids:
        for kind in devsteps.get(i, []):
            ctx.known_hit(KNOWN if kind == 1 else KNOWN_Q)
            n += 1
    return n


# ------------------------------------------------------------------ code -> spec: recording histories

def rname(rng, lo, hi, alpha):
    return "".join(rng.choice(alpha) for _ in range(rng.randint(lo, hi)))


def record_history(rng, nops, maxpk, many=0):
    """random history on the real class over alphabets far beyond the model constants.
    returns a plan; it is built while executing because arguments depend on the current keys.
    many > 0: a collection of `many` (>= 64) packages, some of them the sole carrier of a tag, and
    restrictions that take only a few names out (counts around the thresholds of notes/SIZE_STRESS.md)"""
    u = rng.random()
    stress = u < 0.25 and not many    # character stress (SIZE_STRESS part 2): twins, case hazards, non-BMP ...
    alpha = ALPHA + (EXOTIC if u > 0.8 else "") + (STRESS_POOL * 3 if stress else "")
    npk = many or rng.randint(2, maxpk)
    few = bool(many) or rng.random() < 0.25       # restrictions drop 1, 2, 3 or about 1/8 of the names

    def length():                     # heavy-tailed; TLC scans these names, so they stay below ~70 code points
        v = rng.random()
        if many:
            return rng.randint(2, 4)
        return rng.randint(2, 9) if v < 0.85 else rng.choice((15, 16, 17, 31, 32, 33, 63, 64, 65))

    def most(names):
        """all but a few of the names (few-dropped mode), else a random 3/4 of them"""
        names = list(names)
        if not few or len(names) < 2:
            return [x for x in names if rng.random() < 0.75]
        out = set(rng.sample(names, min(len(names) - 1, rng.choice((1, 1, 2, 3, max(1, len(names) // 8), len(names) // 8 + 1)))))
        return [x for x in names if x not in out]

    pk_pool = set()
    if stress:                        # not NFC / NFKC / case stable, as DIFFERENT packages
        pk_pool |= {"\u00e9", "e\u0301", "\u00e9x", "e\u0301x", "\u212bb", "\u00c5b", "A\u030ab", "Kk", "kk", "\u212ak", "KK",
                    "\ufb01n", "fin", "\uff21a", "Aa", "stra\u00dfe", "strasse", "STRASSE", "\u0130x", "ix", "i\u0307x",
                    "\ufeffab", "ab", "a\u200db", "a\u00adb", "\u0301a", "\U0001F600", "\U0001F600\U0001F600", "\U0010FFFFz"}
    while len(pk_pool) < npk + 12 + (29 if stress else 0):
        n = length()
        pk_pool.add(rname(rng, 1, 1, alpha) if rng.random() < 0.25 else rname(rng, n, n, alpha))
    pk_pool = sorted(pk_pool)
    rng.shuffle(pk_pool)
    falpha = ALPHA[:26] + "-" + (STRESS_POOL if stress else "")
    talpha = ALPHA[:36] + "-+" + (STRESS_POOL if stress else "")
    facets = sorted({rname(rng, 1, 6, falpha) for _ in range(rng.randint(1, 4))})
    tg_pool = sorted({"%s::%s" % (rng.choice(facets), rname(rng, 1, 5 if rng.random() < 0.9 else 33, talpha))
                      for _ in range(rng.randint(2, 12))})
    fresh = iter(pk_pool)
    objs = Objects()       # the current object and the watched one, like execute() will have them
    memo = []              # (object, descriptor) of the derivations taken from it and kept aside
    plan = []
    flipped = False
    faceted = False
    srcflags = (False, False)          # flipped / faceted of the watched object
    clean = [True]         # False once a call outside the domain (unspecified outcome) was made

    def step(st):
        nonlocal flipped, faceted, srcflags
        plan.append(st)
        if st["op"] in ("q", "qs"):
            return
        if st["op"] == "back":
            if objs.call(st) is not None:
                (flipped, faceted), srcflags = srcflags, (flipped, faceted)
            return
        if st["op"] in RETAINABLE and not st.get("keep"):
            # watch the object a sharing derivation is taken from (always: the original of a reverse() view
            # while nothing else is watched)
            st.setdefault("retain", rng.random() < (0.8 if st["op"] == "reverse" else 0.4))
        if st["op"] == "read":
            st.setdefault("via", rng.choice(INPLACE_VIAS + ("fn_bw",) * 3 + (() if st["usefilter"] else ("fn", "fn_rev") * 4)))
            st.setdefault("alias", rng.random() < 0.5)
            if rng.random() < 0.15:
                st.setdefault("align", make_align(rng, st["text"], st["via"]))
        elif st["op"] == "qread":
            st.setdefault("via", rng.choice(QREAD_VIAS))
            if rng.random() < 0.1:
                st.update(via=rng.choice(("", "file")), kw=False, align={"k": rng.choice(ALIGN_K), "delta": rng.choice((-1, 0, 0, 1))})
        elif st["op"] == "pickle":
            st.setdefault("via", rng.choice(PICKLE_VIAS))
        if st["op"] not in FAIL_OPS:
            st.setdefault("kw", rng.random() < 0.25)
        if st.get("keep"):
            do_call(objs.cur, st)          # observed by execute(); the current object stays
            if st["op"] != "choose_copy":
                memo.append((objs.cur, dict(st)))
        else:
            before = (flipped, faceted)
            r = objs.call(st)
            if r[1] == "retain":
                srcflags = before

    def vals_pool():
        if flipped:
            return pk_pool
        if faceted:
            return facets
        return tg_pool

    def keys_like():
        """a fresh key of the kind the current collection uses"""
        if not flipped:
            if rng.random() < 0.3:                         # a name filtered out earlier may come back
                cand = [p for p in pk_pool if p not in objs.cur.db]
                return rng.choice(cand) if cand else None
            for p in fresh:
                if p not in objs.cur.db:
                    return p
            return None
        for _ in range(20):
            c = ("%s::%s" % (rng.choice(facets), rname(rng, 1, 5, ALPHA[:36])))
            if c not in objs.cur.db:
                return c
        return None

    if rng.random() < 0.75:
        lines = []
        # counts 0: collections in which ONE index is empty (packages that are known but not tagged -- lines
        # without tags, or a tag_filter that rejects every tag) are ordinary collections
        shape = rng.choice(("", "", "", "", "", "", "untagged", "untagged", "all-filtered", "one-tag"))
        if many:
            shape = ""
        for li in range(many or rng.randint(1 if shape else 0, npk)):
            p = next(fresh, None)
            if p is None:
                break
            grp = [p]
            if rng.random() < 0.2:
                q = next(fresh, None)
                if q is not None:
                    grp.append(q)
            tags = rng.sample(tg_pool, rng.randint(0, min(4, len(tg_pool))))
            if shape == "untagged":
                tags = []
            elif shape == "one-tag":
                tags = tg_pool[:1]
            if many and rng.random() < 0.3:          # the sole carrier of a tag
                tags = tags + ["%s::u%d" % (facets[0], li)]
            lines.append((grp, tags))
        drop = rng.sample(tg_pool, min(len(tg_pool), rng.randint(1, 2))) if rng.random() < 0.3 else []
        if shape == "all-filtered":
            drop = sorted({t for _, tg in lines for t in tg})
        text, glines = read_text(rng, lines)
        step({"op": "read", "text": text, "lines": glines, "drop": sorted(drop), "usefilter": bool(drop) or rng.random() < 0.3})
    ops = (["insert"] * 8 + ["reverse", "reverse_copy", "copy", "pickle", "choose", "choose_copy", "filter_p",
           "filter_p_copy", "filter_pt", "filter_pt_copy", "filter_t", "filter_t_copy", "facet", "q", "q", "q",
           "read_fail", "read_fail", "qread_fail", "probe", "probe", "reread", "reread", "qs", "dumpread", "dumprevread",
           "insert_fail", "insert_fail", "insert_fail",
           "reverse", "reverse", "back", "back", "back", "again", "again", "again"])
    if many:
        ops += ["filter_p", "filter_p_copy", "filter_pt", "filter_pt_copy", "filter_t", "filter_t_copy", "choose"] * 2
    KEEPABLE = ("reverse", "reverse_copy", "copy", "choose", "choose_copy", "filter_p", "filter_p_copy", "filter_pt",
                "filter_pt_copy", "filter_t", "filter_t_copy", "facet")

    def some_lines():
        """1-4 record lines over distinct packages (they may or may not be in the collection already)"""
        names = rng.sample(pk_pool, min(len(pk_pool), rng.randint(1, 5)))
        glines, text, isrec = [], [], []
        while names:
            grp = [names.pop()]
            if names and rng.random() < 0.25:
                grp.append(names.pop())
            tags = rng.sample(tg_pool, rng.randint(0, min(3, len(tg_pool))))
            glines.append((sorted(grp), sorted(tags)))
            text.append("%s: %s\n" % (", ".join(grp), ", ".join(tags)) if tags else "%s\n" % ", ".join(grp))
            isrec.append(True)
            if rng.random() < 0.15:
                text.append("\n")
                isrec.append(False)
        return glines, text, isrec
    for _ in range(nops):
        op = rng.choice(ops)
        keys = sorted(objs.cur.db) if isinstance(objs.cur.db, dict) else []
        rkeys = sorted(objs.cur.rdb) if isinstance(objs.cur.rdb, dict) else []
        al = rng.random() < 0.5                            # through the deprecated camelCase alias
        keep = op in KEEPABLE and rng.random() < 0.3       # observe the derivation, keep working on the object
        if op == "insert":
            unspec = rng.random() < 0.02 and keys
            p = rng.choice(keys) if unspec else keys_like()
            if p is None:
                continue
            if unspec:
                clean[0] = False
            pool = vals_pool()
            k = rng.randint(0, 3)
            tags = set(rng.sample(pool, min(k, len(pool))))
            if rkeys and rng.random() < 0.6:
                tags |= set(rng.sample(rkeys, min(len(rkeys), rng.randint(1, 2))))
            step({"op": "insert", "a": p, "s": sorted(tags)})
        elif op in ("reverse", "reverse_copy"):
            if keep:
                step({"op": op, "alias": al, "keep": True})
            else:
                step({"op": op, "alias": al})
                flipped = not flipped
        elif op in ("copy", "pickle"):
            step({"op": op, "keep": True} if keep and op == "copy" else {"op": op})
        elif op in ("dumpread", "dumprevread"):
            step({"op": op, "via": rng.choice(["dump", "output", "lines"]), "alias": al})
            if op == "dumprevread":
                flipped = not flipped
        elif op == "reread":
            # the SAME object gets new content (read / qread) after derivations were taken from it
            glines, text, _ = some_lines()
            if rng.random() < 0.5:
                step({"op": "qread", "text": text, "lines": glines})
            else:
                drop = rng.sample(tg_pool, min(len(tg_pool), 1)) if rng.random() < 0.3 else []
                step({"op": "read", "text": text, "lines": glines, "drop": sorted(drop), "usefilter": bool(drop) or rng.random() < 0.3,
                      "via": rng.choice(INPLACE_VIAS)})
            flipped = faceted = False
        elif op == "again":
            # a derivation taken from this object before (and kept aside) is taken AGAIN: whatever was done to
            # the object since -- also through its views -- it is a derivation of what the object holds now
            mine = [m for o, m in memo if o is objs.cur]
            if mine and rng.random() < 0.85:
                st0 = dict(rng.choice(mine[-2:]))
                if st0["op"] == "facet" and (flipped or faceted):
                    continue
                step(st0)
            elif not (flipped or faceted):
                step({"op": "facet", "alias": al, "keep": True})
        elif op == "back":
            if objs.src is None:
                continue
            step({"op": "back", "why": SKIND_TEXT.get(objs.skind, "")})
        elif op == "qs":
            step({"op": "qs", "names": rng.sample(keys, min(len(keys), 3)) + rng.sample(rkeys, min(len(rkeys), 3)), "alias": al})
        elif op == "facet":
            if flipped or faceted:
                if rng.random() < 0.9:
                    continue                               # unspecified: executed only now and then
                clean[0] = False
            if keep:
                step({"op": op, "alias": al, "keep": True})
            else:
                step({"op": op, "alias": al})
                faceted = True
        elif op == "read_fail":
            glines, text, isrec = some_lines()
            ncalls = sum(len(t) for _, t in glines)
            if ncalls and rng.random() < 0.5:
                c = rng.randint(1, ncalls)
                k, seen = 0, 0
                for _, t in glines:                 # complete lines before the failing filter call
                    if seen + len(t) >= c:
                        break
                    seen += len(t)
                    k += 1
                step({"op": "read_fail", "text": text, "lines": glines, "k": k, "m": 0, "mode": "filter", "fcall": c, "want": "ValueError"})
            else:
                m = rng.randint(0, len(text))
                step({"op": "read_fail", "text": text, "lines": glines, "k": sum(isrec[:m]), "m": m, "mode": "source", "fcall": 0, "want": "OSError"})
        elif op == "qread_fail":
            glines, text, _ = some_lines()
            step({"op": "qread_fail", "text": text, "lines": glines, "k": rng.randint(0, 1), "cutfrac": rng.random(), "via": rng.choice(QREAD_VIAS),
                  "raises": rng.random() < 0.3})
        elif op == "insert_fail":
            # insert(fresh package, tag source of the caller that raises after k of its n names): known and new
            # names of the kind the collection uses, n heavy-tailed (0, 1, 2, 3, 9..11, 16, 17, 31..33, 100), the
            # fault at the first, second, a middle, the last name and at the very end
            p = keys_like()
            if p is None:
                continue
            pool = vals_pool()
            n = rng.choice((0, 1, 1, 2, 2, 2, 3, 3, 3, 4, 5, 9, 10, 11, 16, 17, 31, 32, 33, 100))
            seq = rng.sample(rkeys, min(len(rkeys), rng.randint(0, 3))) if rkeys else []
            seq += [t for t in rng.sample(pool, min(len(pool), 3)) if t not in seq]
            i = 0
            while len(seq) < n:
                t = ("%s::w%d" % (rng.choice(facets), i)) if not (flipped or faceted) else "w%d%s" % (i, rname(rng, 0, 3, alpha))
                i += 1
                if t not in seq:
                    seq.append(t)
            rng.shuffle(seq)
            seq = seq[:n]
            k = rng.choice((0, 1, 1, n // 2, max(0, n - 1), max(0, n - 1), n, n))
            step({"op": "insert_fail", "a": p, "seq": seq, "k": min(k, n), "shape": rng.choice(FAULT_SHAPES), "excn": rng.choice(FAULT_EXCS),
                  "dup": rng.choice((1, 1, 1, 2)), "kw": rng.random() < 0.25})
        elif op == "probe":
            what = rng.choice(["insert_none", "insert_int", "filter_raises", "filter_tags_raises", "choose_none", "read_none",
                               "pred_raises_at", "pred_raises_at", "pred_raises_at", "choose_faulting", "choose_faulting", "qwrite_fails", "dump_fails"])
            st = {"op": "probe", "what": what, "a": rname(rng, 2, 5, alpha), "alias": al}
            if what == "pred_raises_at":      # a predicate of the caller raising at its 1st, 2nd, a later call
                st.update(method=rng.choice(["filter_packages", "filter_packages_copy", "filter_packages_tags", "filter_packages_tags_copy",
                                             "filter_tags", "filter_tags_copy"]), n=rng.choice((1, 1, 2, 3, max(1, len(keys)), max(1, len(rkeys)))))
            elif what == "choose_faulting":   # choose_packages(iterable of present names that raises after n of them)
                st.update(method=rng.choice(["choose_packages", "choose_packages_copy"]), n=rng.choice((0, 1, 1, 2, max(0, len(keys) - 1), len(keys))),
                          shape=rng.choice(FAULT_SHAPES), excn=rng.choice(FAULT_EXCS))
            elif what in ("qwrite_fails", "dump_fails"):
                st.update(n=rng.choice((0, 0, 1, 2, 3)))
            step(st)
        elif op == "q":
            probe = rng.sample(keys, min(len(keys), 4)) + rng.sample(rkeys, min(len(rkeys), 4)) + [rname(rng, 1, 4, alpha)]
            step({"op": "q", "names": probe, "alias": al})
        elif op in ("filter_t", "filter_t_copy"):
            sel = (most(rkeys) if few else [t for t in rkeys if rng.random() < 0.7]) + [rname(rng, 2, 4, alpha)]
            step(dict({"op": op, "s": sorted(set(sel)), "alias": al}, **({"keep": True} if keep else {})))
            if not keep:
                pass
        else:
            sel = most(keys)
            if op != "choose_copy":
                sel.append(rname(rng, 2, 4, alpha))        # absent name
            elif rng.random() < 0.03:
                sel.append(rname(rng, 2, 4, alpha))        # choose_copy of an absent name: unspecified
                clean[0] = False
            if op == "choose":
                rng.shuffle(sel)
            else:
                sel = sorted(set(sel))
            step(dict({"op": op, "s": sel, "alias": al}, **({"keep": True} if keep else {})))
        if rng.random() < 0.25:
            keys = sorted(objs.cur.db) if isinstance(objs.cur.db, dict) else []
            rkeys = sorted(objs.cur.rdb) if isinstance(objs.cur.rdb, dict) else []
            step({"op": "q", "names": rng.sample(keys, min(len(keys), 3)) + rng.sample(rkeys, min(len(rkeys), 3)),
                  "alias": rng.random() < 0.5})
    return plan, clean[0]


# ------------------------------------------------------------------ the check

def sharing_diagnostics(ctx):
    """what the documented set sharing does to a SOURCE today (unspecified zone, never a verdict): samples only"""
    from debian import debtags
    for what, derive in (("choose_packages_copy(['p']) [docstring: 'with a copy of the tagsets']", lambda d: d.choose_packages_copy(["p"]).reverse()),
                         ("choose_packages(['p']) [sharing]", lambda d: d.choose_packages(["p"]).reverse()),
                         ("filter_tags(any) [sharing]", lambda d: d.filter_tags(lambda t: True).reverse().reverse())):
        try:
            d = debtags.DB()
            d.read(iter(["p: fg::h\n", "ab: fg::h, j::h\n"]))
            v = derive(d)
            if "filter_tags" in what:
                v.insert("x", {"fg::h"})
            else:
                v.insert("j::i", {"p"})
            fwd, bwd = pairs(d.db), {(p_, t) for t, p_ in pairs(d.rdb)}
            ctx.sample("diagnostic (unspecified, reported to the lead): an insert through %s%s: the SOURCE is %s"
                       % (what, "" if "filter_tags" in what else ".reverse()",
                          "still mutually inverse" if fwd == bwd else "no longer mutually inverse: %r" % (sorted(fwd ^ bwd),)))
        except Exception as e:
            ctx.sample("diagnostic: %s raised %s" % (what, type(e).__name__))


def fault_diagnostics(ctx):
    """insert(pkg, tags) where `tags` IS a set (a subclass) or has a working copy(), but ITERATING it raises: today
    tags.copy() succeeds (C level, or the caller's copy()), db[pkg] is bound and the walk over the tags stops half-way.
    A set whose iteration fails is a hostile object rather than a failing source: diagnostic sample (reported to the
    lead), never a verdict."""
    from debian import debtags

    class HalfSet(set):
        def __iter__(self):
            for i, x in enumerate(sorted(set.__iter__(self))):
                if i == 1:
                    raise OSError("injected")
                yield x
    try:
        d = debtags.DB()
        d.read(iter(["p: fg::h\n", "ab: fg::h, j::h\n"]))
        exc = ""
        try:
            d.insert("x", HalfSet({"fg::h", "j::h"}))
        except Exception as e:
            exc = type(e).__name__
        fwd, bwd = pairs(d.db), {(p_, t) for t, p_ in pairs(d.rdb)}
        ctx.sample("diagnostic (hostile object, reported to the lead): insert('x', <set subclass whose __iter__ raises after one tag>) "
                   "raised %s; the collection is %s" % (exc or "nothing", "still mutually inverse" if fwd == bwd
                                                        else "no longer mutually inverse: %r" % (sorted(fwd ^ bwd),)))
    except Exception as e:
        ctx.sample("diagnostic: insert of a set subclass with a failing __iter__ raised %s" % type(e).__name__)


def load_lts(ctx, cfg):
    """model-check the closed configuration and read the complete reference LTS it prints"""
    r = ctx.tlc_must_hold("Debtags", cfg, workers=1, keep_raw=True, want_tags=set())
    edges, tables = [], {}
    try:
        with open(r.raw_path, errors="replace") as f:
            for line in f:
                if line.startswith('<<"EDGE", "') or line.startswith('<<"STATE", "'):
                    tag = line[3:7]
                    body = line[line.index(', "') + 3:line.rindex('"')]
                    v = json.loads(body.replace('\\"', '"').replace("\\\\", "\\"))
                    if tag == "EDGE":
                        edges.append(v)
                    else:
                        tables[skey_state(v["s"])] = v["q"]
    except (ValueError, KeyError) as e:
        raise core.MachineryError("cannot parse the LTS printed by TLC: %s" % e)
    for e in edges:
        e["from"] = canon(e["from"])
        e["to"] = canon(e["to"])
        e["args"] = [e["a"], e["s"], e["lines"], e.get("k")]
        if "allowed" in e:
            e["allowed"] = [canon(x) for x in e["allowed"]]
    g = LTS(edges, canon({"P": [], "T": [], "R": []}))
    if len(g.states) != r.distinct or any(k not in tables for k in g.states):
        raise core.MachineryError("LTS incomplete: %d states printed, TLC found %d, %d tables"
                                  % (len(g.states), r.distinct, len(tables)))
    return g, tables, r


def canon(s):
    return {"P": sorted(s["P"]), "T": sorted(s["T"]), "R": sorted(s["R"])}


def skey_state(s):
    from lts import skey
    return skey(canon(s))


def strip_edge(e):
    return {k: e[k] for k in ("from", "op", "a", "s", "lines", "k", "allowed", "to", "variant") if k in e}


def run(ctx):
    quick = ctx.tier == "quick"
    quiet_deprecations()
    WORKDIR[0] = ctx.work
    STATS["kinds"], STATS["aligned"] = {}, []
    rng = ctx.rng
    known_open = ctx.known_open(KNOWN)
    ctx.assumptions += [
        "model constants: packages p/ab/cdc (lengths 1,2,3) x tags fg::h fg::i j::h (thorough: also 4 packages, no LTS); closed state space: histories of any length over these names",
        "domain: insert gets a fresh package name; read gets each package on one line; facet_collection on facet::name tags; choose_packages_copy gets present packages (the rest is executed, any outcome accepted)",
        "a read()/qread() that raises part-way and other raising calls are part of a history: the exception must propagate and the object must stay consistent (unchanged or a line-prefix / the new collection; which one is unspecified)",
        "insert(pkg, source) with a caller-supplied tag source that raises after k names: some exception comes out (type unspecified) and the object is unchanged, or holds the package consistently with a prefix of the names handed over; a set (subclass) whose own iteration raises is out of domain (diagnostic sample)",
        "one current object per history plus one watched object: the source of the last copy()/reverse_copy()/pickle round trip (must stay unchanged), the original of a reverse() view (must follow what is done through the view) or the source of a set-sharing restriction (unchanged until an insert may reach a shared set, then unspecified)",
        "concretization of names is sampled (seeded); trusted: TLC, the projection of DB.db/DB.rdb, the concretizer",
        "known finding %s is %s: divergences TLC explains with the deviation-on operators are %s"
        % (KNOWN, "open" if known_open else "NOT open", "counted as KNOWN-FINDING" if known_open else "violations"),
    ]
    # 1. design level.  The closed configurations and the two negative controls do not depend on
    #    each other or on /repo: they run beside the LTS emission and the replay (joined in 2c).
    from concurrent.futures import ThreadPoolExecutor
    pool = ThreadPoolExecutor(7)

    def bg(cfg, workers):
        return pool.submit(ctx.tlc, "Debtags", cfg, count=False, workers=workers)

    f_src = bg("MC_Debtags_src_quick.cfg" if quick else "MC_Debtags_src.cfg", 4)   # retained source of copies
    f_sh = bg("MC_Debtags_shallow.cfg", 1)      # negative control: sets shared -> SourceInverse violated
    f_dev = bg("MC_Debtags_dev.cfg", 1)         # negative control: named deviation ON -> Inverse violated
    f_na = bg("MC_Debtags_nonatomic.cfg", 1)    # negative control: read() binds db first -> Inverse violated
    f_nq = bg("MC_Debtags_qread.cfg", 1)        # negative control: qread() binds db first -> Inverse violated
    f_rv = bg("MC_Debtags_rview.cfg", 1)        # negative control: remembered reverse view survives read() -> Refines violated
    f_ab = bg("MC_Debtags_alias.cfg", 1)        # negative control: alias bound to the first object -> AliasQueriesAgree violated
    f_vw = bg("MC_Debtags_view.cfg", 1)         # negative control: reverse() replaces an EMPTY index by a private dict -> Source* violated
    f_if = bg("MC_Debtags_insfail.cfg", 1)      # negative control: insert() updates rdb while consuming a source that raises -> Inverse violated
    if quick:
        f_closed = None            # the 3 x 3 closed configuration belongs to the thorough tier (budget)
        f_big = None
        g, tables, r_lts = load_lts(ctx, "MC_Debtags_lts_small.cfg")              # 2 packages x 3 tags
    else:
        f_closed = None
        f_big = bg("MC_Debtags_big.cfg", 4)                                        # 4 packages x 3 tags
        g, tables, r_lts = load_lts(ctx, "MC_Debtags_lts.cfg")                    # 3 packages x 3 tags

    def join_design():
        """results of the background runs; a violated design configuration is a specification defect"""
        out = {}
        for name, f, want in (("closed", f_closed, None), ("big", f_big, None), ("src", f_src, None),
                              ("shallow", f_sh, ("SourceInverse", "SourceRefines")), ("dev", f_dev, ("Inverse",)),
                              ("nonatomic", f_na, ("Inverse",)), ("qread", f_nq, ("Inverse",)),
                              ("rview", f_rv, ("Refines",)), ("alias", f_ab, ("AliasQueriesAgree",)),
                              ("view", f_vw, ("SourceRefines", "SourceInverse")), ("insfail", f_if, ("Inverse",))):
            if f is None:
                continue
            r = f.result()
            if want is None:
                if r.violated:
                    raise core.MachineryError("specification Debtags (%s configuration) violates %s\n%s" % (name, r.violated, r.tail))
                ctx.states += r.distinct
                ctx.transitions += r.generated
            elif r.violated not in want:
                raise core.MachineryError("negative control %s failed: TLC reports %r, expected %s violated" % (name, r.violated, want[0]))
            out[name] = r
        return out

    ops = {}
    for e in g.edges:
        ops[e["op"]] = ops.get(e["op"], 0) + 1
    ctx.extra["edges_per_action"] = ops
    ctx.extra["model_constants"] = {"PK": ["p", "ab", "cdc"], "PK_of_replayed_LTS": ["p", "aba"] if quick else ["p", "ab", "cdc"],
                                    "FT": ["fg::h", "fg::i", "j::h"], "ReadDrops": [[], ["fg::h"], ["fg::i", "j::h"]],
                                    "deviation": "InsertNewTagStoresChars=FALSE", "ShallowCopy": False,
                                    "SrcSteps (retained-source configuration)": 2}

    paths = g.paths()
    model_names = sorted({tuple(n) for t in tables.values() for n in t["names"]})
    diverged = []          # (case, first divergence message, trace)
    n_replayed = 0
    nviol = [0]
    called = {}            # concrete method of the last call of each replayed behaviour

    def one(path, conc, deep, label, keeps=()):
        """replay one behaviour; a divergence is not judged here but handed to TLC.
        keeps: indexes of derivation steps that are observed but do not become the current object"""
        nonlocal n_replayed
        junk = list(JUNK)
        if conc.rep and any(e["op"] in ("insert", "facet") for e in path):
            conc = concs[1]        # stretched names only where the known insert deviation cannot occur
        plan = [concretize_step(e, conc, rng, junk) for e in path]
        for i in keeps:
            plan[i]["keep"] = True
            if plan[i]["op"] == "pickle":
                plan[i]["op"] = "copy"
        if label == "reread":                  # the SAME object must be re-read: in-place input forms only
            for st in plan:
                if st["op"] == "read" and st.get("via") not in INPLACE_VIAS:
                    st["via"] = "iter"
        if label == "view":                    # the view itself, not its copying twin
            for st in plan:
                if st["op"] == "reverse_copy":
                    st["op"] = "reverse"
        plan_views(plan, rng, force_last=(label == "view"))
        called[plan[-1]["op"]] = called.get(plan[-1]["op"], 0) + 1
        exp = expectations(path, tables, rev_of)
        n_replayed += 1
        d = replay_path(plan, exp, conc, rng, junk, deep)
        if d is None:
            return
        names = [conc.name(n) for n in model_names]
        names += sorted({c for n in names for c in n} - set(names)) + junk      # also the characters
        events, problem = execute(with_queries(plan, names, every=deep))
        case = {"kind": "path", "label": label, "path": [strip_edge(e) for e in path], "exp": exp,
                "conc": conc.to_json(), "plan": plan}
        if problem:
            nviol[0] += 1
            ctx.violation(case, "%s; %s" % (d[1], problem))
        else:
            diverged.append((case, d[1], {"events": events}))

    copy_edge = {k: [x for x in outs if x["op"] == "copy"][0] for k, outs in g.out.items()}
    fail_edges = {k: [x for x in outs if x["op"] in ("read_fails", "qread_fails", "insert_fails")] for k, outs in g.out.items()}
    read_edges = {k: [x for x in outs if x["op"] == "read"] for k, outs in g.out.items()}
    by_op = {k: {} for k in g.out}
    for k, outs in g.out.items():
        for x in outs:
            by_op[k].setdefault(x["op"], []).append(x)
    rev_of = {k: by_op[k]["reverse"][0] for k in g.out}       # the reference's reverse transition out of every state
    DERIVE = ("reverse", "copy", "restrict_p", "filter_t", "facet")
    AGAIN = ("facet", "restrict_p", None, "filter_t", "copy", None, "dumpread", "restrict_p")    # derivations repeated around a view edit
    # 2a. every transition of the LTS (prefix = shortest path from DB())
    nconc = 2
    concs = ([Conc(canonical=True)] + [Conc(rng) for _ in range(17)]
             + [Conc(flavour="nfc"), Conc(flavour="marks"), Conc(flavour="case")]
             + [Conc(rng, flavour="size") for _ in range(3)])
    nc = len(concs) - 1
    n_reread = n_view = n_again = 0
    for idx, e in enumerate(g.edges):
        if nviol[0] >= 5:
            break
        # thorough: the 33 000 restrict/filter transitions of the 3x3 LTS get one of the two forms each
        if e["op"] in ("restrict_p", "filter_t", "read_fails", "qread_fails", "insert_fails"):
            reps = (idx % 2,) if not quick else ((1,) if idx % 2 else (0, 1))
        else:
            reps = range(nconc)
        for c in reps:
            conc = concs[0] if c == 0 else concs[1 + (idx % nc)]
            path = paths[e["_f"]] + [e]
            if c == 1 and e["op"] != "copy" and idx % 2 == 0:
                # the same transition taken on a COPY of the collection: its source must not notice
                path = paths[e["_f"]] + [copy_edge[e["_f"]], e]
            elif c == 1 and e["op"] not in ("read_fails", "qread_fails"):
                # ... and taken after a read()/qread()/insert() that FAILED on this object and was caught
                # (also a failing insert after another failed call)
                fe = fail_edges[e["_f"]]
                path = paths[e["_f"]] + [fe[(idx // 2) % len(fe)], e]
            one(path, conc, False, "edge")
        # re-read: the derivation is taken and kept aside, the SAME object is re-read (read / qread), the
        # derivation is taken again from the new content; the kept one is checked as documented
        if e["op"] in DERIVE and (e["op"] == "reverse" or idx % (3 if quick else 6) == 0):
            rs = read_edges[e["_f"]]
            r = rs[idx % len(rs)]
            again = by_op[r["_t"]].get(e["op"])
            if again:
                pre = paths[e["_f"]]
                one(pre + [e, r, again[idx % len(again)]], concs[1 + ((idx + 7) % nc)], False, "reread", keeps=(len(pre),))
                n_reread += 1
        # views: the transition is taken through a reverse() VIEW of a collection (reached on the shortest
        # path), then the history goes back to the ORIGINAL, which must show TLC's state (the reverse of the
        # view's): all in-place transitions, thinned in the thorough tier
        # (selection only: transitions that will meet the open known finding -- a multi-character name inserted
        # under a key new to the other index -- are thinned, each of them costs a TLC-judged trace)
        devprone = e["op"] == "insert" and len(e["a"]) > 1 and any(t not in e["from"]["T"] for t in e["s"])
        if e["op"] in ("insert", "read_fails", "qread_fails", "insert_fails") and (idx % 8 == 0 if e["op"] != "insert" else (not devprone or idx % 4 == 0)) \
                and ((idx + ctx.seed) % 2 == 0 if quick else idx % 3 == 0):
            o = rev_of[e["_f"]]["_t"]                   # the original: its reverse() view shows e's start state
            if rev_of[o]["_t"] == e["_f"]:
                pre, keeps = paths[o], ()
                path = pre + [rev_of[o], e, rev_of[e["_t"]]]
                # ... with a derivation taken from the original BEFORE the view is edited (kept aside) and the
                # same derivation taken AGAIN after going back: it must be a derivation of the edited collection
                dop = AGAIN[(idx // 2) % len(AGAIN)]
                d1, d2 = by_op[o].get(dop), by_op[rev_of[e["_t"]]["_t"]].get(dop)
                if d1 and d2:
                    first = d1[idx % len(d1)]
                    same = [x for x in d2 if x["s"] == first["s"]] or d2
                    path = pre + [first, rev_of[o], e, rev_of[e["_t"]], same[idx % len(same)]]
                    keeps = (len(pre),)
                    n_again += 1
                one(path, concs[1 + ((idx + 3) % nc)] if idx % 2 else concs[0], False, "view", keeps=keeps)
                n_view += 1
        ctx.case_seen(("edge", e["_f"], e["op"], json.dumps(e["args"])), e["_f"] != e["_t"])
    ctx.extra["reread_behaviours"] = n_reread
    ctx.extra["view_behaviours"] = n_view
    ctx.extra["view_behaviours_with_repeated_derivation"] = n_again
    mid = g.edges[len(g.edges) // 3]
    ctx.sample("lts edge: " + json.dumps(strip_edge(mid), separators=(",", ":")))
    ctx.sample("its concretization: " + " ; ".join(
        describe(concretize_step(x, Conc(canonical=True), rng, [])) for x in paths[mid["_f"]] + [mid]))

    # 2b. random walks from DB() (long histories; queries checked after every call)
    nwalks, wlen = (160, 12) if quick else (600, 25)
    w8 = {"insert": 6, "read": 2, "reverse": 3, "copy": 1, "facet": 3, "restrict_p": 1, "filter_t": 1,
          "read_fails": 2, "qread_fails": 2, "dumpread": 2, "dumprevread": 2, "insert_fails": 3}
    for w in range(nwalks):
        if nviol[0] >= 5:
            break
        path = g.walk(rng, g.init, wlen, weight=lambda x: w8[x["op"]] * (3 if x["_f"] != x["_t"] or x["op"].endswith("_fails") else 1)
                      * (0.25 if x["op"] == "insert_fails" and not x["k"] else 1))
        one(path, concs[w % len(concs)], True, "walk")
        ctx.case_seen(("walk", w), True)
    # 2b'. size stress through the replay leg: blown-up concretizations of abstract behaviours
    shapes = [dict(np=3334, nt=3, pad=0), dict(np=11, nt=334, pad=0), dict(np=40, nt=5, pad=4096),
              dict(np=257, nt=33, pad=129), dict(np=1000, nt=17, pad=0), dict(np=2, nt=1001, pad=33)]
    nbig = 3 if quick else 10
    bigs = []
    for b in range(nbig):
        if nviol[0] >= 5:
            break
        shape = shapes[(b + ctx.seed) % len(shapes)]
        brng_seed = rng.randrange(1 << 30)
        import random as _random
        path = big_path(g, _random.Random(brng_seed), 4 if quick else 6)
        brng = _random.Random(brng_seed + 1)
        names = {tuple(n) for e in path for n in e["to"]["P"] + e["to"]["T"] + e["from"]["P"] + e["from"]["T"]}
        pk_like = {n for n in names if 0 not in n}
        counts = [[list(n), (shape["np"] if n in pk_like else shape["nt"]) + (i % 3)] for i, n in enumerate(sorted(names))]
        bc = BigConc(concs[1 + b % 17], counts, shape["pad"])
        msg = replay_big(path, tables, bc, brng)
        n_replayed += 1
        bigs.append(dict(shape, steps=[e["op"] for e in path]))
        ctx.case_seen(("big", b), True)
        if msg:
            nviol[0] += 1
            ctx.violation({"kind": "big", "path": [strip_edge(e) for e in path], "tables": {skey_state(x): tables[skey_state(x)] for e in path for x in [e["from"], e["to"]] + e.get("allowed", []) if skey_state(x) in tables},
                           "bigconc": bc.to_json(), "seed": brng_seed, "length": len(path) - 1}, "size-stressed behaviour %r: %s" % (shape, msg))
    ctx.extra["size_stress_cases"] = bigs
    # 2b''. thresholds inside derivation histories: restrictions that take FEW names out of MANY (64, 100, 128 ...)
    #      every restricting method x totals x dropped shares, rotating with the seed
    nthr = 96 if quick else 480
    thr = []
    import random as _random
    for b in range(nthr):
        if nviol[0] >= 5:
            break
        tseed = rng.randrange(1 << 30)
        c = b // len(RESTRICT_VARIANTS) + ctx.seed * 5
        tc = threshold_case(g, by_op, _random.Random(tseed), RESTRICT_VARIANTS[b % len(RESTRICT_VARIANTS)],
                            THRESH_N[(c * 7) % len(THRESH_N)], c)
        if tc is None:
            continue
        path, counts, what = tc
        bc = BigConc(concs[(b % 18)], counts, 33 if b % 7 == 3 else 0)
        msg = replay_big(path, tables, bc, _random.Random(tseed + 1))
        n_replayed += 1
        thr.append(what)
        ctx.case_seen(("threshold", b), True)
        if msg:
            nviol[0] += 1
            ctx.violation({"kind": "big", "path": [strip_edge(e) for e in path], "tables": {skey_state(x): tables[skey_state(x)] for e in path for x in [e["from"], e["to"]] + e.get("allowed", []) if skey_state(x) in tables},
                           "bigconc": bc.to_json(), "seed": tseed, "length": len(path) - 1},
                          "restriction taking %d of %d names out (%s): %s" % (what["dropped"], what["total"], what["restriction"], msg))
    ctx.extra["threshold_cases"] = {"n": len(thr), "sole_carrier": sum(1 for w in thr if w["sole_carrier"]),
                                    "totals": sorted({w["total"] for w in thr}), "sample": thr[:3]}
    sharing_diagnostics(ctx)
    fault_diagnostics(ctx)
    ctx.extra["behaviours_replayed"] = n_replayed
    ctx.extra["replayed_last_call_per_method"] = called
    ctx.extra["behaviours_diverged"] = len(diverged)

    # 2c. join the design-level runs; TLC judges the diverged behaviours (deviation allowed only
    #     while the finding is open)
    design = join_design()
    pool.shutdown()
    ctx.extra["lts"] = {"states": len(g.states), "edges": len(g.edges), "tlc_wall_s": round(r_lts.wall, 1),
                        "closed_3x3_states": design["closed"].distinct if "closed" in design else (None if quick else r_lts.distinct),
                        "closed_4x3_states": design["big"].distinct if "big" in design else None,
                        "retained_source_config_states": design["src"].distinct}
    ctx.extra["negative_control_spec"] = ["InsertNewTagStoresChars=TRUE -> TLC: invariant %s violated" % design["dev"].violated,
                                          "ShallowCopy=TRUE -> TLC: invariant %s violated" % design["shallow"].violated,
                                          "NonAtomicRead=TRUE -> TLC: invariant %s violated" % design["nonatomic"].violated,
                                          "NonAtomicQread=TRUE -> TLC: invariant %s violated" % design["qread"].violated,
                                          "ReverseViewCached=TRUE -> TLC: invariant %s violated" % design["rview"].violated,
                                          "AliasBoundToFirstObject=TRUE -> TLC: invariant %s violated" % design["alias"].violated,
                                          "ViewReplacesEmptyIndex=TRUE -> TLC: invariant %s violated" % design["view"].violated,
                                          "NonAtomicInsert=TRUE -> TLC: invariant %s violated" % design["insfail"].violated]
    hits = 0
    if diverged:
        traces = [t for _, _, t in diverged]
        rejected, devsteps, info = judge(ctx, traces, make_controls(traces))
        okids = [i for i in range(1, len(traces) + 1) if i not in set(rejected)]
        hits += count_known(ctx, devsteps, okids)
        for i in okids:
            if not devsteps.get(i) and nviol[0] < 5:
                # the expectation that failed came from TLC (LTS state / query table) and no known deviation
                # is involved: a violation seen by the replay leg (e.g. a check the trace events do not carry)
                nviol[0] += 1
                ctx.violation(diverged[i - 1][0], diverged[i - 1][1] + "\n(replay against TLC's expected state; the recorded "
                              "events of the same history are explained by the specification)")
        for i in rejected[:5]:
            case, msg, t = diverged[i - 1]
            at = info.get(i, 0)
            ctx.violation(case, "%s\n(history handed to TLC: %d events explained%s, event %d %s not explained)"
                          % (msg, at, " with the known deviation allowed" if known_open else "", at + 1,
                             json.dumps(brief(t["events"][at]) if at < len(t["events"]) else None)))
        ctx.extra["diverged_rejected_by_tlc"] = len(rejected)
        if okids:
            case, msg, _ = diverged[okids[0] - 1]
            ctx.sample("known-finding behaviour: " + " ; ".join(describe(s) for s in case["plan"]) + "  -> " + msg[:160])

    # 3. code -> spec: recorded histories validated by TLC
    ntr, nops, maxpk = (180, 14, 12) if quick else (1200, 30, 30)
    batch = 400
    manys = (64, 65, 72, 100, 101, 128)
    recorded = [record_history(rng, nops, maxpk if i % 3 else 5, many=(manys[(i // 90 + ctx.seed) % len(manys)] if i % 90 == 45 else 0))
                for i in range(ntr)]
    plans = [p for p, _ in recorded]
    traces, bad = [], []
    for p, clean in recorded:
        ev, problem = execute(p)
        if problem:
            bad.append((p, problem))
        traces.append({"events": ev, "clean": clean})
    for p, problem in bad[:5]:
        ctx.violation({"kind": "trace", "plan": p}, "recorded history: " + problem)
    n_rej = 0
    for b in range(0, len(traces), batch):
        part = traces[b:b + batch]
        rejected, devsteps, info = judge(ctx, part, make_controls(part))
        okids = [i for i in range(1, len(part) + 1) if i not in set(rejected)]
        hits += count_known(ctx, devsteps, okids)
        n_rej += len(rejected)
        for i in rejected[:5]:
            at = info.get(i, 0)
            t = part[i - 1]
            ev = t["events"][at] if at < len(t["events"]) else None
            ctx.violation({"kind": "trace", "plan": plans[b + i - 1], "first_unexplained_event": at + 1},
                          "recorded history not explained by Debtags%s: event %d %s (after %d explained events); calls: %s"
                          % (" (known deviation allowed)" if known_open else "", at + 1, json.dumps(brief(ev)), at,
                             " ; ".join(describe(s) for s in plans[b + i - 1][:at + 1] if s["op"] != "q")[-900:]))
    for i in range(len(traces)):
        ctx.distinct.add(("trace", i))
    ctx.evaluations += len(traces)
    ctx.traces += n_replayed + len(traces)
    ctx.extra["traces_recorded"] = len(traces)
    ctx.extra["traces_rejected"] = n_rej
    ctx.extra["events_recorded"] = sum(len(t["events"]) for t in traces)
    ctx.extra["known_deviation_steps"] = hits
    opc = {}
    for p in plans:
        for s in p:
            opc[s["op"]] = opc.get(s["op"], 0) + 1
    ctx.extra["recorded_calls_per_method"] = opc
    ctx.extra["file_object_kinds"] = dict(sorted(STATS["kinds"].items()))
    al = STATS["aligned"]
    ctx.extra["aligned_cases"] = {"n": len(al), "offsets_2^k": sorted({a["k"] for a in al}), "deltas": sorted({a["delta"] for a in al}),
                                  "anchors": sorted({a["where"] for a in al}), "input_forms": sorted({a["via"] for a in al}),
                                  "sample": al[:3]}
    ctx.sample("recorded history (first calls): " + " ; ".join(describe(s) for s in plans[0][:4])[:400])
    # the design-level runs finish in any order: list them deterministically in the evidence
    order = {id(r): i for i, r in enumerate(ctx.tlc_runs)}
    ctx.tlc_runs.sort(key=lambda r: (0, r["generated"]) if r["module"] == "Debtags" else (1, order[id(r)]))


def brief(ev):
    """a readable form of a trace event (names back to text)"""
    if ev is None:
        return None

    def dn(x):
        return "".join(chr(c) for c in x)

    out = {"op": ev["op"], "exc": ev["exc"]}
    if "a" in ev:
        out["a"] = dn(ev["a"])
    if "s" in ev:
        out["s"] = [dn(x) for x in ev["s"]]
    out["db"] = {dn(k): [dn(m) for m in v] for k, v in ev["db"]}
    out["rdb"] = {dn(k): [dn(m) for m in v] for k, v in ev["rdb"]}
    if ev.get("slive"):
        out["source_of_last_copy"] = {"db": {dn(k): [dn(m) for m in v] for k, v in ev["sdb"]},
                                      "rdb": {dn(k): [dn(m) for m in v] for k, v in ev["srdb"]}}
    if ev["op"] == "q":
        out["answers"] = {"pc": ev["pc"], "tc": ev["tc"], "names": [dn(x) for x in ev["qn"]], "card": ev["qcard"]}
    return out


def replay(ctx, case):
    import random
    quiet_deprecations()
    WORKDIR[0] = ctx.work
    known_open = ctx.known_open(KNOWN)
    plan = case.get("plan")
    if case["kind"] == "path":
        conc = Conc.from_json(case["conc"])
        junk = list(JUNK)
        d = replay_path(plan, case["exp"], conc, random.Random(0), junk, True)
        if d is None:
            return None
        names = sorted({conc.name(n) for x in case["exp"] for n in x["table"]["names"]})
        names += sorted({c for n in names for c in n} - set(names)) + junk
        events, problem = execute(with_queries(plan, names))
        if problem:
            return "%s; %s" % (d[1], problem)
        rejected, devsteps, info = judge(ctx, [{"events": events}])
        if rejected:
            return "%s (TLC: not explained%s)" % (d[1], " even with the known deviation" if known_open else "")
        if not devsteps.get(1):
            return d[1]
        return None          # exactly the open known finding
    if case["kind"] == "big":
        return replay_big(case["path"], case["tables"], BigConc.from_json(case["bigconc"]), random.Random(case["seed"] + 1))
    if case["kind"] == "trace":
        events, problem = execute(plan)
        if problem:
            return problem
        rejected, devsteps, info = judge(ctx, [{"events": events}])
        if rejected:
            return "history still not explained by the specification at event %d" % (info.get(1, 0) + 1)
        return None
    return "unknown case kind"
