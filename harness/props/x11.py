"""X11 (extra) -- the parts API of debian.debfile: DebPart / DebData / DebControl and the conveniences of DebFile.

STATEMENT
  For a package built the way dpkg-deb builds it (tar members './name', distinct names) every part answers for
  exactly what was packed, whichever of the documented spellings "file", "./file", "/file" is used, also for names
  that start with dots (".hidden", "..a") or repeat in several directories: has_file(f) / `f in part` /
  __contains__ are true exactly for the packed members (files, directories, links, special files); iterating a
  part yields tgz().getnames(), i.e. './name' for every member in archive order; get_content(f) / part[f] return
  the packed bytes of a regular file and None for a directory or special file ("or None (e.g. for directories)"),
  get_file(f) returns a readable file object with the same bytes however and whenever it is read (no file object
  for a directory: DebError or None), a file that is not in the part raises KeyError or DebError.  With an
  encoding, get_content / get_file return exactly bytes.decode(encoding, errors) of the packed bytes (errors
  defaults to strict: UnicodeDecodeError exactly for undecodable content; replace / ignore / surrogateescape are
  honoured; without encoding `errors` is ignored).  DebControl.scripts() maps exactly the packed regular files
  among preinst postinst prerm postrm config to their bytes; debcontrol() is the parsed control file; md5sums()
  raises DebError exactly when the control part has no md5sums file and otherwise maps every listed name, in
  order of first listing, to its (last listed) sum as str, whatever the blank separator ("  ", " ", tabs) and the
  line terminator (LF, CRLF, none on the last line), blanks inside and at the end of a name preserved; keys are
  bytes without encoding and exactly the decoded bytes keys (same order, same sums) with one.  DebFile.version is
  debian-binary stripped of surrounding white space; DebFile.debcontrol / scripts / md5sums are those of
  .control; changelog() is the Changelog parsed from the gunzipped (single or multi member)
  usr/share/doc/<Package of THIS package>/changelog.Debian.gz when the data part has it, else from
  .../changelog.gz, else None -- never a changelog from another package's doc directory.  A part whose member
  name has no accepted extension or whose payload is not a (compressed) tar archive answers every call with
  DebError.  Answers do not depend on the history: what was asked before, which TarFile / package name is
  cached, how many other packages with the same file names are open, file objects still unread, and what callers
  did to returned dictionaries change nothing; close() / leaving a `with` block never raise, also when repeated;
  __enter__ returns the object; after close() a call either still gives the right answer or raises.
  Domain / unspecified (executed, every outcome accepted): spellings other than the three documented ones ('',
  '.', '/', './/x', 'x/', '../x' ...); get on symlinks and hard links (tarfile's business); members that are not
  './name'; md5sums names with CR / LF or starting with ASCII white space, non-identical duplicate lines, blank
  lines, md5sums that is not a regular file; a control file without Package field; a changelog member that is not
  a gzip stream or not a regular file; truncated compressed streams; '\\r' in text mode (io.TextIOWrapper
  translates newlines: both the translated and the untranslated text are accepted).

spec:     spec/DebParts.tla      pure operators PNorm / PHas / PGet / PDec / PIter / PScripts / PCtl / PMd5 /
                                 PChangelog / PVersion over token paths and blob properties, PCall = one call in a
                                 session (TarFile cache per part, lazily cached package name, closed flags, file
                                 objects handed out); outcomes [r, alts, any, mr]
          spec/DebPartsMC.tla    110 closed scenarios: table families names / types / text / md5 / chlog / gate / ver
                                 (every call once) and sessions one / two / bad (every history); thorough tier: + nameset
                                 (every subset of six file names as data part, 64 scenarios)
          spec/TraceDebParts.tla trace validation
model checking: every scenario; invariants NamesAreValid, SpellingInvariant, ContentExact, ListingAgrees,
          NonFileIsNone, TextOfBinary, ScriptsExact, Md5Exact, Md5ModesAgree, ChangelogOrder, VersionStripped,
          GateClosed, CacheTransparent, NameIsOwn and action properties HandlesIndependent, CloseSafe,
          OnlyCloseCloses, RaisesOnlyClosed.  Spec-level negative controls, re-run in every check (each must make
          TLC report the named property): FLstrip -> ContentExact, FNativeFirst -> ChangelogOrder, FKeepCR ->
          Md5Exact, FSharedName -> CacheTransparent, FSharedTar -> CacheTransparent, FHandleLast ->
          HandlesIndependent, and the two as-built switches FDirRaises -> NonFileIsNone, FUniSpace -> Md5ModesAgree.
binding:  spec -> code: every EDGE line TLC emits (call, outcome per statement, outcome as built, session before /
          after) is replayed on real packages: table scenarios on one object per realisation with the calls shuffled,
          session scenarios as walks from a fresh object that cover every edge; realisations are tame / odd-character
          / size-stressed, packed with gnu / pax tar, none / gz / bz2 / xz / lzma, opened through every public entry
          point, parts reached through DebFile or constructed directly from ar members.
          code -> spec: random packages (one to three open at once, same file names / foreign doc directories,
          hidden names, links, broken parts) queried through random calls incl. unspecified spellings, late reads of
          file objects, use after close, are recorded and validated by TLC (TraceDebParts) together with corrupted
          control traces that must be rejected.
          Size stress (notes/SIZE_STRESS.md): contents of 0..131 073 bytes and one of 1 MiB + 17 (incompressible),
          path components up to 257 characters (GNU long names / pax headers), 9..1000 padding members, md5sums
          files of up to 1000+ lines and names up to 8193 bytes, changelogs of 120..900 entries, control files with
          1000 dependencies; character stress: NFC / NFD twins, case-mapping hazards, BOM / zero-width / non-BMP,
          every UTF-8 trailing byte, line-boundary look-alikes (VT FF FS GS RS NEL LS PS) inside names and contents.
          Names, contents and sums are symbols in the model: verdicts are length-independent by construction; one
          abstract md5sums line stands for a run of concrete lines of the same shape.

API surface (notes/API_SURFACE.md)
  entry point / variant                                              exercised by
  DebFile(fileobj=) / (None, 'r', f) / fileobj=real file / filename= /
    (path, 'r') / user subclass(filename=, mode=)                    replay + trace (World: how)
  DebControl(member) / DebData(member) / DebPart(member) on members
    of an ArFile (any member name: extension gate of tgz())          replay + trace (via = direct)
  .control / .data / .version                                        replay + trace
  part.tgz()  (TarFile; getnames())                                  replay + trace (tgz, iter)
  has_file(f), f in part, part.__contains__(f)                       replay + trace (always together)
  iter(part), list(part), comprehension                              replay + trace (iter)
  get_content(f) / (f, None) / (f, enc) / (f, enc, errors) /
    encoding= errors= keywords in both orders                        replay + trace (get_args)
  part[f], part.__getitem__(f)                                       replay + trace (getc, binary)
  get_file(...) same conventions; read() / readlines() / iteration /
    chunked read(n) / read(k) + read(); read later (gf ... rd)       replay + trace
  DebControl.scripts() / debcontrol() / md5sums() and the same three
    on DebFile                                                       replay + trace (drawn per call)
  md5sums() / (None) / (enc) / (enc, errors) / keywords              replay + trace
  DebFile.changelog()                                                replay + trace
  close() on DebFile and on a part, repeated; __enter__ / __exit__   replay + trace
  with DebFile(...) as d                                             replay (walks end in exit) + trace
  ArFile API inherited by DebFile                                    property C06;  acceptance of member lists: C07
  copy / pickle of the objects, write modes                          out of domain (undocumented; ArFile is read-only)

findings (KNOWN): see the KNOWN list; both are defect switches of the specification, every divergence they explain is
          counted, never hidden; any other divergence is a violation.
"""
import json
import os
import random
import time
from concurrent.futures import ThreadPoolExecutor

import core
import parts_x11 as PX
from lts import skey

MANIFEST = None
LEVEL = "model_checking"

EXTRA = dict(
    title="debian.debfile parts API: DebPart / DebData / DebControl and the DebFile conveniences",
    statement=(
        "For a package built like dpkg-deb builds it every part answers for exactly what was packed under each of the "
        "documented spellings 'file', './file', '/file' (also for names starting with dots): has_file / in are true "
        "exactly for the packed members, iteration yields './name' in archive order, get_content / [] return the "
        "packed bytes of a regular file and None for a directory, get_file a file object with the same bytes however "
        "and whenever it is read, an absent file raises KeyError or DebError; with an encoding the result is exactly "
        "bytes.decode(encoding, errors) (strict by default). scripts() maps exactly the packed maintainer scripts, "
        "md5sums() raises DebError exactly without an md5sums file and otherwise maps every listed name in order to "
        "its sum for any blank separator and LF / CRLF terminator, keys bytes without encoding and exactly their "
        "decoding with one; version is debian-binary stripped; changelog() parses the gunzipped changelog.Debian.gz "
        "of the package's OWN doc directory, else changelog.gz, else returns None. A part that is not a readable "
        "(compressed) tar answers DebError; answers never depend on earlier calls, caches, other open packages, "
        "unread file objects or mutation of returned dictionaries; close / with never raise and may be repeated."),
    technique=(
        "TLA+ spec DebParts (token-level path normalisation, pure operators per call, session model with TarFile / "
        "package-name caches, handles and close) over 110 closed scenarios (DebPartsMC) model-checked by TLC with 18 "
        "invariants / action properties and 8 spec-level switches as negative controls; every emitted EDGE replayed "
        "on real .deb files (tame / odd-character / size-stressed, every entry point) -- tables shuffled on one "
        "object, sessions as edge-covering walks; recorded random multi-package histories validated by TLC "
        "(TraceDebParts) with corrupted control traces."))

K_DIR = "X11-get-content-nonfile-raises"
K_UNI = "X11-md5sums-text-strips-unicode-space"
KNOWN = [
    dict(id=K_DIR,
         signature="get_content(name) / part[name] of a directory (or fifo / device member) raises DebError('File not found "
                   "inside package') although has_file(name) is True and the docstring promises None ('or None (e.g. for "
                   "directories)'); scripts() therefore raises DebError when e.g. 'config' is a directory although its "
                   "code skips None; e.g. deb.data.get_content('usr') on any package"),
    dict(id=K_UNI,
         signature="md5sums(encoding=...) splits each line with str.split, which also strips Unicode white space a file "
                   "name STARTS with (U+00A0, U+2003, U+3000, U+2028, U+0085, U+001C..U+001F); md5sums() without encoding "
                   "uses bytes.split and keeps it: for the line b'<md5>  \\xc2\\xa0lead' the keys are b'\\xc2\\xa0lead' and "
                   "'lead' (expected '\\xa0lead': the text keys are the decoded bytes keys)"),
]
KNOWN_IDS = {k["id"] for k in KNOWN}

FLAGS = ["FDirRaises", "FUniSpace", "FLstrip", "FNativeFirst", "FKeepCR", "FSharedName", "FSharedTar", "FHandleLast"]
INVARIANTS = ["NamesAreValid", "SpellingInvariant", "ContentExact", "ListingAgrees", "NonFileIsNone", "TextOfBinary", "ScriptsExact",
              "Md5Exact", "Md5ModesAgree", "ChangelogOrder", "VersionStripped", "GateClosed", "CacheTransparent", "NameIsOwn"]
PROPS = ["HandlesIndependent", "CloseSafe", "OnlyCloseCloses", "RaisesOnlyClosed"]
TABLES = ["names", "types", "text", "md5", "chlog", "gate", "ver"]
SESSIONS = ["one", "two", "bad"]
# (switch, families to explore, property TLC must report)
NEG_CONTROLS = [("FDirRaises", ["types"], "NonFileIsNone"), ("FUniSpace", ["md5"], "Md5ModesAgree"),
                ("FLstrip", ["names"], "ContentExact"), ("FNativeFirst", ["chlog"], "ChangelogOrder"),
                ("FKeepCR", ["md5"], "Md5Exact"), ("FSharedName", ["two"], "CacheTransparent"),
                ("FSharedTar", ["one"], "CacheTransparent"), ("FHandleLast", ["one"], "HandlesIndependent")]


def cfg_text(which, emit, on=(), props=True):
    t = lambda b: "TRUE" if b else "FALSE"     # noqa: E731
    out = ["CONSTANTS", "  Which = {%s}" % ", ".join('"%s"' % w for w in which)]
    out += ["  %s = %s" % (f, t(f in on)) for f in FLAGS]
    out += ["  Emit = %s" % t(emit), "SPECIFICATION XSpec"]
    if props:
        out += ["INVARIANT " + p for p in INVARIANTS] + ["PROPERTY " + p for p in PROPS]
    out += ["VIEW XView", "CHECK_DEADLOCK FALSE", ""]
    return "\n".join(out)


def read_emission(path):
    """fast reader of the ENV / EDGE lines of a TLC run"""
    envs, edges = [], []
    with open(path, errors="replace") as f:
        for line in f:
            if line.startswith('<<"EDGE", "'):
                edges.append(json.loads(line[11:-4].replace('\\"', '"').replace("\\\\", "\\")))
            elif line.startswith('<<"ENV", "'):
                envs.append(json.loads(line[10:-4].replace('\\"', '"').replace("\\\\", "\\")))
    return envs, edges


# ------------------------------------------------------------------ judging one observation against TLC's outcome

def req(a, b):
    return a["t"] == b["t"] and a["x"] == b["x"]


def allowed(o, r):
    return bool(o["any"]) or req(r, o["r"]) or any(req(a, r) for a in o["alts"]) or (bool(o["mr"]) and r["t"] == "err")


def judge(edge, res):
    """-> None (as the statement says) | ('known', id) | ('viol', message)"""
    if allowed(edge["out"], res):
        return None
    if allowed(edge["kout"], res):
        kid = K_UNI if edge["call"]["op"] == "md5" else K_DIR
        if kid in KNOWN_IDS:
            return ("known", kid)
    o = edge["out"]
    exp = json.dumps(o["r"], ensure_ascii=False)
    if o["alts"]:
        exp += " or " + " or ".join(json.dumps(a, ensure_ascii=False) for a in o["alts"])
    if o["mr"]:
        exp += " or an exception (package closed)"
    return ("viol", "observed %s, the specification says %s" % (json.dumps(res, ensure_ascii=False)[:400], exp[:600]))


class Known(object):
    def __init__(self):
        self.hits = {}
        self.example = {}

    def hit(self, kid, example):
        self.hits[kid] = self.hits.get(kid, 0) + 1
        self.example.setdefault(kid, example)


def describe(real, world, c):
    bits = [c["op"]]
    if c["k"]:
        bits.append("package %d (opened as %s)" % (c["k"], world.opened_as[c["k"] - 1] if world else "?"))
    if c["p"]:
        bits.append("%s part" % ("control" if c["p"] == "c" else "data"))
    if c["op"] in ("has", "getc", "getf", "gf"):
        bits.append("path %r" % (real.path(c["q"]),))
    if c["m"]["codec"] or c["m"]["errs"]:
        bits.append("encoding=%r errors=%r" % (c["m"]["codec"] or None, c["m"]["errs"] or None))
    if c["op"] == "rd":
        bits.append("file object %d" % c["h"])
    return " ".join(bits)


def describe_pkg(real):
    out = []
    for k, pk in enumerate(real.env["pk"]):
        names = [real.path(["."] if not e["n"] else [".", "/"] + e["n"]) + ("/" if e["t"] == "dir" else "@" + e["t"] if e["t"] != "file" else "")
                 for e in pk["dat"]["ents"]][:12]
        out.append("package %d: %s / %s, data members %s" % (k + 1, real.pk[k]["parts"]["c"]["member"], real.pk[k]["parts"]["d"]["member"], names))
    return "; ".join(out)[:700]


# ------------------------------------------------------------------ spec -> code: table scenarios

def run_calls(real, wseed, via, how, steps, work, known, stop_first=True):
    """fresh objects, then the steps [(edge, per-step seed)] in order.  -> (done, (index, edge, message) or None)"""
    rng = random.Random(wseed)
    try:
        world = PX.World(real, rng, work, via=via, how=how)
    except Exception as ex:      # noqa: BLE001
        if not core.raised_by_code_under_test(ex):
            raise
        return 0, (0, steps[0][0], "opening the package (%s / %s) raised %s: %s" % (via, how, type(ex).__name__, ex))
    done = 0
    try:
        for i, (e, sseed) in enumerate(steps):
            c = e["call"]
            if c["op"] == "gf" and e.get("table"):
                c = dict(c, nokeep=True)
            res = world.apply(c, random.Random(sseed))
            if res is None:
                continue
            done += 1
            v = judge(e, res)
            if v is None:
                continue
            if v[0] == "known":
                known.hit(v[1], "%s; %s -> %s" % (describe_pkg(real), describe(real, world, c), json.dumps(res, ensure_ascii=False)[:200]))
                continue
            return done, (i, e, "%s [%s; %s realisation]: %s" % (describe(real, world, c), describe_pkg(real),
                                                                  ["tame", "odd-character", "size-stressed", "big"][real.stress], v[1]))
    finally:
        world.drop()
    return done, None


def strip_edge(e):
    return {k: e[k] for k in ("env", "call", "out", "kout", "table") if k in e}


def report(ctx, env, real, wseed, via, how, steps, viol):
    i, e, msg = viol
    ctx.violation({"kind": "calls", "env": env, "rseed": real.seed, "stress": real.stress, "wseed": wseed, "via": via, "how": how,
                   "steps": [[strip_edge(x), s] for x, s in steps[:i + 1]]}, "scenario %s: %s" % (env["id"], msg))


BIG_IN_QUICK = ("text", "names-v1", "types-plain", "md5-{1, 2, 3, 4, 5, 6}", "md5-noeol", "md5-{2}", "chlog-swapgz")


def plan_for(env, quick, idx):
    """(stress, via) realisations of one scenario: stress 0 tame, 1 odd characters, 2 sizes, 3 big sizes"""
    gate = any(pk[key]["gate"] != "ok" for pk in env["pk"] for key in ("ctl", "dat"))
    if gate:
        return [(0, "direct"), (1, "direct")] + ([] if quick else [(2, "direct")])
    plan = [(0, "deb"), (1, "deb" if idx % 2 else "direct")]
    if not quick or idx % 3 == 0 or env["id"].startswith(("text", "names", "types")):
        plan.append((2, "deb" if idx % 4 else "direct"))
    if env["id"] in BIG_IN_QUICK or (not quick and idx % 4 == 0):
        plan.append((3, "deb"))
    if not quick:
        plan += [(0, "direct"), (1, "deb"), (2, "deb")]
    return plan


def replay_table(ctx, env, edges, rng, known, quick, idx):
    n = 0
    for stress, via in plan_for(env, quick, idx):
        real = PX.Real(env, rng.getrandbits(32), stress)
        order = list(edges)
        rng.shuffle(order)
        if quick and len(order) > 150:
            order = order[:150] if stress else order
        reps = order + rng.sample(order, min(len(order) // 3, 25))         # some calls again, later
        steps = [(dict(e, table=True), rng.getrandbits(32)) for e in reps]
        wseed = rng.getrandbits(32)
        how = rng.choice(PX.HOWS)
        done, viol = run_calls(real, wseed, via, how, steps, ctx.work, known)
        n += done
        if viol:
            report(ctx, env, real, wseed, via, how, steps, viol)
            if len(ctx.violations) >= 5:
                break
    return n


# ------------------------------------------------------------------ spec -> code: session scenarios

def cover_walks(edges, init, rng, maxlen):
    """walks from the initial state that together traverse every edge"""
    by = {}
    for e in edges:
        e["_f"], e["_t"] = skey(e["from"]), skey(e["to"])
        by.setdefault(e["_f"], []).append(e)
    todo = {id(e) for e in edges}
    walks = []
    guard = 0
    while todo and guard < 100000:
        guard += 1
        cur, walk = init, []
        while len(walk) < maxlen:
            outs = by.get(cur, [])
            fresh = [e for e in outs if id(e) in todo]
            if fresh:
                e = rng.choice(fresh)
            else:
                # breadth-first search for the nearest state with an untraversed edge
                prev, q, goal = {cur: None}, [cur], None
                while q and goal is None:
                    s = q.pop(0)
                    for x in by.get(s, []):
                        if x["_t"] not in prev:
                            prev[x["_t"]] = (s, x)
                            if any(id(y) in todo for y in by.get(x["_t"], [])):
                                goal = x["_t"]
                                break
                            q.append(x["_t"])
                if goal is None:
                    break
                path = []
                while prev[goal] is not None:
                    s, x = prev[goal]
                    path.append(x)
                    goal = s
                for x in reversed(path[1:]):
                    walk.append(x)
                e = path[0]
                cur = e["_f"]
                if len(walk) >= maxlen + 20:
                    break
            todo.discard(id(e))
            walk.append(e)
            cur = e["_t"]
        if not walk:
            break
        walks.append(walk)
    if todo:
        raise core.MachineryError("edge cover: %d edges of the session LTS are unreachable from the initial session" % len(todo))
    return walks


def replay_session(ctx, env, edges, rng, known, quick):
    init = skey(edges_init(env))
    walks = cover_walks(edges, init, rng, 60)
    n = 0
    reals = {}
    for wi, walk in enumerate(walks):
        stress = wi % 3 if (not quick or wi % 2 == 0) else 0
        if wi == 7 or (not quick and wi % 50 == 49):
            stress = 3
        if stress not in reals or wi % 40 == 39:
            reals[stress] = PX.Real(env, rng.getrandbits(32), stress)
        real = reals[stress]
        via = "deb" if (wi % 5 or any(x["call"]["op"] in ("chlog", "ver", "enter", "exit") for x in walk[:3])) else "direct"
        steps = [(e, rng.getrandbits(32)) for e in walk]
        wseed = rng.getrandbits(32)
        how = rng.choice(PX.HOWS)
        done, viol = run_calls(real, wseed, via, how, steps, ctx.work, known)
        n += done
        if viol:
            report(ctx, env, real, wseed, via, how, steps, viol)
            if len(ctx.violations) >= 5:
                break
    return n, len(walks)


def edges_init(env):
    k = len(env["pk"])
    return {"tz": [[] for _ in range(k)], "pn": ["" for _ in range(k)], "spn": "", "cl": [{"c": False, "d": False} for _ in range(k)], "hs": []}


# ------------------------------------------------------------------ code -> spec: random packages and histories

ALL_MODES = [{"codec": c, "errs": x} for c in ("utf-8", "latin-1", "ascii") for x in ("", "strict", "replace", "ignore", "surrogateescape")] \
    + [{"codec": "", "errs": ""}] * 8 + [{"codec": "", "errs": "replace"}]
BIN = {"codec": "", "errs": ""}


def gen_env(rng, size):
    """a random scenario in the shape of DebPartsMC.Env.  size: 'small' | 'many' (members / md5sums lines)"""
    npk = 1 if size == "many" else rng.choice([1, 1, 2, 2, 3])
    atoms, areal = [], {}
    pool = PX.TAME_ATOMS + (PX.ODD_ATOMS if PX.B.UTF8_FS else [])

    def atom():
        a = "a%d" % (len(atoms) + 1)
        atoms.append(a)
        return a
    pair = list(rng.choice(PX.PKG_PAIRS))
    rng.shuffle(pair)
    pkgnames = []
    for k in range(npk):
        a = "pk%d" % (k + 1)
        areal[a] = pair[k] if k < 2 else "third-pkg"
        pkgnames.append(a)
    blob = {}
    nb = [0]

    def new_blob(prefix, **kw):
        nb[0] += 1
        bid = "%s%d" % (prefix, nb[0])
        rec = {"k": "ascii", "lines": [], "gz": "no", "inner": "", "pn": ""}
        rec.update(kw)
        blob[bid] = rec
        return bid
    # a shared universe of names: the same paths occur in several packages with different contents
    comps = [atom() for _ in range(rng.choice([3, 4, 6]))]
    dirs = [[comps[0]], [comps[1]], [comps[0], "/", comps[1]]]
    leafs = [[c] for c in comps] + [[".", c] for c in comps[:2]] + [[".", ".", comps[0]]]
    pairs = [(d, lf) for d in [[]] + dirs for lf in leafs]
    universe = [(d + ["/"] if d else []) + lf for d, lf in pairs]
    doc = ["usr", "/", "share", "/", "doc"]
    kinds = {"cD": "cD", "cN": "cN"}
    pk = []
    for k in range(npk):
        dat = [{"n": [], "t": "dir", "b": ""}]
        have = set()

        def add(n, t, b=""):
            if skey(n) in have:
                return
            have.add(skey(n))
            dat.append({"n": n, "t": t, "b": b})
        count = rng.choice([2, 4, 7]) if size != "many" else rng.choice([99, 100, 101, 255, 256, 257, 1000])
        used_dirs = [d for d in dirs if rng.random() < 0.7]
        for d in used_dirs:
            if len(d) == 3:
                add(d[:1], "dir")
            add(d, "dir")
        cands = [(d + ["/"] if d else []) + lf for d, lf in pairs if not d or d in used_dirs]
        cands = [n for n in cands if skey(n) not in have]
        rng.shuffle(cands)
        for n in cands[:count]:
            if any(n == d for d in dirs):
                continue
            r = rng.random()
            t = "file" if r < 0.8 else "sym" if r < 0.87 else "hard" if r < 0.92 else "other" if r < 0.96 else "dir"
            add(n, t, new_blob("b", k=rng.choice(["ascii", "ascii", "utf8", "bin"])) if t == "file" else "")
        extra = 0
        while size == "many" and len(dat) < count:
            extra += 1
            a = atom()
            areal[a] = "m%04d-%s" % (extra, "x" * rng.choice([1, 9, 40]))
            add((rng.choice(used_dirs) + ["/"] if used_dirs and rng.random() < 0.5 else []) + [a], "file", new_blob("b", k="ascii"))
        # doc directories: the own one and those named like the other packages
        docs = []
        for owner in pkgnames:
            for kind in ("cD", "cN"):
                p_here = 0.55 if owner == pkgnames[k] else 0.35
                if rng.random() < p_here:
                    docs.append((owner, kind))
        if docs:
            for i in (1, 3, 5):
                add(doc[:i], "dir")
        for owner, kind in docs:
            add(doc + ["/", owner], "dir")
            r = rng.random()
            gz = "one" if r < 0.5 else "multi" if r < 0.94 else "no"
            t = "file" if rng.random() < 0.96 else "dir"
            add(doc + ["/", owner, "/", kind], t, new_blob("g", k="bin", gz=gz, inner="I%d" % (len(blob) + 1)) if t == "file" else "")
        if rng.random() < 0.5:
            head, rest = dat[:1], dat[1:]
            # archive order is free as long as nothing is listed twice
            rng.shuffle(rest)
            dat = head + rest
        ctl = [{"n": [], "t": "dir", "b": ""}]
        ctl.append({"n": ["control"], "t": "file", "b": new_blob("ctl", k=rng.choice(["ascii", "utf8"]), pn=pkgnames[k] if rng.random() < 0.95 else "")})
        r = rng.random()
        if r < 0.85:
            nl = rng.choice([0, 1, 2, 3, 5, 8]) if size != "many" else rng.choice([31, 33, 100, 101, 257])
            lines = []
            for i in range(nl):
                cls = rng.choice(["ascii", "ascii", "utf8", "bin"])
                sp = "no"
                if rng.random() < 0.12:
                    sp = "all" if cls == "ascii" or rng.random() < 0.3 else "u8" if cls == "utf8" else "no"
                lines.append({"n": "f%d" % (i + 1), "cls": cls, "sp": sp, "sep": rng.choice(["2sp", "2sp", "1sp", "tab"]),
                              "eol": rng.choice(["lf", "lf", "crlf"]), "sum": "s%d" % (i + 1)})
            if lines and rng.random() < 0.2:
                lines.insert(rng.randint(0, len(lines)), dict(rng.choice(lines)))
            if lines and rng.random() < 0.2:
                lines[-1] = dict(lines[-1], eol="none")
                if sum(1 for x in lines if x["n"] == lines[-1]["n"]) > 1:      # duplicates stay identical
                    lines[-1]["eol"] = "lf"
            kcls = "bin" if any(x["cls"] == "bin" for x in lines) else "utf8" if any(x["cls"] == "utf8" for x in lines) else "ascii"
            if not lines:
                blob.setdefault("md5empty", {"k": "ascii", "lines": [], "gz": "no", "inner": "", "pn": ""})
            ctl.append({"n": ["md5sums"], "t": "file", "b": new_blob("md5", k=kcls, lines=lines) if lines else "md5empty"})
        elif r < 0.9:
            ctl.append({"n": ["md5sums"], "t": "dir", "b": ""})
        for s in PX.MAINT_SCRIPTS:
            r = rng.random()
            if r < 0.4:
                ctl.append({"n": [s], "t": "file", "b": new_blob("b", k=rng.choice(["ascii", "utf8", "bin"]))})
            elif r < 0.44:
                ctl.append({"n": [s], "t": "dir", "b": ""})
        if rng.random() < 0.3:
            nm = rng.choice(["conffiles", "triggers", "shlibs", "templates"])
            a = next((x for x, v in areal.items() if v == nm), None)
            if a is None:
                a = atom()
                areal[a] = nm
            ctl.append({"n": [a], "t": "file", "b": new_blob("b")})
        info = rng.choice([["2.0", "w"], ["2.0", "w"], ["2.0"], ["w", "2.0", "w"], ["2.0", "w", "x\xa0", "w"], ["\x852", "w", "0\xa0"], [], ["w"]])
        good = [True, True]
        if rng.random() < 0.06:
            good[rng.randrange(2)] = False
        gate = ["ok", "ok"]
        pk.append({"info": info, "ctl": {"gate": gate[0], "good": good[0], "ents": ctl}, "dat": {"gate": gate[1], "good": good[1], "ents": dat}})
    for a in atoms:
        if a in areal:
            continue
        for _ in range(100):
            s = rng.choice(pool)
            if PX.B.UTF8_FS and rng.random() < 0.25:
                s = s + rng.choice(PX.TRAIL)
            if rng.random() < 0.1:
                s = "L" + "y" * (rng.choice([31, 99, 100, 101, 155, 156, 255, 257]) - 1)
            if s not in areal.values() and s not in PX.LITERAL and s != "pad" and s not in ("usr", "share", "doc"):
                break
        else:
            s = "atom-%d" % len(areal)
        areal[a] = s
    return {"id": "rec", "pk": pk, "blob": blob, "doc": doc, "kinds": kinds, "areal": areal, "pnreal": True,
            "universe": universe, "pkgnames": pkgnames}


ODD = [lambda n: [], lambda n: ["."], lambda n: ["/"], lambda n: [".", "/"], lambda n: [".", "/", ".", "/"] + n, lambda n: ["/", "/"] + n,
       lambda n: n + ["/"], lambda n: ["/", ".", "/"] + n, lambda n: [".", ".", "/"] + n, lambda n: [".", "/", "/"] + n]


def record_trace(rng, size, work):
    """one random history on real objects -> ({'env', 'events'}, notes for messages)"""
    env = gen_env(rng, size)
    stress = rng.choice([0, 0, 1, 1, 1, 2, 2]) if rng.random() < 0.96 else 3
    real = PX.Real(env, rng.getrandbits(32), stress)
    direct = rng.random() < 0.2
    world = PX.World(real, rng, work, via="direct" if direct else "deb")
    npk = len(env["pk"])
    events, texts = [], []
    nops = rng.choice([12, 25, 40]) if size != "many" else 25
    ops = ["has"] * 6 + ["getc"] * 7 + ["getf"] * 4 + ["gf"] * 3 + ["iter"] * 2 + ["tgz", "scripts", "ctl"] + ["md5"] * 3 + ["chlog"] * 3 + \
          ["ver", "close", "closep", "enter", "exit"]
    handles = 0
    closed_at = None
    try:
        for step in range(nops):
            k = rng.randrange(npk)
            pk = env["pk"][k]
            op = rng.choice(ops)
            if handles and rng.random() < 0.25:
                op = "rd"
            if op in ("close", "exit", "closep") and (step < nops // 2 or rng.random() < 0.5):
                op = "has"
            p = rng.choice(["c", "d", "d"]) if op in ("has", "getc", "getf", "gf", "iter", "tgz", "closep") else ""
            q, m, h, dom, keep = [], dict(BIN), 0, True, False
            if op in ("has", "getc", "getf", "gf"):
                ents = pk["ctl" if p == "c" else "dat"]["ents"]
                r = rng.random()
                present = [e for e in ents if e["n"]]
                if r < 0.6 and present:
                    e = rng.choice(present)
                    n = e["n"]
                    keep = e["t"] == "file"
                    dom = e["t"] in ("file", "dir", "other") or op == "has"
                elif r < 0.85:
                    n = rng.choice(env["universe"] + [e["n"] for e2 in env["pk"] for e in e2["dat"]["ents"] if e["n"]])
                    hit = [e for e in ents if e["n"] == n]
                    keep = bool(hit) and hit[0]["t"] == "file"
                    dom = not hit or hit[0]["t"] in ("file", "dir", "other") or op == "has"
                else:
                    n = [rng.choice(["control", "md5sums", "postinst", "config", "prerm"])]
                    hit = [e for e in ents if e["n"] == n]
                    keep = bool(hit) and hit[0]["t"] == "file"
                if rng.random() < 0.1:
                    q = rng.choice(ODD)(list(n))
                    dom = keep = False
                else:
                    q = rng.choice([[], [".", "/"], ["/"]]) + list(n)
                if op != "has":
                    m = dict(rng.choice(ALL_MODES))
            if op == "md5":
                m = dict(rng.choice(ALL_MODES))
            if op == "rd":
                h = rng.randrange(handles) + 1
                k = -1
            c = {"k": k + 1, "p": p, "op": op, "q": q, "m": m, "h": h}
            cc = dict(c, nokeep=True) if (op == "gf" and not keep) else c
            res = world.apply(cc, rng)
            if res is None:
                continue
            if op == "gf" and keep and res["t"] == "handle":
                handles += 1
            if op == "rd":
                handles -= 1
            if op in ("close", "exit", "closep") and closed_at is None:
                closed_at = len(events)
            good = pk["ctl" if (p or "c") == "c" else "dat"]["good"] if k >= 0 else True
            if op == "chlog":       # unspecified zones of changelog(): no corrupted control is derived from them
                cb = next(e["b"] for e in pk["ctl"]["ents"] if e["n"] == ["control"])
                own = [e for e in pk["dat"]["ents"] if len(e["n"]) == 9 and e["n"][:5] == env["doc"] and e["n"][6] == env["blob"][cb]["pn"]]
                dom = bool(env["blob"][cb]["pn"]) and all(e["t"] == "file" and env["blob"][e["b"]]["gz"] != "no" for e in own)
                good = pk["ctl"]["good"] and pk["dat"]["good"]
            if op == "md5":
                dom = not any(e["n"] == ["md5sums"] and e["t"] != "file" for e in pk["ctl"]["ents"])
            events.append({"call": c, "res": res, "dom": bool(dom and good and closed_at is None), "closed": closed_at is not None})
            texts.append(describe(real, world, c))
    finally:
        world.drop()
    tr_env = {k: env[k] for k in ("id", "pk", "blob", "doc", "kinds")}
    return {"env": tr_env, "events": events}, {"texts": texts, "pkg": describe_pkg(real), "stress": stress}


def corrupt(t, how):
    """negative controls: histories the specification must NOT accept (only events inside the domain are changed)"""
    for i, e in enumerate(t["events"]):
        r, c, new = e["res"], e["call"], None
        if how == "broken-ok" and r == {"t": "err", "x": "DebError"} and c["op"] == "has" and not e["closed"]:
            new = {"t": "bool", "x": "false"}
        if not e["dom"] and new is None:
            continue
        if how == "flip-has" and c["op"] == "has" and r["t"] == "bool":
            new = {"t": "bool", "x": "false" if r["x"] == "true" else "true"}
        elif how == "wrong-blob" and r["t"] == "bytes":
            new = {"t": "bytes", "x": "b-other"}
        elif how == "absent-found" and c["op"] == "getc" and r["t"] == "err" and r["x"] == "KeyError":
            new = {"t": "none", "x": ""}
        elif how == "text-as-bytes" and r["t"] == "text":
            new = {"t": "bytes", "x": r["x"][0]}
        elif how == "decode-swallowed" and r == {"t": "err", "x": "UnicodeDecodeError"} and c["op"] in ("getc", "getf"):
            new = {"t": "none", "x": ""}
        elif how == "chlog-other" and c["op"] == "chlog" and r["t"] in ("chlog", "none"):
            new = {"t": "chlog", "x": "I-other"}
        elif how == "md5-drop" and r["t"] == "md5" and len(r["x"]) >= 1:
            new = {"t": "md5", "x": r["x"][:-1]}
        elif how == "md5-keytype" and r["t"] == "md5" and len(r["x"]) >= 1 and c["m"]["codec"] == "":
            x = [dict(y) for y in r["x"]]
            x[0] = dict(x[0], key=dict(x[0]["key"], ty="str", dec=["utf-8", "strict"]))
            new = {"t": "md5", "x": x}
        elif how == "names-swap" and r["t"] == "names" and len(r["x"]) >= 2:
            new = {"t": "names", "x": [r["x"][1], r["x"][0]] + r["x"][2:]}
        elif how == "ver" and r["t"] == "ver":
            new = {"t": "ver", "x": r["x"] + ["w"]}
        elif how == "scripts-extra" and r["t"] == "map":
            new = {"t": "map", "x": r["x"] + [{"n": "config2", "b": "b-other"}]}
        if new is not None:
            return {"env": t["env"], "events": [{"call": x["call"], "res": x["res"]} for x in t["events"][:i]] + [{"call": c, "res": new}]}
    return None


HOWS = ["flip-has", "wrong-blob", "absent-found", "text-as-bytes", "decode-swallowed", "chlog-other", "md5-drop", "md5-keytype",
        "names-swap", "ver", "scripts-extra", "broken-ok"]

_F = {"n": [], "t": "dir", "b": ""}
STATIC_CONTROL = {
    "env": {"id": "static", "doc": ["usr", "/", "share", "/", "doc"], "kinds": {"cD": "cD", "cN": "cN"},
            "blob": {"ctl1": {"k": "ascii", "lines": [], "gz": "no", "inner": "", "pn": "pk1"}, "b2": {"k": "ascii", "lines": [], "gz": "no", "inner": "", "pn": ""}},
            "pk": [{"info": ["2.0", "w"],
                    "ctl": {"gate": "ok", "good": True, "ents": [_F, {"n": ["control"], "t": "file", "b": "ctl1"}]},
                    "dat": {"gate": "ok", "good": True, "ents": [_F, {"n": [".", "a1"], "t": "file", "b": "b2"}]}}]},
    "events": [{"call": {"k": 1, "p": "d", "op": "has", "q": ["/", ".", "a1"], "m": BIN, "h": 0}, "res": {"t": "bool", "x": "false"}}]}


def validate(ctx, traces, with_controls=True, known_ids=None):
    """-> (rejected trace numbers, first unexplained event per rejected trace, known notes [(tid, id, event)], n controls)"""
    known_ids = KNOWN_IDS if known_ids is None else known_ids
    controls = []
    if with_controls:
        controls.append(STATIC_CONTROL)
        for how in HOWS:
            for t in traces:
                c = corrupt(t, how)
                if c:
                    controls.append(c)
                    break
    env = {"TRACE_DIAG": "0", "KNOWN_DIR": "1" if K_DIR in known_ids else "0", "KNOWN_UNI": "1" if K_UNI in known_ids else "0"}
    plain = [{"env": t["env"], "events": [{"call": e["call"], "res": e["res"]} for e in t["events"]]} for t in traces]
    acc, _, r = core.validate_traces(ctx, "TraceDebParts", "TraceDebParts.cfg", plain, extra_env=env, controls=controls)
    notes = [tuple(x) for x in r.printed.get("REJECT", []) if x[0] <= len(traces)]
    rejected = [i for i in range(1, len(traces) + 1) if i not in acc]
    info = {}
    if rejected:
        sub = [plain[i - 1] for i in rejected[:10]]
        _, prog, _ = core.validate_traces(ctx, "TraceDebParts", "TraceDebParts.cfg", sub, extra_env=dict(env, TRACE_DIAG="1"))
        for j, i in enumerate(rejected[:10]):
            info[i] = prog.get(j + 1, 0)
    return rejected, info, notes, len(controls)


# ------------------------------------------------------------------ the check

def run(ctx):
    quick = ctx.tier == "quick"
    rng = ctx.rng
    ctx.import_repo()
    tm = ctx.extra.setdefault("phase_wall_s", {})
    known = Known()
    ctx.assumptions += [
        "model scope: 110 scenarios (7 table families, 3 sessions); paths over the tokens '.', '/', atoms; blob classes ascii / utf8 / bin; 17 modes",
        "domain: packages as dpkg-deb builds them (tar members './name', distinct names); the three documented spellings of a valid relative path; "
        "md5sums names without CR / LF that do not start with ASCII white space; '\\r' in text mode accepted translated or not",
        "trusted: TLC, tarfile / gzip / bz2 / lzma / codecs of the standard library (bytes.decode is the reference for text mode), the harness' tar and "
        "ar writers, debian.changelog.Changelog and debian.deb822.Deb822 as parsers (C04 / C15 / C02) for identifying what changelog() / debcontrol() return",
    ]
    t0 = time.time()
    pool = ThreadPoolExecutor(max_workers=4)

    def emit(which):
        r = ctx.tlc_must_hold("DebPartsMC", cfg_text(which, True), workers=1, keep_raw=True, want_tags=set())
        envs, edges = read_emission(r.raw_path)
        import shutil
        shutil.rmtree(os.path.dirname(r.raw_path), ignore_errors=True)
        if not envs or not edges:
            raise core.MachineryError("families %s: TLC emitted %d ENV / %d EDGE lines" % (which, len(envs), len(edges)))
        return envs, edges, r

    def neg(flag, which, prop):
        r = ctx.tlc("DebPartsMC", cfg_text(which, False, on=(flag,)), workers=1, count=False, want_tags=set())
        if r.violated != prop:
            raise core.MachineryError("negative control %s: TLC reported %r, expected a violation of %s" % (flag, r.violated, prop))
        return "%s -> %s" % (flag, prop)

    groups = [["two"], ["one", "bad"], TABLES] + ([] if quick else [["nameset"]])
    futs = [pool.submit(emit, g) for g in groups]
    negf = [pool.submit(neg, *x) for x in NEG_CONTROLS]

    # ---- code -> spec: record while TLC runs
    t1 = time.time()
    plan = ["small"] * (150 if quick else 1500) + ["many"] * (4 if quick else 40)
    traces, seeds, notes_of = [], [], []
    for size in plan:
        tseed = rng.getrandbits(32)
        try:
            tr, info = record_trace(random.Random(tseed), size, ctx.work)
        except Exception as ex:      # noqa: BLE001
            if isinstance(ex, core.MachineryError) or not core.raised_by_code_under_test(ex):
                raise
            if len(ctx.violations) < 5:
                ctx.violation({"kind": "record", "seed": tseed, "size": size},
                              "unexpected %s from the library while opening a random package: %s" % (type(ex).__name__, ex))
            continue
        if tr["events"]:
            traces.append(tr)
            seeds.append((tseed, size))
            notes_of.append(info)
    tm["record"] = round(time.time() - t1, 1)
    batch = 160 if quick else 400
    vpool = ThreadPoolExecutor(max_workers=1 if quick else 3)
    vfuts = [(i, vpool.submit(validate, ctx, traces[i:i + batch])) for i in range(0, len(traces), batch)]

    # ---- spec -> code
    t2 = time.time()
    nedges = nreplayed = nwalks = 0
    per_op, lts = {}, {}
    idx = 0
    for g, f in zip(groups, futs):
        envs, edges, r = f.result()
        nedges += len(edges)
        by_env = {}
        for e in edges:
            by_env.setdefault(e["env"], []).append(e)
            per_op[e["call"]["op"]] = per_op.get(e["call"]["op"], 0) + 1
        lts["+".join(g)] = {"scenarios": len(envs), "states": r.distinct, "edges": len(edges), "tlc_wall_s": round(r.wall, 1)}
        for env in sorted(envs, key=lambda x: x["id"]):
            if len(ctx.violations) >= 5:
                break
            es = by_env.get(env["id"], [])
            if not es:
                raise core.MachineryError("scenario %s has no edges" % env["id"])
            idx += 1
            ctx.distinct.add(("scenario", env["id"]))
            if env["table"]:
                nreplayed += replay_table(ctx, env, es, rng, known, quick, idx)
            else:
                reps = 1 if quick else 4
                for _ in range(reps):
                    n, w = replay_session(ctx, env, es, rng, known, quick)
                    nreplayed += n
                    nwalks += w
            if env["id"] == "names-v3":
                e = es[len(es) // 2]
                ctx.sample("edge: " + json.dumps({k: e[k] for k in ("env", "call", "out")}, separators=(",", ":")))
    tm["emit_and_replay"] = round(time.time() - t2, 1)
    ctx.evaluations += nreplayed
    ctx.extra["lts"] = lts
    ctx.extra["edges_emitted"] = nedges
    ctx.extra["edges_per_action"] = per_op
    ctx.extra["calls_replayed"] = nreplayed
    ctx.extra["session_walks"] = nwalks
    ctx.extra["negative_controls_spec"] = [f.result() for f in negf]
    pool.shutdown()

    # ---- verdicts of the trace validation
    t3 = time.time()
    nrej = ncontrols = 0
    for base, f in vfuts:
        rejected, info, notes, nc = f.result()
        ncontrols += nc
        for tid, kid_, l in notes:
            nt = notes_of[base + tid - 1]
            known.hit(kid_, "%s; %s" % (nt["pkg"], nt["texts"][l - 1]))
        for i in rejected:
            nrej += 1
            if len(ctx.violations) >= 5:
                continue
            at = info.get(i, 0)
            tseed, size = seeds[base + i - 1]
            tr, nt = traces[base + i - 1], notes_of[base + i - 1]
            what = "(end of history)"
            if at < len(tr["events"]):
                what = "%s -> %s" % (nt["texts"][at], json.dumps(tr["events"][at]["res"], ensure_ascii=False)[:300])
            ctx.violation({"kind": "record", "seed": tseed, "size": size, "first_unexplained_event": at + 1},
                          "recorded history not explained by DebParts (after %d accepted events): %s [%s]" % (at, what, nt["pkg"]))
    vpool.shutdown()
    tm["validate_wait"] = round(time.time() - t3, 1)
    ctx.traces += nwalks + sum(v["scenarios"] for v in lts.values()) + len(traces)
    ctx.evaluations += len(traces)
    for i in range(len(traces)):
        ctx.distinct.add(("trace", i))
    ctx.extra["traces_recorded"] = len(traces)
    ctx.extra["trace_events"] = sum(len(t["events"]) for t in traces)
    ctx.extra["traces_rejected"] = nrej
    ctx.extra["control_traces"] = ncontrols
    if traces:
        t = traces[0]
        ctx.sample("recorded history (first 3 events): " + json.dumps([{"call": e["call"], "res": e["res"]} for e in t["events"][:3]],
                                                                      separators=(",", ":"), ensure_ascii=False)[:700])
    ctx.extra["known_findings"] = {k["id"]: {"occurrences": known.hits.get(k["id"], 0), "example": known.example.get(k["id"])} for k in KNOWN}
    tm["total"] = round(time.time() - t0, 1)
    for k in KNOWN:
        if known.hits.get(k["id"]):
            print("KNOWN-FINDING: extra=X11 %s (%d occurrences; id=%s; e.g. %s)" % (k["signature"], known.hits[k["id"]], k["id"], known.example[k["id"]][:300]))


def replay(ctx, case):
    ctx.import_repo()
    known = Known()
    kind = case.get("kind")
    if kind == "calls":
        real = PX.Real(case["env"], case["rseed"], case["stress"])
        steps = [(e, s) for e, s in case["steps"]]
        done, viol = run_calls(real, case["wseed"], case["via"], case["how"], steps, ctx.work, known)
        return viol[2] if viol else None
    if kind == "record":
        try:
            tr, info = record_trace(random.Random(case["seed"]), case["size"], ctx.work)
        except Exception as ex:      # noqa: BLE001
            if isinstance(ex, core.MachineryError) or not core.raised_by_code_under_test(ex):
                raise
            return "unexpected %s from the library while opening the package" % type(ex).__name__
        rejected, pinfo, notes, _ = validate(ctx, [tr], with_controls=False)
        if rejected:
            at = pinfo.get(1, 0)
            return "history still not explained by the specification at event %d: %s" % (at + 1, info["texts"][at] if at < len(info["texts"]) else "(end)")
        return None
    return "unknown case kind"
