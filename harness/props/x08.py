"""X08 (extra) -- two small decision / ordering components: the release enumeration of
debian.debian_support (PseudoEnum, Release, intern_release) and get_maintainer() / format_date()
of debian.changelog.

STATEMENT
  (a) Releases.  The Debian releases form one enumeration in order of release (buzz ... trixie, sid
      last): for every name of the table intern_release(name) -- through the function, its
      deprecated alias internRelease, `releases` omitted / None / given by keyword, or as
      Release.releases[name] -- is THE one Release object of that name (same object whenever and
      however it is asked for), str() is the name, repr() is Release('<name>'), .version the
      version of the table ('' for sid); every other name gives None, never an exception; with an
      explicit table the result is table.get(name).  Members of one enumeration (the table, or
      PseudoEnum / Release objects a caller built with orders of one totally ordered type) are
      totally pre-ordered by their order: < <= == != >= > agree with the orders, equal members have
      equal hashes, so sorted / min / max / set / dict / list.index behave as on the orders.
  (b) get_maintainer() returns (name, email) decided from the environment AT THE TIME OF THE CALL
      "in the same manner as dch": name = DEBFULLNAME when set, else the name part of DEBEMAIL /
      EMAIL of the form "Name <addr>", NAME, or the gecos field of the password database up to its
      first comma (None without entry / pwd module); email = DEBEMAIL when set, else EMAIL when set
      (only addr of "Name <addr>"), else login@domain with the first line of /etc/mailname or else
      the fully qualified host name, None when login or domain cannot be determined -- it never
      raises ("Either of the pair may be None if that value couldn't be determined").  A call is a
      pure observation: it does not modify os.environ and does not depend on earlier calls.
      format_date(t, localtime) is the RFC 2822 date-time `Www, DD Mon YYYY HH:MM:SS +ZZZZ` of the
      instant t (fraction dropped): UTC fields and zone -0000 with localtime false, fields and
      offset of the process time zone with localtime true (default); t = None is the current time;
      the result depends on nothing but (t, localtime, time zone in force).
  Unspecified (executed, every outcome accepted): the NAME where dch's manual page and dch's
  algorithm disagree (NAME against the name part of DEBEMAIL / EMAIL; EMAIL's name part while
  DEBEMAIL is set; spec/Maintainer.tla MtZone); DEBEMAIL / EMAIL values that are neither free of
  angle brackets nor exactly `name, ONE blank or tab, <addr>` with a non-empty name without angle
  brackets / outer white space; an empty gecos or one starting with a comma ('' or None); a
  mailname line with white space around / instead of the domain; dates outside the years
  1000..9999, time zones with daylight-saving rules (compared with date(1) as a diagnostic),
  offsets with seconds; comparisons of a release with a non-PseudoEnum or between enumerations;
  callers that mutate Release.releases or the shared Release objects.

API surface (notes/API_SURFACE.md)
  intern_release(name)                          replay (EDGE, PAIR, ENTRY) + histories
  intern_release(name, None) / releases=None / name=..   replay (rotating) + histories
  internRelease(...) (deprecated alias; DeprecationWarning recorded as a diagnostic)   replay + histories
  intern_release(name, table) / releases=table / alias   replay (custom enumerations) + histories
  Release.releases.get(name) / through an instance / list(Release.releases)   replay + histories
  list_releases / listReleases                  out of domain: deleted from the module (`del`), presence is a diagnostic
  PseudoEnum(name, order); Release(name, order[, version]); keyword construction   replay (PAIR on custom enumerations) + histories
  < <= == != >= > hash str repr "%s" .version   replay + histories (Cmp / Attr)
  sorted, list.sort(reverse=True), min, max, set, dict keys, list.index   histories
  == with a non-PseudoEnum                      out of domain (AttributeError; recorded in evidence as an observation)
  copy / pickle of Release                      out of domain: nothing documented (a copy is a different object of equal order)
  get_maintainer()                              replay (decision table) + histories; no parameters, no alias
  format_date(t, lt) / (timestamp=, localtime=) / swapped keywords / (t) / (timestamp=t) / () / (localtime=) / (None, lt)
                                                replay (DATE) + histories, rotating; int and float timestamps

spec:    spec/Maintainer.tla      decision model (MtName / MtEmail; two readings MtDocName / MtAlgName) + history
                                  model (caller's view menv against process environment penv)
         spec/ChangelogDate.tla   calendar specified declaratively (tomorrow / yesterday from the epoch) and
                                  arithmetically (FdCivil, FdWeekday); FdFields = what must be printed
         spec/ReleaseOrder.tla    the release table as data, order laws, interning discipline
         spec/TraceX08M.tla, TraceX08D.tla, TraceX08R.tla   trace validation
model checking: Maintainer "table": all 18 000 shapes (3 x 3 x 5 x 5 environment, 80 system) with 11 invariants
         (DebfullnameWins, DebemailWins, EmailIgnoresNames, NameIgnoresMailSetup, FallbackOnlyWhenUnset,
         NoneOnlyWhenUndetermined, NeverRaises, SplitExplainsAlg, SplitIdempotent, ZoneCharacterised, MtTypeOK);
         "hist": closed history model (5 184 states): EnvUntouched, ResultIsCurrent.  ChangelogDate: walk of 1 600
         (thorough: 4 800 = one Gregorian period) months in both directions from the epoch, every day of every
         month: MonthIsDays, CivilAgrees, DaysAgrees, WeekdayAgrees, PeriodShift, FieldsAgree.  ReleaseOrder:
         VersionsAgree, OrderIsPosition, OrderLaws, InternUnique, LiveOrder on the complete interning LTS.
         Spec-level negative controls re-run in every check (each must make TLC report the named invariant):
         keyerr -> NeverRaises, writeback -> EnvUntouched, writeback -> ResultIsCurrent, Julian leap years ->
         CivilAgrees, version-string order -> OrderIsPosition, copying intern -> InternUnique.
binding: spec -> code: every CASE (decision table; quick tier: the covering part MtInQuick = 3 312 shapes, every
         environment shape under every system shape that can matter), DATE, EDGE / PAIR / ENTRY line carries TLC's
         expected result and is concretized (seeded: tame, random Unicode, size-stressed texts up to 65 537 characters; POSIX TZ
         strings; int / float timestamps; enumerations over ints around 2**31 / 2**63, floats, strings, tuples)
         and executed in a worker process (harness/worker_x08.py: real os.environ, stand-ins for pwd.getpwuid,
         socket.getfqdn, /etc/mailname, time.time).
         code -> spec: random call histories mixing all three components in one process (environment and
         system changes between calls, repeated calls, earlier objects kept alive, time zone / now changes)
         are recorded, projected to terms and validated by TLC, with corrupted control traces.
         Texts are opaque tokens in the models (length independent by construction): the expectation of a
         size-stressed case is TLC's result for the tokens.
known findings (KNOWN): the pinned code diverges from the statement in two ways, each a defect switch of
         Maintainer.tla; a divergence is reported as KNOWN-FINDING only when TLC's model with exactly that switch
         explains the observation, everything else is a violation.
"""
import json
import os
import time
from concurrent.futures import ThreadPoolExecutor

import core
import maint_x08 as M
from maint_x08 import V, VKEYS, VARS

MANIFEST = None
LEVEL = "model_checking"

EXTRA = dict(
    title="Release enumeration (PseudoEnum / Release / intern_release) and get_maintainer() / format_date()",
    statement=(
        "The Debian releases are one enumeration in order of release: for every name of the table intern_release "
        "(function, deprecated alias, releases omitted / None / keyword, Release.releases) returns THE one Release "
        "object of that name (str = name, repr = Release('name'), .version per table), None for every other name, "
        "table.get(name) for an explicit table; members of one enumeration are totally pre-ordered by their order "
        "(all six comparisons, hash, sorted / min / max / set / index agree with the orders). "
        "get_maintainer() returns (name, email) decided from the environment at the time of the call like dch: "
        "DEBFULLNAME, else the name part of DEBEMAIL / EMAIL 'Name <addr>', NAME, gecos up to the first comma "
        "(None without entry); DEBEMAIL, else EMAIL (addr only), else login@(first line of /etc/mailname or FQDN), "
        "None when undeterminable; it never raises, never modifies os.environ and never depends on earlier calls. "
        "format_date(t, localtime) is the RFC 2822 date-time of t: UTC fields and -0000 with localtime false, the "
        "fields and offset of the process time zone otherwise (years 1000..9999, fixed-offset zones). "
        "Unspecified: the name where dch's manual page and algorithm disagree, DEBEMAIL / EMAIL values outside the "
        "two clean shapes, empty gecos ('' or None), white space in /etc/mailname."),
    technique=(
        "TLA+ specs Maintainer (decision table over 18 000 shapes + history model caller's view vs os.environ), "
        "ChangelogDate (calendar walked day by day against civil-from-days arithmetic, one Gregorian period), "
        "ReleaseOrder (release table, order laws, interning LTS) model-checked by TLC with 6 spec-level negative "
        "controls; every TLC case replayed into the real functions in a worker process with seeded tame / Unicode / "
        "size-stressed concretizations; recorded mixed call histories validated by TLC with corrupted control traces."))

# switch of Maintainer.tla that reproduces the divergence; KNOWN only when TLC's model with the switch explains it
KNOWN = [
    dict(id="X08-environ-writeback", switch="writeback",
         signature="get_maintainer() stores the split of DEBEMAIL / EMAIL 'Name <addr>' back into os.environ "
                   "(DEBFULLNAME := Name unless set, DEBEMAIL / EMAIL := addr): the caller's environment is modified "
                   "and a later call returns the stale name, e.g. DEBEMAIL='Ann <a@y>' after a call with "
                   "DEBEMAIL='Joe <j@x>' gives ('Joe', 'a@y'), expected ('Ann', 'a@y') and an untouched os.environ"),
    dict(id="X08-email-keyerror", switch="keyerr",
         signature="get_maintainer() raises KeyError (pwd.getpwuid: uid not found) when neither DEBEMAIL nor EMAIL is "
                   "set, a mail domain is available and the uid has no password entry; expected email None (the name "
                   "fall-back catches the same KeyError)"),
]
_BY_SWITCH = {k["switch"]: k for k in KNOWN}
DSETS = [[], ["writeback"], ["keyerr"], ["writeback", "keyerr"]]

NEG_CONTROLS = [
    ("Maintainer", "Maintainer_table_neg.cfg", "NeverRaises"),
    ("Maintainer", "Maintainer_hist_neg.cfg", "EnvUntouched"),
    ("Maintainer", "Maintainer_hist_neg2.cfg", "ResultIsCurrent"),
    ("ChangelogDate", "ChangelogDate_neg.cfg", "CivilAgrees"),
    ("ReleaseOrder", "ReleaseOrder_neg_key.cfg", "OrderIsPosition"),
    ("ReleaseOrder", "ReleaseOrder_neg_copy.cfg", "InternUnique"),
]
JOPTS = ["-XX:TieredStopAtLevel=1", "-Xss64m"]


def jopts(ctx):
    return JOPTS if ctx.tier == "quick" else ["-Xss64m"]


class Hits:
    def __init__(self):
        self.n = {}
        self.example = {}

    def hit(self, switches, example):
        for s in switches:
            k = _BY_SWITCH[s]["id"]
            self.n[k] = self.n.get(k, 0) + 1
            self.example.setdefault(k, example)


def short(x, n=160):
    s = x if isinstance(x, str) else json.dumps(x, ensure_ascii=False, default=str)
    return s if len(s) <= n else s[:n // 2] + "...(%d)..." % len(s) + s[-n // 3:]


def neg_control(ctx, module, cfg, inv):
    r = ctx.tlc(module, cfg, workers=1, count=False, want_tags=set(), java_opts=jopts(ctx))
    if r.violated != inv:
        raise core.MachineryError("negative control %s/%s: expected TLC to report %s, got %r" % (module, cfg, inv, r.violated))
    return "%s:%s" % (module, cfg.replace(".cfg", "")), inv


def validate(ctx, module, traces, controls):
    path = os.path.join(ctx.work, "x08-%s-%d.json" % (module, int(time.time() * 1e6) % 10 ** 9))
    nreal = len(traces)
    with open(path, "w") as f:
        f.write(json.dumps(list(traces) + list(controls)))
    r = ctx.tlc(module, module + ".cfg", workers=1, env={"TRACE_FILE": path, "TRACE_DIAG": "1"},
                want_tags={"ACCEPTED", "AT"}, java_opts=jopts(ctx))
    os.unlink(path)
    if r.violated:
        raise core.MachineryError("trace module %s reported %s\n%s" % (module, r.violated, r.tail))
    acc = {}
    for v in r.printed.get("ACCEPTED", []):
        tid, d = (v, []) if isinstance(v, int) else (v[0], sorted(v[1]) if len(v) > 1 else [])
        acc.setdefault(tid, []).append(d)
    bad = [i for i in acc if i > nreal]
    if bad and all(i in acc for i in range(1, nreal + 1)):
        raise core.MachineryError("trace module %s accepted %d corrupted control trace(s) (%s): binding is vacuous" % (
            module, len(bad), [i - nreal for i in bad]))
    ctx.extra["negative_controls_rejected"] = ctx.extra.get("negative_controls_rejected", 0) + len(controls)
    prog = {}
    for v in r.printed.get("AT", []):
        if v[1] > prog.get(v[0], 0):
            prog[v[0]] = v[1]
    return acc, prog


# ====================================================================== (b) get_maintainer

def toks_dump(t):
    return {str(k): [t.text[k], t.role[k]] for k in t.text}


def toks_load(d, rng=None):
    t = M.Toks(rng, 1)
    for k, (text, role) in d.items():
        t.text[int(k)] = text
        t.role[int(k)] = role
        t.taken.add(text)
    return t


def term_text(toks, x):
    k = x["k"]
    if k == "tok":
        return repr(toks.text.get(x["n"], "?"))
    if k == "addr":
        return repr("%s@%s" % (toks.text.get(x["n"], "?"), toks.text.get(x["a"], "?")))
    return {"none": "None", "empty": "''", "eon": "'' or None", "any": "(unspecified)", "raise": "KeyError raised",
            "other": "(something else)"}.get(k, k)


def mcase_job(rng, c, stress, canonical=False):
    """one CASE of the decision table -> worker job + what is needed to project the observation"""
    toks = M.Toks(rng, stress)
    steps = [["sys", M.sys_conc(toks, rng, c["sys"], canonical)]]
    settexts, setterms = {}, {}
    order = list(VKEYS)
    if not canonical:
        rng.shuffle(order)
    for v in order:
        x = c["env"][v]
        t = M.value_text(toks, rng, x, v, canonical)
        if t is not None:
            steps.append(["set", VARS[v], t])
            settexts[v], setterms[v] = t, x
    steps.append(["call"])
    return dict(steps=steps, toks=toks_dump(toks), settexts=settexts, setterms=setterms)


def mcase_check(c, job, result):
    """-> (None | list of switches | message)"""
    toks = toks_load(job["toks"])
    o = result[-1]
    if isinstance(o, dict) and "setup_error" in o or any(isinstance(x, dict) and "setup_error" in x for x in result):
        raise core.MachineryError("worker set-up failed: %s" % short(result))
    name, email, env, note = M.call_obs(toks, o, job["settexts"], job["setterms"])
    for d, w in [([], c["want"])] + sorted([([k for k in ("writeback", "keyerr") if a["d"][k]], a["o"]) for a in c["alts"]],
                                           key=lambda x: len(x[0])):
        if M.fits(w["name"], name) and M.fits(w["email"], email) and M.env_fits(w["post"], env):
            return d or None
    w = c["want"]
    inp = ", ".join("%s=%r" % (s[1], short(s[2], 80)) for s in job["steps"] if s[0] == "set") or "(none of the four variables set)"
    return ("get_maintainer() with %s; system %s: returned %s (name %s, email %s), os.environ afterwards %s; specification: name %s, "
            "email %s, environment unchanged%s" % (
                inp, short(job["steps"][0][1], 200), short(o["res"], 200), term_text(toks, name), term_text(toks, email),
                short({VARS[v]: o["env"][VARS[v]] for v in VKEYS}, 200), term_text(toks, w["name"]), term_text(toks, w["email"]),
                ("; " + note) if note else ""))


def replay_mcases(ctx, hits, cases, quick):
    rng = ctx.rng
    jobs, meta = [], []
    big_budget = 40 if quick else 300
    for i, c in enumerate(cases):
        variants = [(1, i % 5 == 0)]
        if quick and i % 3 == 1:
            variants.append((rng.choice([0, 1, 1]), False))
        if i % 11 == 3:
            variants.append((2, False))
        if big_budget > 0 and i % (23 if quick else 97) == 5:
            variants.append((3, False))
            big_budget -= 1
        if not quick:
            variants.append((rng.choice([0, 1, 1, 2]), False))
        for stress, canonical in variants:
            j = mcase_job(rng, c, 0 if canonical else stress, canonical)
            jobs.append(j["steps"])
            meta.append((c, j))
    results, err = M.run_worker(ctx, jobs)
    if err:
        ctx.violation({"kind": "import"}, "debian.changelog / debian.debian_support cannot be imported: %s" % err)
        return 0
    nsrc = {}
    seenjobs = []
    for (c, j), res in zip(meta, results):
        seenjobs.append(1)
        v = mcase_check(c, j, res)
        key = (c["want"]["name"]["k"], c["want"]["email"]["k"])
        nsrc[key] = nsrc.get(key, 0) + 1
        ctx.case_seen(("mcase", json.dumps(c["env"], sort_keys=True), json.dumps(c["sys"], sort_keys=True)))
        if v is None:
            continue
        if isinstance(v, list):
            hits.hit(v, short(j["steps"], 300))
            continue
        k = len(seenjobs)
        ctx.violation({"kind": "mcase", "case": c, "job": j, "before": jobs[max(0, k - 4):k - 1]}, v)
    o = results[0][-1]
    ctx.sample("get_maintainer() case %s -> %s" % (short([s for s in jobs[0] if s[0] == "set"], 120), short(o["res"], 100)))
    ctx.extra["maint_cases_by_result_kind"] = {"%s/%s" % k: n for k, n in sorted(nsrc.items())}
    return len(jobs)


# ---------------------------------------------------------------- histories

def gen_value(rng, toks, v, nexttok, reuse):
    """an in-domain value term for variable v (histories: no odd shapes)"""
    def tok(role):
        if reuse.get(role) and rng.random() < 0.25:
            return rng.choice(reuse[role])
        t = nexttok()
        toks.new(t, role)
        reuse.setdefault(role, []).append(t)
        return t
    if v in ("DF", "NM"):
        return V("empty") if rng.random() < 0.12 else V("plain", tok("free"))
    r = rng.random()
    if r < 0.1:
        return V("empty")
    if r < 0.45:
        return V("plain", tok("plain"))
    return V("form", tok("fname"), tok("faddr"))


def gen_sys(rng, toks, nexttok):
    def tok(role):
        t = nexttok()
        toks.new(t, role)
        return t
    k = rng.choice(["entry"] * 5 + ["noentry", "noentry", "nomod"])
    g0 = {"k": "empty", "n": 0}
    if k == "entry":
        gk = rng.choice(["plain", "commas", "commas", "empty", "lead"])
        pw = {"k": k, "g": {"k": gk, "n": tok("gecos") if gk in ("plain", "commas") else 0},
              "u": {"k": "plain", "n": tok("user")} if rng.random() < 0.85 else g0}
    else:
        pw = {"k": k, "g": g0, "u": g0}
    mk = rng.choice(["absent", "absent", "empty", "dom", "dom"])
    return {"pw": pw, "mn": {"k": mk, "n": tok("dom") if mk == "dom" else 0},
            "fq": {"k": "plain", "n": tok("dom")} if rng.random() < 0.8 else g0}


def gen_mhist(rng, nev, stress, pattern=None):
    toks = M.Toks(rng, stress)
    cnt = [0]

    def nexttok():
        cnt[0] += 1
        return cnt[0]
    reuse = {}
    skel, steps = [], []
    settexts, setterms = {}, {}

    def do_sys():
        s = gen_sys(rng, toks, nexttok)
        skel.append({"op": "Sys", "s": s})
        steps.append(["sys", M.sys_conc(toks, rng, s)])

    def do_set(v, x=None):
        x = x or gen_value(rng, toks, v, nexttok, reuse)
        t = M.value_text(toks, rng, x, v)
        skel.append({"op": "Set", "v": v, "x": x})
        steps.append(["set", VARS[v], t])

    def do_del(v):
        skel.append({"op": "Del", "v": v})
        steps.append(["del", VARS[v]])

    def do_call():
        skel.append({"op": "Call"})
        steps.append(["call"])
    do_sys()
    if pattern == "stale":          # the name part changes between calls
        do_set("DE", V("form", *[_newtok(toks, nexttok, r) for r in ("fname", "faddr")]))
        do_call()
        do_set("DE", V("form", *[_newtok(toks, nexttok, r) for r in ("fname", "faddr")]))
        do_call()
        do_del("DE")
        do_call()
    elif pattern == "email":        # EMAIL form, then plain, then gone
        do_set("EM", V("form", *[_newtok(toks, nexttok, r) for r in ("fname", "faddr")]))
        do_call()
        do_call()
        do_set("EM", V("plain", _newtok(toks, nexttok, "plain")))
        do_call()
    elif pattern == "fallback":     # nothing set: every system shape in turn
        for _ in range(4):
            do_call()
            do_sys()
        do_call()
    while len(skel) < nev:
        r = rng.random()
        if r < 0.36:
            do_call()
            if rng.random() < 0.3:
                do_call()
        elif r < 0.72:
            do_set(rng.choice(VKEYS))
        elif r < 0.88:
            do_del(rng.choice(VKEYS))
        else:
            do_sys()
    if skel[-1]["op"] != "Call":
        do_call()
    return dict(steps=steps, skel=skel, toks=toks_dump(toks))


def _newtok(toks, nexttok, role):
    t = nexttok()
    toks.new(t, role)
    return t


def project_mhist(h, results):
    """recorded execution -> trace of TraceX08M (+ notes per event)"""
    toks = toks_load(h["toks"])
    settexts, setterms = {}, {}
    events, notes = [], []
    for ev, st, res in zip(h["skel"], h["steps"], results):
        if isinstance(res, dict) and "setup_error" in res:
            raise core.MachineryError("worker set-up failed: %s" % res["setup_error"])
        if ev["op"] == "Set":
            settexts[ev["v"]], setterms[ev["v"]] = st[2], ev["x"]
            events.append(ev)
            notes.append(None)
        elif ev["op"] == "Del":
            settexts.pop(ev["v"], None)
            setterms.pop(ev["v"], None)
            events.append(ev)
            notes.append(None)
        elif ev["op"] == "Sys":
            events.append(ev)
            notes.append(None)
        else:
            name, email, env, note = M.call_obs(toks, res, settexts, setterms)
            events.append({"op": "Call", "name": name, "email": email, "env": env})
            notes.append("returned %s, os.environ %s%s" % (short(res["res"], 200), short({VARS[v]: res["env"][VARS[v]] for v in VKEYS}, 200),
                                                           ("; " + note) if note else ""))
            # what is in the environment now is what later observations are compared with
            for v in VKEYS:
                if env[v]["k"] not in ("other",) and res["env"][VARS[v]] != settexts.get(v):
                    if res["env"][VARS[v]] is None:
                        settexts.pop(v, None)
                        setterms.pop(v, None)
                    else:
                        settexts[v], setterms[v] = res["env"][VARS[v]], env[v]
    return {"ds": DSETS, "events": events}, notes


def mhist_controls(traces, rng):
    out = []
    for t in traces:
        calls = [i for i, e in enumerate(t["events"]) if e["op"] == "Call"]
        if not calls:
            continue
        i = rng.choice(calls)
        c = json.loads(json.dumps(t))
        kind = len(out) % 3
        e = c["events"][i]
        if kind == 0:
            e["email"] = V("tok", 9999)
        elif kind == 1:
            e["env"] = dict(e["env"], DF=V("plain", 9999))
        else:
            e["email"] = V("none") if e["email"]["k"] != "none" else V("tok", 9999)
        out.append(c)
        if len(out) >= 12:
            break
    # static: a call that answers with the values of an environment that is gone
    sys0 = {"pw": {"k": "entry", "g": {"k": "plain", "n": 7}, "u": {"k": "plain", "n": 8}}, "mn": {"k": "absent", "n": 0},
            "fq": {"k": "plain", "n": 10}}
    env0 = {v: M.UNSET for v in VKEYS}
    out.append({"ds": DSETS, "events": [
        {"op": "Sys", "s": sys0}, {"op": "Set", "v": "DF", "x": V("plain", 1)},
        {"op": "Call", "name": V("tok", 1), "email": V("addr", 8, 10), "env": dict(env0, DF=V("plain", 1))},
        {"op": "Del", "v": "DF"},
        {"op": "Call", "name": V("tok", 1), "email": V("addr", 8, 10), "env": env0}]})
    return out


# ====================================================================== (b) format_date

FMT_HOW_T = ["pos2", "kw2", "kwswap", "pos1", "kw1"]       # localtime true
FMT_HOW_F = ["pos2", "kw2", "kwswap"]
FMT_NOW_T = ["none0", "nonekw", "nonepos"]
FMT_NOW_F = ["nonekw", "nonepos"]
DAYS_B = [0, -1, 1, 18717, 11016, 11017, 10956, 47540, 47541, -25567, -25509, -25508, 24855, 24856, 49710, 49711,
          -354285, -354284, 2932896, 2932895, 19782, 19783, 20088, 20147, 16070, 13878, -719, 365, 10957, 2932530]
SODS_B = [0, 1, 59, 60, 3599, 3600, 43199, 43200, 86398, 86399, 11647, 73915]
OFFS_B = [0, 60, -60, 330, -570, 840, -720, 345, 765, -210, 1, -1, 59, 600]


def date_constants(rng, quick):
    nd, ns, no = (36, 6, 6) if quick else (120, 10, 10)
    days = set(rng.sample(DAYS_B, min(len(DAYS_B), nd * 2 // 3)))
    while len(days) < nd:
        days.add(rng.choice([rng.randint(-354285, 2932896), rng.randint(-30000, 60000), rng.randint(0, 25000)]))
    sods = set(rng.sample(SODS_B, ns // 2))
    while len(sods) < ns:
        sods.add(rng.randint(0, 86399))
    offs = set(rng.sample(OFFS_B, no * 2 // 3))
    while len(offs) < no:
        o = rng.choice([15, 30, 1]) * rng.randint(-48, 56) // rng.choice([1, 1, 2])
        if -14 * 60 <= o <= 14 * 60:
            offs.add(o)
    return sorted(days), sorted(sods), sorted(offs)


def date_cfg(days, sods, offs):
    return ("CONSTANTS\n  FdSpan = 0\n  FdJulian = FALSE\n  FdEmit = TRUE\n  FdCaseDays = {%s}\n  FdCaseSods = {%s}\n  FdCaseOffs = {%s}\n"
            "SPECIFICATION FdSpec\nINVARIANT FdTypeOK\nINVARIANT CivilAgrees\nINVARIANT EmitDates\nCHECK_DEADLOCK FALSE\n" % (
                ", ".join(str(d + M.DAY_BIAS) for d in days), ", ".join(map(str, sods)), ", ".join(str(o + M.OFF_BIAS) for o in offs)))


def date_steps(rng, evs):
    """evs: list of dicts days/sod/off/lt -> worker steps, one fmt per event (index map returned)"""
    steps, idx = [], []
    tz = None
    for e in evs:
        if tz is None or e["off"] != tz or rng.random() < 0.1:
            steps.append(["tz", M.tz_string(rng, e["off"])])
            tz = e["off"]
        if rng.random() < 0.15:       # through "now"
            how = rng.choice(FMT_NOW_T if e["lt"] else FMT_NOW_F)
            t = M.ts_arg(rng, e["days"], e["sod"])
            steps.append(["now", float(t[1]) if t[0] == "float" else int(t[1])])
            steps.append(["fmt", how, None, e["lt"]])
        else:
            how = rng.choice(FMT_HOW_T if e["lt"] else FMT_HOW_F)
            steps.append(["fmt", how, M.ts_arg(rng, e["days"], e["sod"]), e["lt"]])
        idx.append(len(steps) - 1)
    return steps, idx


def replay_dates(ctx, cases, quick):
    rng = ctx.rng
    cases = [c for c in cases if c["dom"]]
    rng.shuffle(cases)
    jobs, metas = [], []
    for i in range(0, len(cases), 40):
        chunk = cases[i:i + 40]
        steps, idx = date_steps(rng, chunk)
        jobs.append(steps)
        metas.append((chunk, idx))
    results, err = M.run_worker(ctx, jobs)
    if err:
        return 0
    bad = 0
    for (chunk, idx), steps, res in zip(metas, jobs, results):
        for c, i in zip(chunk, idx):
            o = res[i]
            got = M.parse_date(o[1]) if o[0] == "ok" else {"bad": True}
            ctx.case_seen(("date", c["days"], c["sod"], c["off"], c["lt"]))
            if got != c["want"]:
                bad += 1
                if bad <= 3:
                    ctx.violation({"kind": "dcase", "case": c, "steps": steps[:i + 1], "at": i},
                                  "format_date (%s) under TZ offset %+d min, localtime=%s, timestamp day %d second %d: returned %s, "
                                  "specification: %s" % (short(steps[i]), c["off"], c["lt"], c["days"], c["sod"], short(o), short(c["want"])))
    if results and results[0]:
        i = metas[0][1][0]
        ctx.sample("format_date %s -> %s" % (short(jobs[0][i]), short(results[0][i])))
    return len(cases)


def gen_dhist(rng, nev):
    evs = []
    base = None
    for _ in range(nev):
        if base is not None and rng.random() < 0.45:      # the same instant under another flag / zone
            e = dict(base)
            if rng.random() < 0.5:
                e["lt"] = not e["lt"]
            else:
                e["off"] = rng.choice(OFFS_B)
                e["lt"] = True
        else:
            e = {"days": rng.choice([rng.choice(DAYS_B), rng.randint(-300000, 2900000), rng.randint(-20000, 40000)]),
                 "sod": rng.choice([rng.choice(SODS_B), rng.randint(0, 86399)]),
                 "off": rng.choice([0, rng.choice(OFFS_B), 15 * rng.randint(-48, 56)]), "lt": rng.random() < 0.6}
        base = e
        evs.append(e)
    steps, idx = date_steps(rng, evs)
    return dict(steps=steps, evs=evs, idx=idx)


def project_dhist(h, results):
    tr = []
    for e, i in zip(h["evs"], h["idx"]):
        o = results[i]
        tr.append({"days": e["days"] + M.DAY_BIAS, "sod": e["sod"], "off": e["off"] + M.OFF_BIAS, "lt": e["lt"],
                   "res": M.parse_date(o[1]) if o[0] == "ok" else {"bad": True}})
    return tr


def dhist_controls(traces, rng):
    out = []
    for t in traces[:8]:
        c = json.loads(json.dumps(t))
        # only instants far inside the years 1000..9999: outside them every result is accepted
        inside = [e for e in c if "bad" not in e["res"] and -300000 < e["days"] - M.DAY_BIAS < 2900000]
        if not inside:
            continue
        e = rng.choice(inside)
        k = len(out) % 4
        if k == 0:
            e["res"]["hh"] = (e["res"]["hh"] + 1) % 24
        elif k == 1:
            e["res"]["wd"] = "Mon" if e["res"]["wd"] != "Mon" else "Tue"
        elif k == 2:
            e["res"]["sign"] = "+" if e["res"]["sign"] == "-" else "-"
            e["lt"] = True
            e["off"] = 330 + M.OFF_BIAS
        else:
            e["res"]["d"] = e["res"]["d"] % 28 + 1
        out.append(c)
    out.append([{"days": M.DAY_BIAS, "sod": 0, "off": M.OFF_BIAS, "lt": False,
                 "res": {"wd": "Thu", "d": 1, "mon": "Jan", "y": 1970, "hh": 0, "mm": 0, "ss": 0, "sign": "+", "zh": 0, "zm": 0}}])
    return out


def tz_diag(ctx, quick):
    """named zones with daylight-saving rules against date(1): diagnostic only (tzdata is outside the model)"""
    import subprocess
    rng = ctx.rng
    zones = ["Europe/Berlin", "America/New_York", "Australia/Lord_Howe", "Asia/Kolkata"]
    jobs, want = [], []
    for z in zones:
        steps = [["tz", z]]
        for _ in range(3):
            t = rng.randint(0, 2 ** 31)
            try:
                p = subprocess.run(["date", "-R", "-d", "@%d" % t], env={"TZ": z, "LC_ALL": "C", "PATH": os.environ.get("PATH", "/usr/bin:/bin")},
                                   capture_output=True, text=True, timeout=20)
            except Exception:
                return
            if p.returncode != 0:
                return
            steps.append(["fmt", "pos2", ["int", str(t)], True])
            want.append((z, t, p.stdout.strip()))
        jobs.append(steps)
    results, err = M.run_worker(ctx, jobs)
    if err:
        return
    got = [o for res in results for o in res if o is not None]
    n = 0
    for (z, t, w), o in zip(want, got):
        if o[0] != "ok" or o[1] != w:
            ctx.drift("format_date(%d) under TZ=%s: %s, date(1): %s" % (t, z, short(o), w))
        else:
            n += 1
    ctx.extra["named_zone_agreement_with_date1"] = "%d/%d" % (n, len(want))


# ====================================================================== (a) releases

VIA0 = ["fn", "fnkw", "fnpos", "allkw", "alias", "aliaskw", "attr", "attrobj"]
VIAT = ["fn", "fnkw", "allkw", "alias", "aliaskw"]
DEB_NAMES = ["buzz", "rex", "bo", "hamm", "slink", "potato", "woody", "sarge", "etch", "lenny", "squeeze", "wheezy",
             "jessie", "stretch", "buster", "bullseye", "bookworm", "trixie", "sid"]
UNKNOWN = ["", "Sid", "SID", "sid ", " sid", "unstable", "stable", "testing", "forky", "duke", "potato\n", "bo\x00", "buzz/updates",
           "ｓｉｄ", "trıxie", "ſid", "bookworm-backports", "experimental", "13", "1.1", "sid" * 3000,
           "ß", "Buzz", "rex\t", "wheezy​"]


def rel_obs(o):
    if o[0] == "none":
        return {"k": "none", "id": 0}
    if o[0] == "obj":
        return {"k": "obj", "id": o[1]}
    return {"k": "exc:" + o[1]["type"], "id": 0}


def replay_edges(ctx, edges, quick):
    rng = ctx.rng
    seen, jobs, metas = set(), [], []
    for e in edges:
        names = [o["name"] for o in e["from"]]
        key = (tuple(names), e["name"])
        if key in seen:
            continue
        seen.add(key)
        steps = [["intern", rng.choice(VIA0), 0, n, None] for n in names] + [["intern", rng.choice(VIA0), 0, e["name"], None]]
        jobs.append(steps)
        metas.append(e)
    results, err = M.run_worker(ctx, jobs)
    if err:
        return 0
    nbad = 0
    for e, steps, res in zip(metas, jobs, results):
        got = [rel_obs(o) for o in res]
        want = [{"k": "obj", "id": i + 1} for i in range(len(e["from"]))] + [e["res"]]
        ctx.case_seen(("edge", tuple(o["name"] for o in e["from"]), e["name"]))
        if got != want:
            nbad += 1
            if nbad <= 3:
                ctx.violation({"kind": "redge", "steps": steps, "want": want},
                              "interning %s: objects (numbered by first appearance) %s, specification: %s" % (short(steps, 300), short(got), short(want)))
    return len(jobs)


def cmp_ok(o, w):
    return "exc" not in o and "lt" in o and all(o[k] == w[k] for k in ("lt", "le", "eq", "ne", "ge", "gt")) and (o["heq"] or not w["eq"])


def replay_pairs(ctx, pairs, entries, quick):
    """PAIR / ENTRY on the release table and on caller-made enumerations of the same length"""
    rng = ctx.rng
    ents = sorted(entries, key=lambda e: e["pos"])
    names = [e["name"] for e in ents]
    n = len(names)
    pos = {nm: i for i, nm in enumerate(names)}
    jobs, metas = [], []
    for rep in range(2 if quick else 6):
        order = list(range(n))
        rng.shuffle(order)
        steps = [["intern", rng.choice(VIA0), 0, names[i], "d%d" % i] for i in order]
        # a second handle per release through another entry point: must be the same object
        steps += [["intern", rng.choice(VIA0), 0, names[i], "D%d" % i] for i in range(n)]
        first = len(steps)
        for p in pairs:
            steps.append(["cmp", "d%d" % pos[p["x"]], rng.choice(["d%d", "D%d"]) % pos[p["y"]]])
        attr0 = len(steps)
        steps += [["attr", rng.choice(["d%d", "D%d"]) % i] for i in range(n)]
        steps.append(["tablekeys"])
        steps.append(["foreign", "d0", rng.choice([None, "sid", 3])])
        jobs.append(steps)
        metas.append(("release table", first, attr0))
    kinds = ["small", "int", "float", "str", "tuple"] if quick else ["small", "int", "int", "float", "str", "tuple"] * 2
    for kind in kinds:
        orders = M.orders_for(rng, n, kind)
        cls = rng.choice(["PseudoEnum", "Release", "ReleaseDefault", "ReleaseKw"])
        steps = []
        for twin in ("a", "b"):          # two objects per rank: equal order, different object
            for i in range(n):
                t = M.gen_text(rng, "free", rng.choice([0, 1, 1, 2]))
                steps.append(["new", cls, t, orders[i], "v" + t[:5], "%s%d" % (twin, i)])
        first = len(steps)
        for p in pairs:
            a, b = pos[p["x"]], pos[p["y"]]
            steps.append(["cmp", "a%d" % a, ("b%d" if (a == b or rng.random() < 0.3) else "a%d") % b])
        jobs.append(steps)
        metas.append(("enumeration of %s over %s orders" % (cls, kind), first, None))
    results, err = M.run_worker(ctx, jobs)
    if err:
        return 0
    nbad = 0
    obs = {}
    for (fam, first, attr0), steps, res in zip(metas, jobs, results):
        if attr0 is not None:       # identity: both handles of a name are one object, different names different objects
            ids = [rel_obs(o) for o in res[:first]]
            byname = {}
            for st, o in zip(steps[:first], ids):
                byname.setdefault(st[3], set()).add(o["id"] if o["k"] == "obj" else -1)
            if any(len(v) != 1 or -1 in v for v in byname.values()) or len({min(v) for v in byname.values()}) != n:
                ctx.violation({"kind": "rident", "steps": steps[:first]},
                              "interning every release twice gives objects %s: not one object per name" % short(byname, 400))
        for p, st, o in zip(pairs, steps[first:], res[first:]):
            w = p["want"]
            ctx.case_seen(("pair", fam.split(" ")[0], p["x"], p["y"]))
            if not cmp_ok(o, w):
                nbad += 1
                if nbad <= 3:
                    ctx.violation({"kind": "rpair", "steps": [s for s in steps[:first] if s[-1] in (st[1], st[2])] + [st], "want": w},
                                  "%s: members at positions %d (%s) and %d (%s) compare %s, specification: %s" % (
                                      fam, pos[p["x"]] + 1, p["x"], pos[p["y"]] + 1, p["y"], short(o), short(w)))
        if attr0 is not None:
            for e, st, o in zip(ents, steps[attr0:], res[attr0:attr0 + n]):
                cls_, lit = M.parse_repr(o.get("repr"))
                if (o.get("str"), o.get("fmt"), cls_, lit, o.get("cls"), o.get("version")) != (e["name"], e["name"], "Release", e["name"], "Release", e["version"]):
                    nbad += 1
                    if nbad <= 3:
                        ctx.violation({"kind": "rattr", "steps": [["intern", "fn", 0, e["name"], "h"], ["attr", "h"]], "want": e},
                                      "release %s: str %r repr %r version %r, specification: name %s version %r" % (
                                          e["name"], o.get("str"), o.get("repr"), o.get("version"), e["name"], e["version"]))
            k = res[attr0 + n]
            if k["keys"] != names:
                ctx.violation({"kind": "rkeys", "steps": [["tablekeys"]], "want": names},
                              "list(Release.releases) = %s, specification: %s" % (short(k["keys"]), short(names)))
            if k["public"]:
                ctx.drift("debian_support exposes %s (deleted from the module in the pinned tree)" % k["public"])
            obs["release == non-PseudoEnum"] = short(res[attr0 + n + 1])
    ctx.extra["observations"] = obs
    if results:
        ctx.sample("release table: %s against %s -> %s" % (pairs[n - 1]["x"], pairs[n - 1]["y"], short(results[0][metas[0][1] + n - 1])))
    return len(jobs)


def gen_rhist(rng, nev, stress):
    """random history on the release table, caller-made enumerations and tables (handles, not ids:
    which object a handle holds is whatever the code returned)"""
    steps = []
    hs = []             # handles with the enumeration they are MEANT to belong to (None: meant to be None)
    fams = {}
    tables = []

    def handle(fam):
        h = "h%d" % (len(hs) + 1)
        hs.append((h, fam))
        return h

    def of_fam(f):
        return [h for h, ff in hs if ff == f]

    def new_fam():
        f = "e%d" % (len(fams) + 1)
        kind = rng.choice(["small", "int", "float", "str", "tuple"])
        n = rng.choice([2, 3, 5, 9])
        if stress >= 2 and rng.random() < 0.3:
            n = rng.choice([33, 101, 257])
        fams[f] = dict(orders=M.orders_for(rng, n, kind), cls=rng.choice(["PseudoEnum", "Release", "ReleaseDefault", "ReleaseKw"]), n=n)
        return f
    for _ in range(nev):
        r = rng.random()
        if r < 0.03:
            steps.append(["mutcopy"])
        elif r < 0.30:
            name = rng.choice(DEB_NAMES) if rng.random() < 0.75 else rng.choice(UNKNOWN)
            if rng.random() < 0.03:
                name = M.gen_text(rng, "free", stress)
            steps.append(["intern", rng.choice(VIA0), 0, name, handle("deb" if name in DEB_NAMES else None)])
        elif r < 0.46:
            f = rng.choice(list(fams)) if fams and rng.random() < 0.7 else new_fam()
            fam = fams[f]
            rank = rng.randrange(fam["n"])
            ver = None if fam["cls"] == "PseudoEnum" else "" if fam["cls"] == "ReleaseDefault" else M.gen_text(rng, "free", 1)
            steps.append(["new", fam["cls"], M.gen_text(rng, "free", stress), fam["orders"][rank], ver, handle(f), f, rank])
        elif r < 0.52:
            cand = [(h, f) for h, f in hs if f]
            if not cand:
                continue
            pick = rng.sample(cand, min(len(cand), rng.choice([1, 2, 3, 9] if stress < 2 else [1, 3, 17, 33, 101, 257])))
            ent, used = [], set()
            for h, f in pick:
                nm = rng.choice(DEB_NAMES[:4] + UNKNOWN[:3]) if rng.random() < 0.3 else M.gen_text(rng, "free", 1)
                if nm not in used:
                    used.add(nm)
                    ent.append([nm, h, f])
            tables.append(ent)
            steps.append(["table", len(tables), [[nm, h] for nm, h, f in ent]])
        elif r < 0.62:
            if not tables:
                continue
            t = rng.randrange(len(tables))
            if rng.random() < 0.7:
                nm, _, f = rng.choice(tables[t])
            else:
                nm, f = rng.choice(UNKNOWN + DEB_NAMES[4:8]), None
            steps.append(["intern", rng.choice(VIAT), t + 1, nm, handle(f)])
        else:
            live = sorted({f for h, f in hs if f})
            if not live:
                continue
            f = rng.choice(live)
            mine = of_fam(f)
            k = rng.random()
            if k < 0.2:
                steps.append(["attr", rng.choice(mine)])
            elif k < 0.55:
                steps.append(["cmp", rng.choice(mine), rng.choice(mine)])
            else:
                m = rng.choice([1, 2, 3, 5, 9]) if stress < 2 else rng.choice([1, 3, 17, 33, 101])
                lst = [rng.choice(mine) for _ in range(m)]
                op = rng.choice(["sort", "sortrev", "distinct", "min", "max", "index"])
                steps.append([op, lst] + ([rng.choice(lst)] if op == "index" else []))
    steps.append(["tablekeys"])
    return dict(steps=steps)


def worker_steps(steps):
    return [s[:6] if s[0] == "new" else s for s in steps]


def project_rhist(h, results):
    """-> trace of TraceX08R; custom objects are named '#<id>' (texts stay here)"""
    tr = []
    made = {}            # id -> (name text, version text)
    ntab = 0
    for st, o in zip(h["steps"], results):
        op = st[0]
        if isinstance(o, dict) and "setup_error" in o:
            tr.append({"op": "Broken", "why": o["setup_error"]})
            continue
        if op == "intern":
            tr.append({"op": "Intern", "tab": st[2], "name": st[3], "res": rel_obs(o)})
        elif op == "new":
            made[o] = (st[2], st[4])
            tr.append({"op": "New", "fam": st[6], "name": "#%d" % o, "rank": st[7], "ver": "-none-" if st[4] is None else "#v%d" % o,
                       "cls": "PseudoEnum" if st[1] == "PseudoEnum" else "Release", "id": o})
        elif op == "table":
            ntab += 1
            tr.append({"op": "Table", "tab": st[1], "names": [n for n, _ in st[2]], "ids": o})
        elif op == "attr":
            if not o.get("id"):
                tr.append({"op": "Broken", "why": "handle holds None"})
                continue
            cls_, lit = M.parse_repr(o["repr"])
            if o["id"] in made:
                nm, vr = made[o["id"]]
                name = "#%d" % o["id"] if (o["str"] == nm and o["fmt"] == nm) else "?"
                rname = "#%d" % o["id"] if lit == nm else "?"
                ver = ("-none-" if o["version"] is None else "?") if vr is None else ("#v%d" % o["id"] if o["version"] == vr else "?")
            else:
                name = o["str"] if o["fmt"] == o["str"] else "?"
                rname = lit if lit is not None else "?"
                ver = o["version"] if isinstance(o["version"], str) else "?"
            tr.append({"op": "Attr", "id": o["id"], "name": name, "rname": rname, "cls": o["cls"], "rcls": cls_, "ver": ver})
        elif op == "cmp":
            if not o.get("x") or "lt" not in o:
                tr.append({"op": "Broken", "why": short(o)})
                continue
            tr.append({"op": "Cmp", "x": o["x"], "y": o["y"], "res": {k: o[k] for k in ("lt", "le", "eq", "ne", "ge", "gt", "heq")}})
        elif op in ("sort", "sortrev", "distinct", "min", "max", "index"):
            if not o.get("ids") or "res" not in o:
                tr.append({"op": "Broken", "why": short(o)})
                continue
            name = {"sort": "Sort", "sortrev": "SortRev", "distinct": "Distinct", "min": "Min", "max": "Max", "index": "Index"}[op]
            e = {"op": name, "ids": o["ids"]}
            if op == "distinct":
                e["n"] = o["res"] if o["res"] == o["dict"] else -1
            elif op == "index":
                e["x"] = o["x"]
                e["res"] = o["res"] if o["in"] else -1
            else:
                e["res"] = o["res"]
            tr.append(e)
        elif op == "tablekeys":
            tr.append({"op": "Keys", "names": o["keys"]})
    return tr


def rhist_controls(traces, rng):
    out = []
    for t in traces:
        c = json.loads(json.dumps(t))
        k = len(out) % 4
        done = False
        for e in c:
            if k == 0 and e["op"] == "Cmp":
                e["res"]["lt"] = not e["res"]["lt"]
                done = True
            elif k == 1 and e["op"] == "Intern" and e["tab"] == 0 and e["res"]["k"] == "obj":
                e["res"]["id"] += 1
                done = True
            elif k == 2 and e["op"] == "Intern" and e["res"]["k"] == "none" and e["tab"] == 0:
                e["res"] = {"k": "obj", "id": 1}
                done = True
            elif k == 3 and e["op"] in ("Sort", "SortRev") and len(set(e["res"])) > 1:
                e["res"] = e["res"][1:] + e["res"][:1]
                done = True
            if done:
                break
        if done:
            out.append(c)
        if len(out) >= 10:
            break
    out.append([{"op": "Intern", "tab": 0, "name": "sid", "res": {"k": "obj", "id": 1}},
                {"op": "Intern", "tab": 0, "name": "sid", "res": {"k": "obj", "id": 2}}])
    out.append([{"op": "Intern", "tab": 0, "name": "wheezy", "res": {"k": "obj", "id": 1}},
                {"op": "Intern", "tab": 0, "name": "buster", "res": {"k": "obj", "id": 2}},
                {"op": "Cmp", "x": 2, "y": 1, "res": {"lt": True, "le": True, "eq": False, "ne": True, "ge": False, "gt": False, "heq": False}}])
    return out


# ====================================================================== histories: one process, three components

def merge_steps(rng, parts):
    """interleave step lists (order within each kept) -> (steps, per part the indices of its steps)"""
    pos = [0] * len(parts)
    steps, idx = [], [[] for _ in parts]
    left = [len(p) for p in parts]
    while sum(left):
        k = rng.choices(range(len(parts)), weights=left)[0]
        steps.append(parts[k][pos[k]])
        idx[k].append(len(steps) - 1)
        pos[k] += 1
        left[k] -= 1
    return steps, idx


def gen_histories(ctx, quick):
    rng = ctx.rng
    n = 70 if quick else 1000
    hs = []
    for i in range(n):
        stress = 3 if i % 29 == 7 else 2 if i % 5 == 1 else 0 if i % 7 == 0 else 1
        pattern = {0: "stale", 1: "email", 2: "fallback"}.get(i % 9)
        m = gen_mhist(rng, rng.choice([6, 10, 16]) if i % 13 else 40, stress, pattern)
        d = gen_dhist(rng, rng.choice([4, 8, 12]))
        r = gen_rhist(rng, rng.choice([8, 14, 24]) if i % 17 else 80, min(stress, 2))
        steps, idx = merge_steps(rng, [m["steps"], d["steps"], worker_steps(r["steps"])])
        hs.append(dict(steps=steps, idx=idx, m=m, d=d, r=r))
    return hs


def split_results(h, res):
    return [[res[i] for i in ix] for ix in h["idx"]]


def describe(h, part, at):
    steps = {"m": h["m"]["steps"], "d": h["d"]["steps"], "r": worker_steps(h["r"]["steps"])}[part]
    lo = max(0, at - 6)
    return "steps %d..%d of this component: %s" % (lo + 1, at + 1, short(steps[lo:at + 1], 900))


def check_histories(ctx, hits, hs, results, futs):
    """verdicts of TLC on the three projections"""
    (macc, mprog), (dacc, dprog), (racc, rprog) = [f.result() for f in futs]
    nbad = 0
    for i, h in enumerate(hs):
        tid = i + 1
        ctx.case_seen(("hist", i))
        if tid in macc:
            smallest = min(macc[tid], key=len)
            if smallest:
                hits.hit(smallest, short([s for s in h["m"]["steps"] if s[0] != "sys"], 300))
        else:
            nbad += 1
            if nbad <= 2:
                at = mprog.get(tid, 0)
                note = h["_mnotes"][at] if at < len(h["_mnotes"]) else None
                ctx.violation({"kind": "hist", "part": "m", "h": {k: h[k] for k in ("steps", "idx", "m", "d", "r")}},
                              "get_maintainer() history not explained by the specification (nor by a known-defect model) at event %d: %s; %s" % (
                                  at + 1, note, describe(h, "m", at)))
        if tid not in dacc:
            nbad += 1
            if nbad <= 2:
                at = dprog.get(tid, 0)
                e = h["d"]["evs"][at] if at < len(h["d"]["evs"]) else None
                ctx.violation({"kind": "hist", "part": "d", "h": {k: h[k] for k in ("steps", "idx", "m", "d", "r")}},
                              "format_date history not explained by the specification at call %d (%s): observed %s" % (
                                  at + 1, short(e), short(h["_dtrace"][at]["res"] if at < len(h["_dtrace"]) else None)))
        if tid not in racc:
            nbad += 1
            if nbad <= 2:
                at = rprog.get(tid, 0)
                ctx.violation({"kind": "hist", "part": "r", "h": {k: h[k] for k in ("steps", "idx", "m", "d", "r")}},
                              "release history not explained by the specification at event %d: %s; %s" % (
                                  at + 1, short(h["_rtrace"][at] if at < len(h["_rtrace"]) else None, 400), describe(h, "r", at)))


def project_all(hs, results):
    mtr, dtr, rtr = [], [], []
    for h, res in zip(hs, results):
        rm, rd, rr = split_results(h, res)
        t, notes = project_mhist(h["m"], rm)
        h["_mnotes"] = notes
        mtr.append(t)
        h["_dtrace"] = project_dhist(h["d"], rd)
        dtr.append([e for e in h["_dtrace"]])
        h["_rtrace"] = project_rhist(h["r"], rr)
        rtr.append(h["_rtrace"])
    return mtr, dtr, rtr


# ====================================================================== run / replay

def run(ctx):
    quick = ctx.tier == "quick"
    hits = Hits()
    ctx.assumptions += [
        "texts are opaque in the models: a token stands for a text of any length and content inside its role's alphabet (no angle brackets in the parts of 'Name <addr>' and in plain addresses, no comma in the first gecos field, no outer white space in the name part and in mail domains, never NUL / CR / LF); token texts are sampled (seeded)",
        "unspecified, executed, every outcome accepted: the name where dch(1) and dch's algorithm disagree (MtZone), odd DEBEMAIL / EMAIL shapes, empty gecos ('' or None), white space in /etc/mailname, dates outside the years 1000..9999, time zones with daylight-saving rules, comparisons with non-PseudoEnums or across enumerations, mutation of Release.releases / shared Release objects",
        "the fall-back sources are stand-ins inside a worker process (pwd.getpwuid, socket.getfqdn, /etc/mailname through open / os.path.exists, time.time); os.environ and the time zone are the worker's real ones",
        "the release table of ReleaseOrder.tla (names, versions) is taken from https://www.debian.org/releases/ as the docstring of Release says; its order is cross-checked against the version numbers",
        "trusted: TLC, the concretizers / projections of harness/maint_x08.py, the RFC 2822 date syntax used to cut format_date's result into fields",
    ]
    pool = ThreadPoolExecutor(max_workers=8)
    tm = {}
    t0 = time.time()

    def lap(name):
        nonlocal t0
        tm[name] = round(time.time() - t0, 1)
        t0 = time.time()
    fut = {}
    # emission (spec -> code)
    fut["table"] = pool.submit(ctx.tlc_must_hold, "Maintainer", "Maintainer_table_quick.cfg" if quick else "Maintainer_table.cfg", workers=1,
                               want_tags={"CASE"}, java_opts=jopts(ctx))
    days, sods, offs = date_constants(ctx.rng, quick)
    fut["dates"] = pool.submit(ctx.tlc_must_hold, "ChangelogDate", date_cfg(days, sods, offs), workers=1, want_tags={"DATE"}, java_opts=jopts(ctx))
    fut["rel"] = pool.submit(ctx.tlc_must_hold, "ReleaseOrder", "ReleaseOrder_lts.cfg", workers=1, want_tags={"EDGE", "PAIR", "ENTRY"}, java_opts=jopts(ctx))
    # code -> spec: record the histories now, TLC validates them in the background
    hs = gen_histories(ctx, quick)
    results, err = M.run_worker(ctx, [h["steps"] for h in hs])
    if err:
        ctx.violation({"kind": "import"}, "debian.changelog / debian.debian_support cannot be imported: %s" % err)
        pool.shutdown(wait=True)
        return
    mtr, dtr, rtr = project_all(hs, results)
    lap("record_histories")
    crng = ctx.rng
    vf = [pool.submit(validate, ctx, "TraceX08M", mtr, mhist_controls(mtr, crng)),
          pool.submit(validate, ctx, "TraceX08D", dtr, dhist_controls(dtr, crng)),
          pool.submit(validate, ctx, "TraceX08R", rtr, rhist_controls(rtr, crng))]
    # design level
    fut["hist"] = pool.submit(ctx.tlc_must_hold, "Maintainer", "Maintainer_hist.cfg", workers=1, want_tags=set(), java_opts=jopts(ctx))
    fut["walk"] = pool.submit(ctx.tlc_must_hold, "ChangelogDate", "ChangelogDate_quick.cfg" if quick else "ChangelogDate_bnd.cfg",
                              workers=1, want_tags=set(), java_opts=jopts(ctx))
    negs = [pool.submit(neg_control, ctx, *nc) for nc in NEG_CONTROLS]
    # spec -> code
    r = fut["rel"].result()
    lap("wait_rel")
    n = replay_edges(ctx, r.printed.get("EDGE", []), quick)
    n += replay_pairs(ctx, r.printed.get("PAIR", []), r.printed.get("ENTRY", []), quick)
    if len(r.printed.get("PAIR", [])) != 361 or len(r.printed.get("ENTRY", [])) != 19:
        raise core.MachineryError("ReleaseOrder emission incomplete")
    ctx.traces += n
    lap("replay_releases")
    r = fut["dates"].result()
    lap("wait_dates")
    dc = r.printed.get("DATE", [])
    if len(dc) != len(days) * len(sods) * len(offs) * 2:
        raise core.MachineryError("ChangelogDate emission incomplete: %d" % len(dc))
    ctx.traces += replay_dates(ctx, dc, quick)
    lap("replay_dates")
    r = fut["table"].result()
    lap("wait_table")
    mc = r.printed.get("CASE", [])
    if len(mc) != (3312 if quick else 18000):
        raise core.MachineryError("Maintainer emission incomplete: %d" % len(mc))
    ctx.traces += replay_mcases(ctx, hits, mc, quick)
    lap("replay_maintainer")
    tz_diag(ctx, quick)
    check_histories(ctx, hits, hs, results, vf)
    ctx.traces += 3 * len(hs)
    lap("validate_histories")
    for k in ("hist", "walk"):
        fut[k].result()
    ctx.extra["spec_negative_controls"] = dict(f.result() for f in negs)
    lap("wait_models")
    pool.shutdown()
    ctx.extra["phase_seconds"] = tm
    ctx.extra["model_configurations"] = {k: v.result().distinct for k, v in fut.items()}
    ctx.extra["histories"] = {"n": len(hs), "events": sum(len(h["steps"]) for h in hs),
                              "maintainer_calls": sum(1 for h in hs for s in h["m"]["steps"] if s[0] == "call"),
                              "longest_text": max((len(s[2]) for h in hs for s in h["steps"] if s[0] == "set"), default=0)}
    ctx.extra["date_constants"] = {"days": len(days), "sods": len(sods), "offs": len(offs)}
    ctx.extra["known_findings"] = {k["id"]: {"occurrences": hits.n.get(k["id"], 0), "example": hits.example.get(k["id"])} for k in KNOWN}
    ctx.extra["extra"] = {"id": "X08", "title": EXTRA["title"]}
    for k in KNOWN:
        if hits.n.get(k["id"]):
            print("KNOWN-FINDING: extra=X08 %s (%d occurrences; id=%s)" % (k["signature"], hits.n[k["id"]], k["id"]))


def replay(ctx, case):
    kind = case["kind"]
    if kind == "import":
        res, err = M.run_worker(ctx, [])
        return err and "cannot be imported: %s" % err
    if kind == "mcase":      # the jobs that ran before it in the same process come first (state leaks)
        res, err = M.run_worker(ctx, list(case.get("before", [])) + [case["job"]["steps"]])
        if err:
            return err
        v = mcase_check(case["case"], case["job"], res[-1])
        return v if isinstance(v, str) else None
    if kind == "dcase":
        res, err = M.run_worker(ctx, [case["steps"]])
        if err:
            return err
        o = res[0][case["at"]]
        got = M.parse_date(o[1]) if o[0] == "ok" else {"bad": True}
        return None if got == case["case"]["want"] else "format_date returned %s, specification: %s" % (short(o), short(case["case"]["want"]))
    if kind in ("redge", "rpair", "rattr", "rkeys", "rident"):
        res, err = M.run_worker(ctx, [case["steps"]])
        if err:
            return err
        res = res[0]
        if kind == "redge":
            got = [rel_obs(o) for o in res]
            return None if got == case["want"] else "objects %s, specification: %s" % (short(got), short(case["want"]))
        if kind == "rpair":
            return None if cmp_ok(res[-1], case["want"]) else "compare %s, specification: %s" % (short(res[-1]), short(case["want"]))
        if kind == "rattr":
            o, e = res[-1], case["want"]
            cls_, lit = M.parse_repr(o.get("repr"))
            ok = (o.get("str"), o.get("fmt"), cls_, lit, o.get("cls"), o.get("version")) == (e["name"], e["name"], "Release", e["name"], "Release", e["version"])
            return None if ok else "attributes %s, specification: %s" % (short(o), short(e))
        if kind == "rkeys":
            return None if res[-1]["keys"] == case["want"] else "keys %s" % short(res[-1]["keys"])
        ids = {}
        for st, o in zip(case["steps"], res):
            ids.setdefault(st[3], set()).add(tuple(o[:2]))
        return None if all(len(v) == 1 for v in ids.values()) and len({min(v) for v in ids.values()}) == len(ids) else "not one object per name: %s" % short(ids, 400)
    if kind == "hist":
        h = case["h"]
        res, err = M.run_worker(ctx, [h["steps"]])
        if err:
            return err
        mtr, dtr, rtr = project_all([h], res)
        part = case["part"]
        module, tr = {"m": ("TraceX08M", mtr), "d": ("TraceX08D", dtr), "r": ("TraceX08R", rtr)}[part]
        acc, prog = validate(ctx, module, tr, [])
        if 1 in acc and (part != "m" or not min(acc[1], key=len)):
            return None
        if 1 in acc:
            return None     # explained by a known-defect model only: a KNOWN-FINDING, not this violation
        return "history still not explained by the specification at event %d (%s)" % (prog.get(1, 0) + 1, describe(h, part, prog.get(1, 0)))
    return "unknown case kind"
