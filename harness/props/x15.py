"""X15 (extra) -- the generic containers of debian._util as a public, directly usable API: LinkedListNode, LinkedList,
OrderedSet, _CaseInsensitiveString (_strI) and default_field_sort_key.

STATEMENT
  Nodes form chains (doubly linked sequences) and a LinkedList owns one chain.  After EVERY history of public calls,
  including calls that raise, each list is one sequence of distinct nodes: walking next_node from head_node gives the
  sequence, walking previous_node from tail_node gives its reverse, len() is its length, bool() tells whether it is
  non-empty, previous_node / next_node of every node are its neighbours (None at the ends) and no node belongs to two
  chains.  A refused call (IndexError from pop() on an empty list, ValueError from insert_* on an empty list or with a
  new node that is already inserted, KeyError / TypeError / ValueError of OrderedSet, a failed assertion) changes
  nothing; an iterable that raises in the middle of extend() leaves the items delivered so far appended.  A node taken
  out (remove_node, pop, node.remove) is really detached: both links None, reachable from no chain.  An iteration
  (iter_nodes, iter / reversed of a list, node.iter_next / iter_previous with or without skip_current) is a cursor on
  the node it yielded last -- the next step yields the neighbour that node has THEN -- so removing any other node,
  inserting anywhere and assigning values while iterating are safe.  copy.copy, copy.deepcopy, pickle with every
  protocol, __reduce_ex__ and __getstate__ / __setstate__ give a list (set) with equal values (items) in the same order
  that shares no node (deepcopy / pickle: no mutable value either) with the original.  An OrderedSet is the sequence of
  its pairwise different items (different as dict keys) in order of first insertion, the first spelling kept;
  order_first / order_last / order_before / order_after move exactly one item; a key that cannot be hashed (unhashable,
  or a __hash__ that raises -- also when it raises only in the table assignment of add()) is refused with that
  exception and nothing changes.  A _CaseInsensitiveString equals every
  str with the same lower(), hashes like its lower(), str() returns the original spelling, lower() and
  default_field_sort_key the lower-case str, and it survives copy / deepcopy / pickle (protocol >= 2).
  Domain (the rest is unspecified, never generated): node-level mutators (node.remove, node.insert_before / _after,
  link_nodes) on free chains only -- the class docstring trades encapsulation and "assumes well-behaved calls";
  link_nodes joins the last node of one free chain to the first of another; the existing node given to remove_node /
  insert_* belongs to that list (or the list is empty: refused); the return value of pop(); resuming an iteration after
  its node was taken out or its list cleared; what becomes of the nodes a list held when it was cleared / re-initialised;
  whether a failed extend() keeps the delivered prefix or nothing (both accepted); order_before / order_after of an
  ABSENT item relative to itself; mutation of an OrderedSet while iterating it; plain str that are not
  lower-case mixed with _strI as keys of one set / dict; pickle protocols 0 and 1 of a _strI (Python refuses __slots__
  without __getstate__) or of a container holding one; l.extend(l) (the list as its own iterable: does not terminate
  on the pinned tree, recorded in the evidence as a diagnostic only).

spec:     spec/UtilCont.tla       reference: chains / lists / iterators / ordered sets / string algebra, ONE pure operator
                                  UCall(st, flags, call) with a branch per public call, InDomain, Shape (everything
                                  observable on the objects in a state)
          spec/UtilContImpl.tla   implementation layer: nxt / prv / value per node, head / tail / size per list, the
                                  table + private list of an OrderedSet, transcribed from _util.py (ICall)
          spec/UtilContMC.tla     closed configurations "list" / "oset" / "str", EDGE / STATE emission, properties
          spec/TraceUtilCont.tla  validation of recorded histories
model checking: reference and implementation run in lock step from every reachable state: WellFormed, Refines (the
          structures represent the reference state), Structure (LinksOK EndsOK SizeOK BackOK DisjointOK TableOK),
          SameResult, ErrAtomic, ImplErrAtomic, QueriesPure, NodesConserved, DetachedReally, PopDetaches, Frame,
          CopyEqual, SetCopyEqual, CursorLaw, SetFrame; StrLaws as ASSUME.
          Spec-level negative controls, re-run in every check (each must make TLC report the named property):
          FSole -> Refines (as built), FEmPick -> CopyEqual and SetCopyEqual (as built), notail -> Structure,
          keepsize -> Structure, nohead -> Refines, keepnext -> Refines.
binding:  spec -> code: the complete LTS TLC emits for the closed configurations (every in-domain call from every
          reachable state, with the expected result, state and shape) is replayed into real objects built through the
          public API, rotating over tame / odd-character / size-stressed payloads and over every public variant of
          each call; random walks keep one world alive (earlier iterators, copies and returned states stay alive,
          returned state lists are mutated).
          code -> spec: random histories (profiles lists / nodes / iters / sets / strs / mixed / copies; many live
          lists; lists and sets of 99..257 (1000) elements; case-mapping hazards as different keys) are recorded with
          the full observation after every call and validated by TLC together with corrupted control traces.
          Values, spellings and node identities are opaque ids for TLC: verdicts are length-independent by construction.

API surface (notes/API_SURFACE.md)
  entry point / variant                                               exercised by
  LinkedListNode(v) / value=                                           replay + trace (node)
  node.value read / assigned                                           replay + trace (nvalue nsetvalue)
  node.previous_node / next_node (read)                                replay + trace (nprev nnext, every observation)
  node.previous_node = .. / next_node = .. (raw link assignment)       out of domain (only through link_nodes)
  node.remove()                                                        replay + trace (nremove)
  node.iter_next() / (skip_current=False) / (skip_current=True)        replay + trace (nwalk, itopen nn nns)
  node.iter_previous() / skip_current                                  replay + trace (nwalk, itopen np nps)
  LinkedListNode.link_nodes(p, q) / keywords / through an instance     replay + trace (nlink)
  node.insert_before(n) / insert_after(n) / new_node=                  replay + trace (ninsbefore ninsafter, refusals)
  LinkedList() / (None) / ([]) / (values=) / list tuple generator
    iterator LinkedList as values                                      replay + trace (lnew)
  bool(l) / __bool__ / not not, len(l) / __len__                       replay + trace
  l.head_node / tail_node / tail                                       replay + trace
  l.pop()                                                              replay + trace (IndexError when empty)
  l.iter_nodes(), iter(l) / list(l) / comprehension / tuple, reversed  replay + trace (queries and cursors)
  l.remove_node(n) / node=                                             replay + trace
  l.insert_at_head(v) / l.append(v) / value=                           replay + trace
  l.insert_before / insert_after (v, n) / keywords                     replay + trace
  l.insert_node_before / insert_node_after (new, n) / keywords         replay + trace (all refusals; finding X15-sole)
  l.extend(values) / values= / six iterable forms / raising iterable   replay + trace
  LinkedList(raising iterable), OrderedSet(raising iterable),
    OrderedSet.extend(raising iterable) (fault at the first / a middle
    / the last step, then the history goes on: SIZE_STRESS part 5)     replay + trace (k = boom)
  keys whose __hash__ raises the caller's exception at its first /
    second call (add / remove / in / order_*: the roll-back of add)    replay + trace (items B1 B2)
  l.clear()                                                            replay + trace
  l.__getstate__() (result mutated) / __setstate__(list | tuple)       replay + trace
  copy.copy / deepcopy / pickle 0..5 (dumps, Pickler) / __reduce_ex__  replay + trace (lcopy ocopy spickle; finding X15-empick)
  OrderedSet() / (None) / (iterable) / iterable= / tuple / generator   replay + trace (onew)
  add / append (alias) / remove / extend / in / __contains__ / len     replay + trace
  iter / reversed / list                                               replay + trace
  order_first / order_last / order_before / order_after / keywords     replay + trace
  OrderedSet.__getstate__ / __setstate__                               replay + trace
  OrderedSet == / copy of nodes / pickling of LinkedListNode           out of domain (nothing documented)
  _strI(text): == != hash lower() str() "%s" str_lower str_orig        replay (str configuration) + trace
  _strI as dict / set / frozenset / OrderedSet key with str            replay + trace (dget dkeep, set universes)
  default_field_sort_key, sorted(key=) / list.sort(key=)               replay + trace (skey sorted)
  _strI(bytes), _strI(_strI) (str() then returns a _strI)              out of domain
  resolve_ref                                                          through previous_node

findings (KNOWN below): modelled as defect switches of the specification (fl.sole, fl.empick); every divergence they
  explain is counted and reported as KNOWN-FINDING, any other divergence is a violation.
"""
import json
import os
import random
import shutil
import time
from concurrent.futures import ThreadPoolExecutor

import core
import rec_x15 as REC
import util_x15 as X
from lts import skey

MANIFEST = None
LEVEL = "model_checking"

EXTRA = dict(
    title="debian._util containers used directly: LinkedListNode / LinkedList / OrderedSet / _CaseInsensitiveString",
    statement=(
        "After every history of public calls, including calls that raise, each LinkedList is one sequence of distinct "
        "nodes: the walk along next_node from head_node, the reversed walk along previous_node from tail_node, len(), "
        "bool() and the neighbours of every node agree with that sequence and no node belongs to two chains; a refused "
        "call changes nothing (a raising iterable leaves the delivered prefix of extend() appended); a node taken out is "
        "detached (both links None, unreachable); an iteration is a cursor on the node yielded last, so removing other "
        "nodes, inserting and assigning values while iterating are safe; copy, deepcopy, every pickle protocol and "
        "__getstate__/__setstate__ give an equal list / set sharing no node (deepcopy / pickle: no mutable value) with "
        "the original. An OrderedSet is the sequence of its pairwise different keys in order of first insertion with "
        "the first spelling kept, order_first/last/before/after move one item. A _CaseInsensitiveString equals every str "
        "with the same lower(), hashes like its lower(), str() gives the original spelling, lower() and "
        "default_field_sort_key the lower-case str. Domain: node-level mutators on free chains only, existing nodes "
        "belong to the list they are handed to, pop()'s return value, iteration after its node was taken out, "
        "non-lower-case plain str mixed with _strI keys and pickle protocols 0/1 of _strI are unspecified."),
    technique=(
        "TLA+ reference UtilCont (chains, lists, cursors, ordered sets, string algebra; one pure operator UCall) and "
        "implementation layer UtilContImpl (links, head/tail/size, table; transcribed from _util.py) model-checked in "
        "lock step by TLC (refinement, structure invariants, 12 action properties, 7 spec-level negative controls); "
        "the complete emitted LTS of the closed configurations replayed into real objects with tame / odd-character / "
        "size-stressed payloads and every public call variant plus long-lived random walks; recorded histories "
        "(many / large lists and sets, case-mapping hazards) validated by TLC with corrupted control traces."))

K_SOLE = "X15-sole-node-accepted"
K_EMPICK = "X15-empty-pickle-protocol-0-1"
KNOWN = [
    dict(id=K_SOLE,
         signature="insert_node_before / insert_node_after accept a new node that is the ONLY node of a list (\"already "
                   "inserted\" is decided from the node's own links): a = LinkedList([1]); b = LinkedList([2, 3]); "
                   "b.insert_node_before(a.head_node, b.head_node) succeeds (expected ValueError, nothing changed) and "
                   "the node then belongs to both lists: list(a) == [1, 2, 3] while len(a) == 1"),
    dict(id=K_EMPICK,
         signature="an EMPTY LinkedList / OrderedSet pickled with protocol 0 or 1 comes back unusable: "
                   "pickle.loads(pickle.dumps(LinkedList(), 0)) has no _size / head_node (AttributeError on len / iter; "
                   "OrderedSet: no _OrderedSet__order) because __getstate__ returns a falsy [] that copyreg drops, so "
                   "__setstate__ is never called (expected: an equal empty container, as with protocols 2..5)"),
]
KNOWN_IDS = {k["id"] for k in KNOWN}

LIST_PROPS = ["SameResult", "ErrAtomic", "ImplErrAtomic", "QueriesPure", "NodesConserved", "DetachedReally", "PopDetaches",
              "Frame", "CopyEqual", "CursorLaw"]
SET_PROPS = ["SameResult", "ErrAtomic", "ImplErrAtomic", "QueriesPure", "SetCopyEqual", "SetFrame"]
ALL_IT = ["ln", "lv", "lr", "nn", "nns", "np", "nps"]

QUERIES = {"nvalue", "nprev", "nnext", "nwalk", "lbool", "llen", "lhead", "ltailnode", "ltail", "lnodes", "lvalues", "lrev",
           "lgetstate", "olen", "oiter", "orev", "ohas", "ogetstate", "ocopy",
           "seq", "sne", "shash", "slower", "skey", "sstr", "spickle", "dget", "dkeep", "sorted"}


def cfg_text(which, nnodes=0, nlists=0, nsets=0, nnames=1, values=(), spells=(), maxseq=2, hows=("copy", "pickle0"),
             itkinds=(), fsole=False, fempick=False, neg="", emit=False, impl=True, props=()):
    def tset(xs):
        return "{%s}" % ", ".join('"%s"' % x for x in xs)
    t = lambda b: "TRUE" if b else "FALSE"     # noqa: E731
    out = ["CONSTANTS", '  Which = "%s"' % which, "  NNodes = %d" % nnodes, "  NLists = %d" % nlists, "  NSets = %d" % nsets,
           "  NNames = %d" % nnames, "  Values = %s" % tset(values), "  Spells = %s" % tset(spells), "  MaxSeq = %d" % maxseq,
           "  Hows = %s" % tset(hows), "  ItKinds = %s" % tset(itkinds), "  FSole = %s" % t(fsole), "  FEmPick = %s" % t(fempick),
           '  Neg = "%s"' % neg, "  Emit = %s" % t(emit), "  WithImpl = %s" % t(impl), "SPECIFICATION USpec", "INVARIANT WellFormed"]
    if impl:
        out += ["INVARIANT Refines", "INVARIANT Structure"]
    if emit:
        out += ["INVARIANT EmitState"]
    out += ["PROPERTY " + p for p in props]
    out += ["VIEW UView", ""]
    return "\n".join(out)


def configs(quick):
    """name -> (cfg text, emits?)"""
    c = {}
    # emission + lock-step design runs
    c["listA"] = (cfg_text("list", nnodes=3, nlists=1, values=["A"], itkinds=ALL_IT, emit=True, props=LIST_PROPS), True)
    c["listB"] = (cfg_text("list", nnodes=2, nlists=2, values=["A", "B"], itkinds=["ln", "lv", "lr"], emit=True, props=LIST_PROPS), True)
    c["osetA"] = (cfg_text("oset", nnodes=4, nsets=1, nnames=3, spells=["C"], emit=True, impl=False, props=["ErrAtomic", "QueriesPure", "SetCopyEqual", "SetFrame"]), True)
    c["osetB"] = (cfg_text("oset", nnodes=3, nsets=1, nnames=2, spells=["C", "U"], emit=True, impl=False, props=["ErrAtomic", "QueriesPure", "SetCopyEqual", "SetFrame"]), True)
    c["str"] = (cfg_text("str", nnames=2, hows=["copy", "deepcopy", "pickle2", "pickle5"], emit=True, impl=False, props=["QueriesPure"]), True)
    # design only
    c["listC"] = (cfg_text("list", nnodes=3, nlists=2, values=["A"], itkinds=ALL_IT, props=LIST_PROPS), False)
    c["osetB_impl"] = (cfg_text("oset", nnodes=3, nsets=1, nnames=2, spells=["C", "U"], props=SET_PROPS), False)
    if not quick:
        c["listD"] = (cfg_text("list", nnodes=3, nlists=2, values=["A", "B"], itkinds=["ln", "lr", "nns", "nps"], props=LIST_PROPS), False)
        c["listE"] = (cfg_text("list", nnodes=4, nlists=2, values=["A"], itkinds=["ln", "nps"], maxseq=1, props=LIST_PROPS), False)
        c["osetA_impl"] = (cfg_text("oset", nnodes=4, nsets=1, nnames=3, spells=["C"], props=SET_PROPS), False)
    return c


def neg_controls():
    small = dict(nnodes=2, nlists=2, values=["A", "B"], itkinds=["ln"], props=LIST_PROPS)
    return [("sole", cfg_text("list", fsole=True, **small), "Refines"),
            ("empick", cfg_text("list", fempick=True, **small), "CopyEqual"),
            ("empick-set", cfg_text("oset", nnodes=3, nsets=1, nnames=2, spells=["C"], fempick=True, props=SET_PROPS), "SetCopyEqual"),
            ("notail", cfg_text("list", neg="notail", **small), "Structure"),
            ("keepsize", cfg_text("list", neg="keepsize", **small), "Structure"),
            ("nohead", cfg_text("list", neg="nohead", **small), "Refines"),
            ("keepnext", cfg_text("list", neg="keepnext", **small), "Refines")]


def read_emission(path):
    states, edges = {}, []
    with open(path, errors="replace") as f:
        lines = sorted(l for l in f if l.startswith('<<"EDGE", "') or l.startswith('<<"STATE", "'))
    for line in lines:
        if line.startswith('<<"EDGE", "'):
            e = json.loads(line[11:-4].replace('\\"', '"').replace("\\\\", "\\"))
            e["_f"] = key_of(e["from"])
            e["_t"] = key_of(e["to"]) if e["to"] != 0 else e["_f"]
            edges.append(e)
        else:
            s = json.loads(line[12:-4].replace('\\"', '"').replace("\\\\", "\\"))
            states[key_of(s["st"])] = s
    return states, edges


def norm(st):
    return {"lst": st["lst"], "ch": sorted(st["ch"]), "val": st["val"], "os": st["os"]}


def key_of(st):
    return skey([st["lst"], sorted(st["ch"]), st["val"], st["os"], st["its"]])


# ------------------------------------------------------------------ comparison of an observation with TLC's expectation

def res_match(call, exp, got):
    if exp == got:
        return True
    if exp == {"t": "err", "x": "Refused"} and got in ({"t": "err", "x": "ValueError"},):
        return True          # an assertion or a ValueError: refused either way
    if call["op"] == "shash" and exp == {"t": "bool", "x": 0} and got.get("t") == "bool":
        return True          # hashes of different keys are not specified
    return False


def obs_mismatch(world, st, shape):
    """-> None or a message: the real objects against the state / shape TLC printed"""
    got, gshape = world.observe(len(st["val"]))
    exp = norm(st)
    for k in ("lst", "ch", "val", "os"):
        if got[k] != exp[k]:
            return "%s of the objects is %s, the specification says %s" % (
                {"lst": "the forward walk of the lists", "ch": "the set of free chains", "val": "the node values", "os": "the iteration of the sets"}[k],
                json.dumps(got[k], ensure_ascii=False)[:300], json.dumps(exp[k])[:300])
    if gshape["lists"] != shape["lists"]:
        for i, (a, b) in enumerate(zip(gshape["lists"], shape["lists"])):
            if a != b:
                return "list %d is inconsistent: observed %s, the specification says %s" % (i + 1, json.dumps(a), json.dumps(b))
    if gshape["links"] != sorted(shape["links"]):
        return "node links [node, previous, next] are %s, the specification says %s" % (json.dumps(gshape["links"])[:300], json.dumps(sorted(shape["links"]))[:300])
    gsets = world.observe_sets()
    if gsets != shape["sets"]:
        return "ordered set observation %s, the specification says %s" % (json.dumps(gsets, ensure_ascii=False)[:300], json.dumps(shape["sets"])[:300])
    return None


class Known(object):
    def __init__(self):
        self.hits, self.example = {}, {}

    def hit(self, kid, example):
        self.hits[kid] = self.hits.get(kid, 0) + 1
        self.example.setdefault(kid, example)


def describe_call(conc, c):
    bits = [c["op"]]
    for k in ("l", "m", "x", "y", "i"):
        if c[k]:
            bits.append("%s=%s" % ({"l": "list/set", "m": "target", "x": "node", "y": "new-node", "i": "iterator"}[k], c[k]))
    if c["k"]:
        bits.append("kind=%s" % c["k"])
    if c["v"]:
        bits.append("value=%r" % (conc.proto.get(c["v"]),))
    if c["vs"]:
        bits.append("values=%r" % ([conc.proto.get(v) for v in c["vs"]],))
    for k in ("a", "b"):
        if c[k]["k"]:
            bits.append("%s=%r" % (k, safe_item(conc, c[k])))
    if c["as"]:
        bits.append("items=%r" % ([safe_item(conc, it) for it in c["as"]],))
    return " ".join(bits)[:700]


def safe_item(conc, it):
    try:
        o = conc.itab[(it["n"], it["s"], it["k"])]
        return ("_strI(%r)" % str.__str__(o)) if it["k"] == "I" else o
    except KeyError:
        return it


def judge(world, e, st_from, shapes, res, known, conc):
    """-> (None | ('known', id) | ('viol', msg), state the world is in now or None when it must be rebuilt)"""
    to = e["to"] if e["to"] != 0 else st_from
    tk = e.get("_t") or key_of(to)
    fk = e.get("_f") or key_of(st_from)
    if res_match(e["call"], e["res"], res):
        if e["call"]["op"] in ("lclear", "lsetstate"):
            world.keep_only({x for s in to["lst"] + to["ch"] for x in s})
        msg = obs_mismatch(world, to, shapes[tk]["shape"])
        if msg is None:
            return None, to
        if e.get("alt") and obs_mismatch(world, st_from, shapes[fk]["shape"]) is None:
            return None, None          # a failed extend() that added nothing is accepted as well (the walk ends here)
        return ("viol", "after %s -> %s: %s" % (describe_call(conc, e["call"]), json.dumps(res, ensure_ascii=False)[:200], msg)), None
    k = e["kres"]
    if k != 0:
        if k["t"] == "corrupt" and res == {"t": "node", "x": k["x"]} and K_SOLE in KNOWN_IDS:
            return ("known", K_SOLE), None
        if k["t"] == "broken" and res.get("t") == "broken" and K_EMPICK in KNOWN_IDS:
            msg = obs_mismatch(world, st_from, shapes[fk]["shape"])
            if msg is None:
                return ("known", K_EMPICK), st_from
    return ("viol", "%s returned / raised %s, the specification says %s (from lists %s free chains %s sets %s)" % (
        describe_call(conc, e["call"]), json.dumps(res, ensure_ascii=False)[:300], json.dumps(e["res"])[:300],
        json.dumps(st_from["lst"]), json.dumps(st_from["ch"]), json.dumps(st_from["os"])[:200])), None


def strip_edge(e):
    return {k: e[k] for k in ("from", "call", "res", "to", "kres", "alt")}


def replay_group(conc, st, edges, shapes, seed, known):
    """all given edges leaving one state, on objects built through the public API -> (n done, None | (index, message))"""
    rng = random.Random(seed)
    world = X.World(conc)
    world.build(st, rng)
    msg = obs_mismatch(world, st, shapes[key_of(st)]["shape"])
    if msg:
        return 0, (-1, "objects built for the state (lists %s, free chains %s, sets %s): %s" % (st["lst"], st["ch"], json.dumps(st["os"])[:200], msg))
    clean = True
    done = 0
    for i, e in enumerate(edges):
        if not clean:
            world.build(st, rng)
            clean = True
        try:
            res = world.apply(e["call"], rng)
        except core.MachineryError:
            raise
        if res is None:
            continue
        done += 1
        v, now = judge(world, e, st, shapes, res, known, conc)
        if v is not None:
            if v[0] == "known":
                known.hit(v[1], "%s from lists %s" % (describe_call(conc, e["call"]), json.dumps(st["lst"])))
            else:
                return done, (i, v[1])
        if e["call"]["op"] not in QUERIES or now is None or e["to"] != 0:
            clean = False
    return done, None


def sub_shapes(shapes, states):
    return {key_of(s): shapes[key_of(s)] for s in states}


def replay_lts(ctx, name, states, edges, rng, known, share=1.0):
    by_state = {}
    for e in edges:
        by_state.setdefault(e["_f"], []).append(e)
    cseed = rng.getrandbits(32)
    concs = [X.Conc(cseed, s) for s in (0, 1, 2)]
    n = 0
    groups = []
    for k, es in sorted(by_state.items()):
        groups += [es[j:j + 60] for j in range(0, len(es), 60)]          # payload kinds rotate within one state as well
    for i, es in enumerate(groups):
        if share < 1.0 and rng.random() > share:
            continue
        conc = concs[i % 3]
        pseed = rng.getrandbits(32)
        st = es[0]["from"]
        done, viol = replay_group(conc, st, es, states, pseed, known)
        n += done
        if viol:
            idx, msg = viol
            upto = es[:idx + 1] if idx >= 0 else []
            ctx.violation({"kind": "edges", "cfg": name, "cseed": cseed, "stress": conc.stress, "state": st, "seed": pseed,
                           "edges": [strip_edge(x) for x in upto],
                           "shapes": sub_shapes(states, [st] + [x["to"] for x in upto if x["to"] != 0])},
                          "configuration %s, payloads %s: %s" % (name, ["tame", "odd characters", "sizes"][conc.stress], msg))
            if len(ctx.violations) >= 5:
                break
    return n, by_state


def run_path(conc, init, path, shapes, seed, known):
    rng = random.Random(seed)
    world = X.World(conc)
    world.build(init, rng)
    cur = init
    for i, e in enumerate(path):
        res = world.apply(e["call"], rng)
        if res is None:
            return None          # an unspecified step: the walk ends here
        v, now = judge(world, e, cur, shapes, res, known, conc)
        if v is None and now is None:
            return None          # the accepted alternative outcome of a failed extend(): the walk ends here
        if v is not None:
            if v[0] == "known":
                known.hit(v[1], "%s (step %d of a walk)" % (describe_call(conc, e["call"]), i + 1))
                if now is None:
                    return None
            else:
                return "step %d of a history without resets: %s" % (i + 1, v[1])
        cur = e["to"] if e["to"] != 0 else cur
        world.void_iterators(cur["its"])
    return None


def walk_lts(ctx, name, states, by_state, init, rng, known, nwalks, length):
    cseed = rng.getrandbits(32)
    concs = [X.Conc(cseed, s) for s in (0, 1, 2)]
    n = 0
    for wi in range(nwalks):
        conc = concs[wi % 3]
        pseed = rng.getrandbits(32)
        r = random.Random(pseed)
        path, cur = [], init
        for _ in range(length):
            outs = by_state.get(key_of(cur))
            if not outs:
                break
            e = r.choices(outs, weights=[5 if x["to"] != 0 else 1 for x in outs])[0]
            path.append(e)
            if e["kres"] != 0 and e["kres"]["t"] == "corrupt":
                break
            cur = e["to"] if e["to"] != 0 else cur
        msg = run_path(conc, init, path, states, pseed, known)
        n += 1
        if msg:
            ctx.violation({"kind": "walk", "cfg": name, "cseed": cseed, "stress": conc.stress, "init": init, "seed": pseed,
                           "path": [strip_edge(x) for x in path],
                           "shapes": sub_shapes(states, [init] + [x["to"] for x in path if x["to"] != 0])},
                          "configuration %s, payloads %s: %s" % (name, ["tame", "odd characters", "sizes"][conc.stress], msg))
            if len(ctx.violations) >= 5:
                break
    return n


# ------------------------------------------------------------------ code -> spec

def corrupt(t, how):
    """negative controls: histories the specification must NOT accept (cut after the corrupted event)"""
    import copy
    for i, e in enumerate(t):
        o = e["obs"]
        c = None
        if how == "swap" and e["res"]["t"] != "err" and any(len(s) >= 2 for s in o["lst"]):
            c = copy.deepcopy(e)
            s = next(s for s in c["obs"]["lst"] if len(s) >= 2)
            s[0], s[1] = s[1], s[0]
        elif how == "size" and e["op"] in ("lappend", "lremove", "lpop", "lextend", "linsbefore") and e["res"]["t"] != "err":
            c = copy.deepcopy(e)
            c["obs"]["size"][e["l"] - 1] += 1
        elif how == "bwd" and e["op"] in ("lappend", "lathead", "linsafter", "linsnodeafter") and e["res"]["t"] == "node":
            c = copy.deepcopy(e)
            c["obs"]["bwd"][e["l"] - 1] = c["obs"]["bwd"][e["l"] - 1][1:]
        elif how == "tail" and e["op"] in ("lpop", "lremove") and e["res"]["t"] == "ok" and i and len(t[i - 1]["obs"]["tail"]) >= e["l"] \
                and t[i - 1]["obs"]["tail"][e["l"] - 1] != o["tail"][e["l"] - 1]:
            c = copy.deepcopy(e)
            c["obs"]["tail"][e["l"] - 1] = t[i - 1]["obs"]["tail"][e["l"] - 1]          # tail_node still the removed node
        elif how == "attached" and e["op"] in ("lremove", "nremove") and e["res"]["t"] in ("ok", "val") and i:
            old = next((x for x in t[i - 1]["obs"]["links"] if x[0] == e["x"]), None)
            if old and (old[1] or old[2]):
                c = copy.deepcopy(e)
                c["obs"]["links"] = [old if x[0] == e["x"] else x for x in c["obs"]["links"]]   # the removed node keeps its links
        elif how == "err-ok" and e["res"]["t"] == "err" and e["res"]["x"] != "Boom":
            c = dict(e, res={"t": "ok", "x": 0})
        elif how == "notatomic" and e["res"]["t"] == "err" and e["res"]["x"] in ("ValueError", "Refused", "IndexError") and i and t[i - 1]["obs"]["size"]:
            c = copy.deepcopy(e)
            c["obs"]["size"] = [x + 1 for x in c["obs"]["size"]]
        elif how == "value" and e["res"]["t"] == "val" and e["res"]["x"] not in ("none",):
            c = dict(e, res={"t": "val", "x": "v-other"})
        elif how == "oset-order" and e["op"] in ("oadd", "oappend", "ofirst", "olast", "obefore", "oafter", "oremove") and any(len(s) >= 2 for s in o["os"]):
            c = copy.deepcopy(e)
            s = next(s for s in c["obs"]["os"] if len(s) >= 2)
            s[0], s[1] = s[1], s[0]
        elif how == "ohas" and e["op"] == "ohas" and e["res"]["t"] == "bool":
            c = dict(e, res={"t": "bool", "x": 1 - e["res"]["x"]})
        elif how == "seq" and e["op"] in ("seq", "sne", "dget") and e["res"]["t"] == "bool":
            c = dict(e, res={"t": "bool", "x": 1 - e["res"]["x"]})
        elif how == "lower" and e["op"] in ("slower", "skey") and e["res"]["t"] == "item" and e["a"]["s"] != "L":
            c = dict(e, res={"t": "item", "x": dict(e["res"]["x"], s=e["a"]["s"])})          # lower() that keeps the case
        elif how == "stop" and e["op"] == "itnext" and e["res"]["t"] in ("node", "val"):
            c = dict(e, res={"t": "stop", "x": 0})
        elif how == "frame" and e["op"] in ("lappend", "lremove", "lclear", "lextend") and e["res"]["t"] != "err" and len(o["lst"]) >= 2:
            c = copy.deepcopy(e)
            m = next(j for j in range(len(o["lst"])) if j != e["l"] - 1)
            c["obs"]["lst"][m] = c["obs"]["lst"][m][:-1] if c["obs"]["lst"][m] else [1]
        elif how == "copy-shares" and e["op"] == "lcopy" and e["res"]["t"] == "ok" and o["lst"][e["l"] - 1]:
            c = copy.deepcopy(e)
            c["obs"]["lst"][e["m"] - 1] = list(o["lst"][e["l"] - 1])                         # the copy holds the original's nodes
        elif how == "sorted" and e["op"] == "sorted" and len(e["res"]["x"]) >= 2 and e["res"]["x"][0] != e["res"]["x"][-1]:
            c = dict(e, res={"t": "items", "x": list(reversed(e["res"]["x"]))})
        if c is not None:
            return t[:i] + [c]
    return None


HOWS = ["swap", "size", "bwd", "tail", "attached", "err-ok", "notatomic", "value", "oset-order", "ohas", "seq", "lower", "stop",
        "frame", "copy-shares", "sorted"]

_E = X.call
STATIC_CONTROL = [dict(_E("lnew", l=1, vs=["v1"], f=[1]), res={"t": "ok", "x": 0},
                       obs={"lst": [[1]], "bwd": [[1]], "size": [2], "head": [1], "tail": [1], "truth": [1], "ch": [], "links": [[1, 0, 0]],
                            "val": ["v1"], "os": [], "orev": [], "olen": []})]


def validate(ctx, traces, with_controls=True, known_ids=None):
    """-> (rejected trace numbers, index of the first unexplained event per rejected trace, notes, number of controls)"""
    known_ids = KNOWN_IDS if known_ids is None else known_ids
    controls = []
    if with_controls:
        controls.append(STATIC_CONTROL)
        for how in HOWS:
            for t in traces:
                c = corrupt(t, how)
                if c:
                    controls.append(c)
                    break
    env = {"TRACE_DIAG": "0", "KNOWN_SOLE": "1" if K_SOLE in known_ids else "0", "KNOWN_EMPICK": "1" if K_EMPICK in known_ids else "0"}
    acc, _, r = core.validate_traces(ctx, "TraceUtilCont", "TraceUtilCont.cfg", traces, extra_env=env, controls=controls)
    notes = [tuple(x) for x in r.printed.get("REJECT", []) if x[0] <= len(traces)]
    rejected = [i for i in range(1, len(traces) + 1) if i not in acc]
    info = {}
    if rejected:
        sub = [traces[i - 1] for i in rejected[:10]]
        _, prog, _ = core.validate_traces(ctx, "TraceUtilCont", "TraceUtilCont.cfg", sub, extra_env=dict(env, TRACE_DIAG="1"))
        for j, i in enumerate(rejected[:10]):
            info[i] = prog.get(j + 1, 0)
    return rejected, info, notes, len(controls)


def describe_event(tr, rec, at):
    if at >= len(tr):
        return "(end of history)"
    e = tr[at]
    prev = tr[at - 1]["obs"] if at else None
    bits = ["event %d: %s" % (at + 1, describe_call(rec.conc, e)), "-> %s" % json.dumps(e["res"], ensure_ascii=False)[:300]]
    if prev:
        bits.append("before: lists %s free chains %s sets %s" % (json.dumps(prev["lst"])[:300], json.dumps(prev["ch"])[:150], json.dumps(prev["os"])[:200]))
    o = e["obs"]
    bits.append("after: lists %s backward %s len %s head %s tail %s free chains %s links %s sets %s" % (
        json.dumps(o["lst"])[:300], json.dumps(o["bwd"])[:300], o["size"], o["head"], o["tail"], json.dumps(o["ch"])[:150],
        json.dumps(o["links"])[:300], json.dumps(o["os"])[:200]))
    return ", ".join(bits)


def record_one(spec):
    kind, seed, arg = spec[:3]
    if kind == "big":
        return REC.record_big(seed, arg, spec[3] if len(spec) > 3 else None)
    return REC.record(seed, kind, arg)


def trace_plan(rng, quick):
    plan = []
    n = 40 if quick else 330
    for prof in REC.PROFILES:
        for _ in range(n):
            plan.append((prof, rng.getrandbits(32), rng.choice([15, 25, 40])))
    # size stress (notes/SIZE_STRESS.md): the counts rotate deterministically so that every run meets the boundaries
    sizes = {"biglist": [257, 100, 256, 33, 1000, 255, 101, 99, 17, 32], "manylists": [33, 10, 17, 40, 9, 16, 31, 32, 11],
             "bigset": [256, 101, 257, 1000, 100, 255, 99, 33]}
    for kind, k in (("biglist", 5 if quick else 30), ("manylists", 3 if quick else 18), ("bigset", 4 if quick else 24)):
        for j in range(k):
            plan.append(("big", rng.getrandbits(32), kind, sizes[kind][j % len(sizes[kind])]))
    return plan


def extend_self_probe():
    """diagnostic (outside the domain): l.extend(l) -- does it terminate?"""
    LL = X.U().LinkedList
    l = LL([1, 2])
    n = [0]

    def guard():
        for v in l:
            n[0] += 1
            if n[0] > 50:
                return
            yield v
    try:
        l.extend(guard())
    except Exception as ex:      # noqa: BLE001
        return "raised %s" % type(ex).__name__
    return "terminates, len %d" % len(l) if n[0] <= 50 else "does not terminate (cut after 50 items)"


# ------------------------------------------------------------------ the check

def run(ctx):
    quick = ctx.tier == "quick"
    rng = ctx.rng
    ctx.import_repo()
    tm = ctx.extra.setdefault("phase_wall_s", {})
    known = Known()
    ctx.assumptions += [
        "model scope: lists with <= 3 (design run: 4) nodes, 2 lists, 1 iterator, 2 value symbols; ordered sets over 3 keys x {_strI in 2 spellings, lower-case str, unhashable}; string algebra over 2 names x 3 spellings x {_strI, str}",
        "domain: node-level mutators on free chains only; existing nodes belong to the list; pop()'s return value, resumed iterations after their node was taken out, mixed non-lower-case str / _strI keys, pickle protocols 0/1 of _strI are unspecified",
        "trusted: TLC; the projection (attribute walks over head_node / next_node / previous_node, len, bool, iteration); str.lower for naming the lower-case classes; object identity for node ids",
    ]
    t0 = time.time()
    pool = ThreadPoolExecutor(max_workers=6 if quick else 4)
    cfgs = configs(quick)

    def tlc(name):
        text, emits = cfgs[name]
        r = ctx.tlc_must_hold("UtilContMC", text, workers=2 if quick else 3, keep_raw=emits, want_tags=set())
        if not emits:
            return name, None, None, r
        states, edges = read_emission(r.raw_path)
        shutil.rmtree(os.path.dirname(r.raw_path), ignore_errors=True)
        if not states or not edges:
            raise core.MachineryError("configuration %s: TLC emitted %d STATE / %d EDGE lines" % (name, len(states), len(edges)))
        return name, states, edges, r

    def neg(name, text, prop):
        r = ctx.tlc("UtilContMC", text, workers=1, count=False)
        if r.violated != prop:
            raise core.MachineryError("negative control %s: TLC reported %r, expected a violation of %s" % (name, r.violated, prop))
        return "%s -> %s" % (name, prop)

    order = ["listA", "listB", "osetA", "osetB", "str"]
    futs = {n: pool.submit(tlc, n) for n in order}
    design = [pool.submit(tlc, n) for n in cfgs if n not in order]
    negf = [pool.submit(neg, *x) for x in neg_controls()]

    # ---- code -> spec: record while TLC runs
    t1 = time.time()
    try:
        ctx.extra["extend_with_itself"] = extend_self_probe()
    except Exception as ex:      # noqa: BLE001 -- diagnostic only
        ctx.extra["extend_with_itself"] = "probe failed: %s" % type(ex).__name__
    plan = trace_plan(rng, quick)
    traces, specs, recs = [], [], []
    for spec in plan:
        try:
            tr, rec = record_one(spec)
        except Exception as ex:      # noqa: BLE001
            if not core.raised_by_code_under_test(ex):
                raise
            import traceback
            if len(ctx.violations) < 5:
                ctx.violation({"kind": "record", "spec": list(spec)},
                              "unexpected %s from the library while recording a history: %s" % (type(ex).__name__, traceback.format_exc().strip().splitlines()[-3:]))
            continue
        if tr:
            traces.append(tr)
            specs.append(spec)
            recs.append(rec)
    tm["record"] = round(time.time() - t1, 1)
    batch = 200 if quick else 400
    vpool = ThreadPoolExecutor(max_workers=2 if quick else 3)
    vfuts = [(i, vpool.submit(validate, ctx, traces[i:i + batch])) for i in range(0, len(traces), batch)]

    # ---- spec -> code: replay as the emissions arrive
    t2 = time.time()
    nedges = nreplayed = nwalks = 0
    per_op, lts = {}, {}
    for name in order:
        _, states, edges, r = futs[name].result()
        nedges += len(edges)
        for e in edges:
            per_op[e["call"]["op"]] = per_op.get(e["call"]["op"], 0) + 1
        lts[name] = {"states": len(states), "edges": len(edges), "tlc_wall_s": round(r.wall, 1)}
        if len(ctx.violations) >= 5:
            continue
        n, by_state = replay_lts(ctx, name, states, edges, rng, known)
        nreplayed += n
        if name != "str" and len(ctx.violations) < 5:
            init = next(s["st"] for s in states.values() if not any(s["st"]["lst"]) and not s["st"]["ch"] and not any(s["st"]["os"])
                        and not any(i["on"] for i in s["st"]["its"]))
            nwalks += walk_lts(ctx, name, states, by_state, init, rng, known, 40 if quick else 400, 40 if quick else 60)
        if name == "listA":
            e = next(x for x in edges if x["call"]["op"] == "linsnodebefore" and x["to"] != 0)
            ctx.sample("lts edge: " + json.dumps({"from": norm(e["from"]), "call": {k: v for k, v in e["call"].items() if v not in (0, "", [], X.NOITEM)},
                                                  "res": e["res"], "to": norm(e["to"])}, separators=(",", ":")))
    tm["emit_and_replay"] = round(time.time() - t2, 1)
    ctx.evaluations += nreplayed + nwalks
    for name in order:
        ctx.distinct.add(("configuration", name))
    ctx.extra["lts"] = lts
    ctx.extra["edges_per_action"] = per_op
    ctx.extra["edges_emitted"] = nedges
    ctx.extra["edges_replayed"] = nreplayed
    ctx.extra["walks"] = nwalks
    t3 = time.time()
    ctx.extra["design_runs"] = {}
    for f in design:
        name, _, _, r = f.result()
        ctx.extra["design_runs"][name] = {"distinct": r.distinct, "generated": r.generated, "wall_s": round(r.wall, 1)}
    ctx.extra["negative_controls_spec"] = [f.result() for f in negf]
    pool.shutdown()
    tm["design_wait"] = round(time.time() - t3, 1)

    # ---- verdicts of the trace validation
    t4 = time.time()
    nrej = ncontrols = 0
    for base, f in vfuts:
        rejected, info, notes, nc = f.result()
        ncontrols += nc
        for tid, kid_, l in notes:
            known.hit(kid_, describe_event(traces[base + tid - 1], recs[base + tid - 1], l - 1)[:400])
        for i in rejected:
            nrej += 1
            if len(ctx.violations) >= 5:
                continue
            at = info.get(i, 0)
            ctx.violation({"kind": "record", "spec": list(specs[base + i - 1]), "first_unexplained_event": at + 1},
                          "recorded history (%s) not explained by UtilCont after %d accepted events: %s"
                          % (specs[base + i - 1][0] if specs[base + i - 1][0] != "big" else specs[base + i - 1][2], at,
                             describe_event(traces[base + i - 1], recs[base + i - 1], at)))
    vpool.shutdown()
    tm["validate_wait"] = round(time.time() - t4, 1)
    ctx.traces += nwalks + sum(v["states"] for v in lts.values()) + len(traces)
    ctx.evaluations += len(traces)
    for i in range(len(traces)):
        ctx.distinct.add(("trace", i))
    ctx.extra["traces_recorded"] = len(traces)
    ctx.extra["trace_events"] = sum(len(t) for t in traces)
    ctx.extra["largest_list_in_a_trace"] = max([max([len(s) for s in e["obs"]["lst"]] + [0]) for t in traces for e in t[-1:]] + [0])
    ctx.extra["most_live_lists_in_a_trace"] = max([len(t[-1]["obs"]["lst"]) for t in traces] + [0])
    ctx.extra["traces_rejected"] = nrej
    ctx.extra["control_traces"] = ncontrols
    if traces:
        t = traces[0]
        ctx.sample("recorded history (first 2 events): " + json.dumps([{k: v for k, v in e.items() if v not in (0, "", [], X.NOITEM)} for e in t[:2]],
                                                                      separators=(",", ":"), ensure_ascii=False)[:700])
    ctx.extra["known_findings"] = {k["id"]: {"occurrences": known.hits.get(k["id"], 0), "example": known.example.get(k["id"])} for k in KNOWN}
    tm["total"] = round(time.time() - t0, 1)
    for k in KNOWN:
        if known.hits.get(k["id"]):
            print("KNOWN-FINDING: extra=X15 %s (%d occurrences; id=%s; e.g. %s)" % (k["signature"], known.hits[k["id"]], k["id"], known.example[k["id"]][:300]))


def replay(ctx, case):
    ctx.import_repo()
    known = Known()
    kind = case.get("kind")
    if kind in ("edges", "walk"):
        conc = X.Conc(case["cseed"], case["stress"])
        shapes = case["shapes"]
        if kind == "walk":
            return run_path(conc, case["init"], case["path"], shapes, case["seed"], known)
        done, viol = replay_group(conc, case["state"], case["edges"], shapes, case["seed"], known)
        return viol[1] if viol else None
    if kind == "record":
        try:
            tr, rec = record_one(tuple(case["spec"]))
        except Exception as ex:      # noqa: BLE001
            if not core.raised_by_code_under_test(ex):
                raise
            return "unexpected %s from the library while recording the history" % type(ex).__name__
        rejected, info, notes, _ = validate(ctx, [tr], with_controls=False)
        if rejected:
            return "history still not explained by the specification: %s" % describe_event(tr, rec, info.get(1, 0))
        return None
    return "unknown case kind"
