"""X14 (extra) -- debian.changelog beyond parsing fidelity: (a) ChangeBlock.bugs_closed / lp_bugs_closed,
(b) the mutation and access API of Changelog / ChangeBlock.  (Parsing / formatting fidelity and strictness are
C04 / C15, get_maintainer / format_date X08: here is what they do not judge -- WHAT the accessors return, WHERE
a mutation lands, the exact text the model predicts after mutations, lookups, bug numbers, key normalisation.)

STATEMENT
  (a) The change lines of a block, joined by one blank, are read from left to right: bugs_closed is the list (text
      order, repetitions kept, as int) of exactly the numbers announced in the Debian closes syntax
      `closes: WS* ITEM (, WS* ITEM)*` with ITEM = `[bug] [#] [WS] DIGIT+` (key word and "bug" in any ASCII case, no
      word boundary needed, WS = ASCII white space, at most ONE white-space character after "bug" / "#"),
      lp_bugs_closed those of the Launchpad syntax `lp: WS+ # DIGIT+ (, WS* # DIGIT+)*`.  An announcement is the
      leftmost-longest occurrence of the grammar, announcements do not overlap, a list ends where the grammar cannot
      be continued (also across change lines) and the text after it is searched again.  Both are pure functions of the
      CURRENT change lines of that block.  Unspecified: texts in which a character that is white space / a digit /
      equal to "s" under Unicode rules only (NBSP, U+2028, full-width digits, U+017F ...) changes the result; digit
      runs beyond Python's int() conversion limit (4300 digits; probed up to 39 digits + 33 leading zeros).
  (b) A Changelog is a list of blocks, newest first.  new_block(...) puts a new block on top and changes no other:
      every keyword given becomes the attribute of that name, an omitted / None one gives None except urgency
      ("unknown"), urgency_comment (""), changes ([]), other_pairs ({}), encoding (the changelog's), and the block
      gets one empty trailing line.  set_package / set_distributions / set_urgency / set_author / set_date /
      set_version and the properties of those names change exactly that attribute of the TOP block (a string that is
      no Debian version: ValueError, nothing changed); package, distributions, urgency, author, date, version /
      get_version(), full_version, epoch, debian_version = debian_revision, upstream_version read the top block.
      add_change(c) inserts c right after the last non-blank change line of the top block (at the end when there is
      none).  len() counts the blocks, iteration yields them top to bottom (the very objects cl[i] returns), versions /
      get_versions() are their versions in that order, cl[i] follows Python indexing (IndexError outside -n..n-1),
      cl[v] (str or Version) is the FIRST block whose version equals v as a Debian version whatever its spelling, an
      error when there is none.  str(block) is `package (version) distributions; urgency=U COMMENT{, key=value}`, the
      change lines, ` -- author  date`, the trailing lines; ChangelogCreateError when package, version,
      distributions, author or date is None; str(changelog) concatenates the blocks; bytes() encodes that text in the
      block's / changelog's encoding; write_to_open_file writes it.  other_keys_normalised() maps each other_pairs key
      to first character upper-cased + rest lower-cased, prefixed "XS-" unless that starts with X, one or more of
      B / C / S and "-" (any case); values kept, other_pairs untouched.  Top-block calls on a changelog without blocks
      raise and leave it empty.  Nothing but the addressed attribute of the addressed block of the addressed Changelog
      ever changes; what queries hand out (lists, Version objects, dicts) is the caller's.
      Domain: str arguments; valid versions (DESIGN D2) or clearly invalid ones; ASCII keys [-0-9A-Za-z]+ distinct as
      lower case; a blank change line is empty or blanks / tabs; lists / dicts given to new_block are not touched by
      the caller afterwards.  Unspecified: version-derived properties while the top block has no version; None given
      to a setter; the exception type of a failed cl[v] (LookupError or ValueError accepted).

spec:     spec/BugsClosed.tla     (a) two character-level automata (14 + 8 control states, one action per state and
                                  character class) AND the grammar as end-position sets with the leftmost-longest
                                  search; BugsClosedMC.tla (anchors / pieces from a file); TraceX14B.tla
          spec/ChangelogApi.tla   (b) blocks as records of opaque ids; one pure operator per public call (ANew ASet
                                  ASetVersion AAddChange; QLen QVersions QIdx QVer QTop QNorm QRender QWhole), rendering
                                  as pieces "$id" / "=literal"; TraceX14A.tla
model checking
   (a) lts: closed product of the two control automata over the 17 symbols (21 states, 357 edges).  bnd: every text
       ANCHOR + <= 2 (thorough 3) pieces -- anchors: one shortest word per product state, computed from the EDGE lines;
       pieces: every symbol, the Unicode-only classes W D S, "closes:", "lp:", "bug" -- 11.5k (265k) texts:
       AutomatonIsGrammar (operational = declarative, both readings of W D S), NumbersAreRuns, LpNeedsHash,
       KeywordNeeded, SimpleFound, StretchOK (what makes the size stress length-independent), Streaming.
       Negative controls (each must violate AutomatonIsGrammar): BBug = "wsstar", "lpnows", "shortest".
   (b) hist: every history of <= 2 calls over all 23 new_block variants + 5 setters + 3 set_version + 3 add_change from
       Changelog() (both encodings) and a parsed two-block changelog (3 483 histories), and of <= 3 calls over 4
       new_block variants from Changelog() and a parsed one-block changelog (9 846); thorough: <= 3 calls over all
       variants (118 203), <= 4 calls over 2 variants from Changelog(); closed: all states with <= 2 blocks:
       NewBlockOnTop, OnlyTopChanges, ReadBack, ErrAtomic, EmptyRaises (action properties), IndexLaws, LookupByValue,
       VersionsMatchBlocks, AddChangeIsRule (the code's reversed search = the rule), RenderLaws, NormShape.
       Negative controls: ABug = "setAll" -> OnlyTopChanges, "newAtBottom" -> NewBlockOnTop, "exactVersion" ->
       LookupByValue, "blankFirst" -> AddChangeIsRule, "dirtyError" -> ErrAtomic, "capitalWords" -> NormShape.
binding   spec -> code: (a) every CASE text is concretized (seeded: ASCII case, white-space kinds, other characters
       incl. non-NFC / case-mapping hazards / every UTF-8 trailing byte; stretched: digit runs up to 39 digits, leading
       zeros, junk of 1..8193 characters, the text repeated 100 / 257 / 1000 times) into change lines, a block is made
       through every entry point and asked through every form; expected numbers are TLC's.  (b) every CASE history is
       replayed on a real object (initial text = TLC's rendering of the initial blocks, parsed in every input form;
       every call through a rotating public variant) and the COMPLETE observation (len, versions, 11 properties, cl[i]
       for every i in -n-1..n, cl[v] for 6 probe versions as str / Version, every public attribute of every block,
       other_keys_normalised, str / bytes / file text of every block and of the changelog) must equal TLC's AObs -- twice,
       with everything the queries handed out edited in between.
       code -> spec: (a) recorded histories of one block (lines replaced, added, edited in place between the questions;
       realistic and hostile texts, 1000-number lists, 2**63) abstracted character by character and validated by TLC
       (TraceX14B); (b) random histories of 12-260 calls on 1-3 live Changelog objects (mutations, queries, `adopt` =
       re-parse of another object's text, peeks at the objects NOT called) validated by TLC (TraceX14A); the texts
       observed there are compared with the pieces TLC prints (RENDER).  Corrupted control traces must be rejected.
       Payloads are ids in both models: verdicts are length- and character-independent by construction.

API surface (notes/API_SURFACE.md)
  entry point / variant                                               exercised by
  ChangeBlock(changes=) / 6th positional; new_block(changes=);         (a) replay + trace (Driver.build, 8 ways)
    add_change on Changelog / ChangeBlock; changes() edited in place;
    parsed blocks via cl[i] / cl[version] / iteration; a re-used block
  .bugs_closed / .lp_bugs_closed via attribute, getattr, property.fget, (a) replay + trace (Driver.ask, 5 ways)
    asked twice with the first answers edited
  Changelog() / (None) / (encoding=) / (file=None, ...) / positional     (b) replay + trace
  Changelog(text) str bytes StringIO BytesIO file lists iter tuple,     (b) replay (initial changelog) + trace (adopt)
    parse_changelog on a used object
  new_block: keywords, explicit None, positional prefix, Version object  (b) replay + trace
  set_X(v) / set_X(X=v) / cl.X = v / property.fset / block attribute     (b) replay + trace (X = package distributions
    via cl[0], next(iter(cl)), list(cl)[0]                                  urgency author date)
  set_version(s) / (version=s) / (Version) ; cl.version = s / Version    (b) replay + trace
  add_change(c) / (change=c) / block.add_change(c)                       (b) replay + trace
  len(cl) / cl.__len__(); iter / list / comprehension                    (b) replay + trace
  versions / get_versions(); version / get_version(); package /          (b) replay + trace
    get_package(); the other nine properties
  cl[i] / cl.__getitem__(i), cl[str], cl[Version]                        (b) replay + trace
  str() / __str__() / "%s" / bytes() / write_to_open_file of changelog   (b) replay + trace (RENDER)
    and block
  other_keys_normalised()                                                (b) replay + trace
  block.version = s (no validation), add_trailing_line, _format(allow_missing_author), _raw_versions,
    copy / pickle / == of Changelog                                      out of domain (C04 / C15 histories; private;
                                                                         nothing documented)
  cl[slice], cl[None], cl[bool], reversed(cl), `block in cl`             out of domain (not documented)
"""
import json
import os
import random
import shutil
import time
from concurrent.futures import ThreadPoolExecutor

import core
import bugs_x14 as B
import api_x14 as A

MANIFEST = None
LEVEL = "model_checking"

EXTRA = dict(
    title="debian.changelog: bugs_closed / lp_bugs_closed and the mutation / access API of Changelog",
    statement=(
        "(a) ChangeBlock.bugs_closed / lp_bugs_closed are exactly the numbers (text order, repetitions kept, as int) announced "
        "in the block's current change lines (joined by one blank) by the Debian syntax `closes: WS* ITEM (, WS* ITEM)*`, "
        "ITEM = `[bug][#][WS]DIGIT+`, resp. the Launchpad syntax `lp: WS+ #DIGIT+ (, WS* #DIGIT+)*` -- ASCII "
        "case-insensitive, leftmost-longest, non-overlapping, lists continuing over change lines -- and nothing else; "
        "texts where a Unicode-only white-space / digit / long-s character changes the result are unspecified. "
        "(b) A Changelog is a list of blocks, newest first: new_block puts a block with exactly the given keywords "
        "(documented defaults otherwise, one empty trailing line) on top; the set_* methods / properties change exactly "
        "one attribute of the top block (an invalid version: ValueError, nothing changed) and the properties read it; "
        "add_change inserts after the last non-blank change line; len / iteration / versions / cl[i] / cl[version] "
        "(first block with an equal Debian version, whatever its spelling) expose the list; str() / bytes() / "
        "write_to_open_file give `package (version) dists; urgency=U COMMENT{, k=v}`, changes, ` -- author  date`, "
        "trailing lines per block (ChangelogCreateError while a mandatory attribute is None); other_keys_normalised "
        "capitalises keys and prefixes `XS-` unless they start with X[BCS]+-; nothing but the addressed attribute of the "
        "addressed block of the addressed object changes, and what queries hand out is the caller's."),
    technique=(
        "TLA+ specs BugsClosed (two character-level automata checked against the grammar as position sets, "
        "leftmost-longest) and ChangelogApi (blocks of opaque ids, one pure operator per public call, rendering as pieces) "
        "model-checked by TLC with 9 spec-level negative controls; every bounded text / call history emitted by TLC is "
        "replayed into the real classes through every public entry point with tame / odd-character / size-stressed "
        "payloads and the complete observation compared; recorded histories (one block's changing text; several live "
        "Changelog objects) are validated by TLC with corrupted control traces."))

# findings on the current tree (none so far): a divergence listed here is reported as KNOWN-FINDING, not as violation
KNOWN = []

BUG_NEG = ["wsstar", "lpnows", "shortest"]
API_NEG = [("setAll", "OnlyTopChanges"), ("newAtBottom", "NewBlockOnTop"), ("exactVersion", "LookupByValue"),
           ("blankFirst", "AddChangeIsRule"), ("dirtyError", "ErrAtomic"), ("capitalWords", "NormShape")]
PIECES = [c for c in "closeb:ugp#,wnx07WDS"] + ["closes:", "lp:", "bug"]
BUG_INVS = ["BTypeOK", "AutomatonIsGrammar", "NumbersAreRuns", "LpNeedsHash", "KeywordNeeded", "SimpleFound", "StretchOK"]
API_INVS = ["ATypeOK", "IndexLaws", "LookupByValue", "VersionsMatchBlocks", "AddChangeIsRule", "RenderLaws", "NormShape"]
API_PROPS = ["NewBlockOnTop", "OnlyTopChanges", "ReadBack", "ErrAtomic", "EmptyRaises"]
REDUCED = ["full", "empty", "no_vr", "only_ch"]


def iter_lines(path, tag, want=None):
    """fast reader of <<"TAG", "json">> lines (want(i): parse the i-th one?)"""
    head = '<<"%s", "' % tag
    i = -1
    with open(path, errors="replace") as f:
        for line in f:
            if line.startswith(head):
                i += 1
                if want is not None and not want(i):
                    continue
                yield json.loads(line[len(head):-4].replace('\\"', '"').replace("\\\\", "\\"))


def read_lines(path, tag):
    return list(iter_lines(path, tag))


def drop_raw(r):
    if r.raw_path:
        shutil.rmtree(os.path.dirname(r.raw_path), ignore_errors=True)


# ------------------------------------------------------------------ (a) configurations

def bug_cfg(mode, tail, emit, bug="none", invs=True):
    out = ["CONSTANTS", '  BMode = "%s"' % mode]
    if mode == "bnd":
        out += ["  Anchors <- MCAnchors", "  Pieces <- MCPieces"]
    else:
        out += ["  Anchors = {}", "  Pieces = {}"]
    out += ["  MaxTail = %d" % tail, "  BEmit = %s" % ("TRUE" if emit else "FALSE"), '  BBug = "%s"' % bug, "SPECIFICATION BSpec", "CHECK_DEADLOCK FALSE"]
    if mode == "lts":
        out += ["INVARIANT BTypeOK", "VIEW BView"]
    else:
        out += ["INVARIANT " + i for i in (BUG_INVS if invs else ["AutomatonIsGrammar"])]
        if invs:
            out += ["PROPERTY Streaming"]
        if emit:
            out += ["INVARIANT BEmitCase"]
    return "\n".join(out) + "\n"


def anchors_from(edges):
    """one shortest word per reachable state of the product automaton (input generation, no verdict)"""
    out = {}
    for e in edges:
        out.setdefault(tuple(e["from"]), []).append(e)
    init = ("K0", "L0")
    word = {init: ""}
    queue = [init]
    while queue:
        s = queue.pop(0)
        for e in sorted(out.get(s, []), key=lambda e: e["sym"]):
            t = tuple(e["to"])
            if t not in word:
                word[t] = word[s] + e["sym"]
                queue.append(t)
    return word


# ------------------------------------------------------------------ (a) spec -> code

def check_numbers(got, exp, what):
    if type(got) is not list or any(type(x) is not int for x in got):
        return "%s returned %r, expected a list of int" % (what, got)
    if got != exp:
        return "%s returned %r, the specification reads %r" % (what, got[:40], exp[:40])
    return None


def play_bug_case(drv, case, seed, stretch, repeat, hb, ha):
    """one concretization of one CASE -> None or message"""
    conc = B.Conc(seed, stretch=stretch, multi_ws=hb not in ("parse",))
    rng = conc.rng
    text = case["t"]
    # repetition: an "x" brings both automata back to their start (StretchOK), so the numbers repeat
    lines = conc.lines((text + "x") * repeat if repeat > 1 else text)
    try:
        blk = drv.build(lines, hb, rng)
        c, l = drv.ask(blk, ha)
    except AssertionError:
        raise
    except Exception as e:      # noqa: BLE001
        if not core.raised_by_code_under_test(e):
            raise
        return "unexpected %s from the library: %s (change lines %r)" % (type(e).__name__, e, lines[:5])
    exp_c = [conc.number(d) for d in case["c"]] * repeat
    exp_l = [conc.number(d) for d in case["l"]] * repeat
    msgs = []
    if not case["uc"]:
        msgs.append(check_numbers(c, exp_c, "bugs_closed"))
    if not case["ul"]:
        msgs.append(check_numbers(l, exp_l, "lp_bugs_closed"))
    msgs = [m for m in msgs if m]
    if msgs:
        return "%s (change lines %r, built by %s, asked by %s)" % ("; ".join(msgs), [x[:120] for x in lines[:6]], hb, ha)
    drv.alive.append((blk, None if case["uc"] else exp_c, None if case["ul"] else exp_l, lines[:6]))
    if len(drv.alive) > 40:          # earlier blocks, kept alive, still answer for THEIR text
        old, oc, ol, olines = drv.alive.pop(rng.randrange(20))
        if old is not drv.shared:
            m = [x for x in (oc is not None and check_numbers(old.bugs_closed, oc, "bugs_closed"),
                             ol is not None and check_numbers(old.lp_bugs_closed, ol, "lp_bugs_closed")) if x]
            if m:
                return "an earlier block asked again after other blocks were used: %s (its change lines %r)" % ("; ".join(m), olines)
    return None


def replay_bug_cases(ctx, cases, rng, quick):
    drv = B.Driver()
    n = 0
    nb, na = len(B.HOW_BUILD), len(B.HOW_ASK)
    for i, case in enumerate(cases):
        plans = [(0, 1)]
        if i % 3 == 0:
            plans.append((0, 1))
        if i % (40 if quick else 25) == 7:
            plans.append((1, 1))
        if i % (400 if quick else 150) == 11 and (case["c"] or case["l"]):
            plans.append((rng.choice([1, 2]), rng.choice([100, 257] if quick else [100, 101, 257, 1000])))
        for j, (stretch, repeat) in enumerate(plans):
            seed = rng.getrandbits(32)
            hb, ha = B.HOW_BUILD[(i + 3 * j) % nb], B.HOW_ASK[(i // nb + j) % na]
            if repeat > 1 and hb in ("add_change", "block_add_change", "parse"):
                hb = "ctor_kw"
            msg = play_bug_case(drv, case, seed, stretch, repeat, hb, ha)
            n += 1
            ctx.case_seen(("bug", case["t"]), bool(case["c"] or case["l"]))
            if msg:
                ctx.violation({"kind": "bug_case", "case": case, "seed": seed, "stretch": stretch, "repeat": repeat, "hb": hb, "ha": ha},
                              "text %r: %s" % (case["t"], msg))
                if len(ctx.violations) >= 5:
                    return n
    return n


# ------------------------------------------------------------------ (a) code -> spec

def record_bug_trace(seed, stress):
    """history of ONE block: its change lines change between the questions"""
    rng = random.Random("x14tb-%s-%s" % (seed, stress))
    drv = B.Driver()
    lines = B.gen_lines(rng, stress)
    if rng.random() < 0.7:               # most texts stay inside the specified alphabet
        lines = [tame(l) for l in lines]
    hb = rng.choice(B.HOW_BUILD[:-1])
    blk = drv.build(lines, hb, rng)
    events = []
    for step in range(rng.choice([1, 2, 3, 4] if stress < 2 else [1, 2])):
        if step:
            r = rng.random()
            more = [tame(l) for l in B.gen_lines(rng, min(stress, 1))]
            if r < 0.3:
                for l in more:
                    blk.add_change(l)
            elif r < 0.5:
                blk.changes()[:] = more
            elif r < 0.7 and blk.changes():
                del blk.changes()[rng.randrange(len(blk.changes()))]
            elif r < 0.85 and blk.changes():
                i = rng.randrange(len(blk.changes()))
                blk.changes()[i] = blk.changes()[i] + rng.choice([",", " #5", "5", ", bug#77", " closes: 8", " LP: #9", "x"])
            else:
                blk.changes().extend(more)
        c, l = drv.ask(blk, rng.choice(B.HOW_ASK))
        cur = list(blk.changes())
        events.append({"t": B.abstract(cur), "c": [B.digits_of(x) for x in c] if isinstance(c, list) else [["?"]],
                       "l": [B.digits_of(x) for x in l] if isinstance(l, list) else [["?"]]})
    return events


def tame(line):
    out = []
    for ch in line:
        s = B.abstract([ch])[0]
        out.append(" " if s == "W" else "5" if s == "D" else "s" if s == "S" else ch)
    return "".join(out)


def corrupt_bug_trace(t, how):
    for i, e in enumerate(t):
        c = None
        both = e["c"] + e["l"]
        if how == "drop" and e["c"]:
            c = dict(e, c=e["c"][:-1])
        elif how == "add":
            c = dict(e, l=e["l"] + [["4", "2"]])
        elif how == "swap" and len(e["c"]) >= 2 and e["c"][0] != e["c"][1]:
            c = dict(e, c=[e["c"][1], e["c"][0]] + e["c"][2:])
        elif how == "move" and e["l"] and e["l"] != e["c"]:
            c = dict(e, c=e["c"] + e["l"][:1], l=e["l"][1:])
        elif how == "digit" and both and e["c"]:
            c = dict(e, c=[e["c"][0] + ["1"]] + e["c"][1:])
        if c is not None and "W" not in e["t"] and "D" not in e["t"] and "S" not in e["t"]:
            return t[:i] + [c]
    return None


BUG_GOLDEN = [[{"t": list("closes:w#12,nbug007xlp:w#5"), "c": [["1", "2"], ["7"]], "l": [["5"]]}, {"t": [], "c": [], "l": []}]]
BUG_STATIC_CONTROLS = [[{"t": list("closes:w#12"), "c": [], "l": []}], [{"t": list("lp:#12"), "c": [], "l": [["1", "2"]]}],
                       [{"t": list("closes:w#ww12"), "c": [["1", "2"]], "l": []}]]


def validate_bug_traces(ctx, traces, controls=True):
    ctl = []
    if controls:
        ctl += BUG_STATIC_CONTROLS
        for how in ("drop", "add", "swap", "move", "digit"):
            for t in traces:
                c = corrupt_bug_trace(t, how)
                if c:
                    ctl.append(c)
                    break
    all_tr = BUG_GOLDEN + traces if controls else traces
    acc, _, r = core.validate_traces(ctx, "TraceX14B", "TraceX14B.cfg", all_tr, extra_env={"TRACE_DIAG": "0"}, controls=ctl)
    off = len(BUG_GOLDEN) if controls else 0
    if controls and 1 not in acc:
        raise core.MachineryError("TraceX14B rejects the golden trace")
    return [i - off for i in range(off + 1, len(all_tr) + 1) if i not in acc], len(ctl)


# ------------------------------------------------------------------ (b) configurations

def api_cfg(mode, depth, kinds, inits, emit, bug="none", maxblocks=9, maxchanges=9):
    out = ["CONSTANTS", '  AMode = "%s"' % mode, "  ADepth = %d" % depth, "  AMaxBlocks = %d" % maxblocks, "  AMaxChanges = %d" % maxchanges,
           "  AEmit = %s" % ("TRUE" if emit else "FALSE"), '  ABug = "%s"' % bug]
    out += ["  ANewKinds <- AAllNewKinds" if kinds is None else "  ANewKinds = {%s}" % ", ".join('"%s"' % k for k in kinds)]
    out += ["  AInits = {%s}" % ", ".join('"%s"' % k for k in inits), "SPECIFICATION ASpec", "CHECK_DEADLOCK FALSE"]
    out += ["INVARIANT " + i for i in API_INVS] + ["PROPERTY " + p for p in API_PROPS]
    if emit:
        out += ["INVARIANT AEmitCase"]
    if mode == "closed":
        out += ["VIEW AView"]
    return "\n".join(out) + "\n"


# ------------------------------------------------------------------ (b) spec -> code

class Memo(object):
    """rendered lines per abstract block, from the cases in which the block was on top (or initial)"""

    def __init__(self):
        self.lines = {}

    def learn(self, case):
        for eb in case["obs"]["bl"]:
            rd = eb["rd"]
            if rd["miss"] != "memo":
                self.lines[A.block_key(eb)] = rd["lines"] if rd["ok"] else None

    def expected_lines(self, case):
        """per block of the case: lines or None (cannot be rendered); raises KeyError when a block was never seen on top"""
        return [self.lines[A.block_key(eb)] for eb in case["obs"]["bl"]]


_TABLES = {}


def table(tseed, stress):
    """payload tables are shared by many cases (building one costs dpkg calls and big strings)"""
    if (tseed, stress) not in _TABLES:
        _TABLES[(tseed, stress)] = A.Table(tseed, stress, verify=tseed % 4 == 0)
    return _TABLES[(tseed, stress)]


def play_api_case(case, init_lines, lower, seed, stress, form, tseed=0):
    """replay one CASE history -> None or message.  init_lines: TLC's rendering of the initial changelog (pieces);
    lower: rendered lines (or None) of every block of the final state."""
    from debian import changelog as C
    tab = table(tseed, stress)
    rng = random.Random("x14play-%s" % seed)
    try:
        _prime_keys(tab, case)
        enc = case["enc"]
        if case["init"] == "empty":
            how = rng.randrange(4)
            if enc == "utf-8" and how == 0:
                cl = C.Changelog()
            elif how == 1:
                cl = C.Changelog(encoding=enc)
            elif how == 2:
                cl = C.Changelog(None, encoding=enc)
            else:
                cl = C.Changelog(file=None, max_blocks=None, allow_empty_author=False, strict=True, encoding=enc)
        else:
            text = tab.text(init_lines)
            src = A.cc.make_source(text, form, "utf-8")
            if rng.random() < 0.7:
                cl = C.Changelog(src, strict=True)
            else:
                cl = C.Changelog()
                cl.parse_changelog(src)
        for i, c in enumerate(case["hist"]):
            r = A.apply_call(cl, c, tab, rng)
            e = case["res"][i]
            if r != e and not (e == "err:any" and r.startswith("err:")):
                return "call %d %s: result %s, the specification says %s" % (i + 1, describe_call(c, tab), r, e)
        first = A.observe(cl, tab, rng)
        msg = A.compare(case["obs"], first, tab, lambda i: lower[i])
        if msg:
            return "after %s: %s" % (describe_hist(case, tab), msg)
        A.mutate_handouts(cl)
        second = A.observe(cl, tab, rng)
        msg = A.compare(case["obs"], second, tab, lambda i: lower[i])
        if msg:
            return "after %s, asked a second time after editing what the first answers handed out: %s" % (describe_hist(case, tab), msg)
    except AssertionError:
        raise
    except Exception as e:      # noqa: BLE001
        if not core.raised_by_code_under_test(e):
            raise
        import traceback
        return "after %s: unexpected %s from the library: %s" % (describe_hist(case, tab), type(e).__name__, traceback.format_exc().strip().splitlines()[-3:])
    return None


def _prime_keys(tab, case):
    def visit(kv):
        for p in kv:
            tab.key(p["k"]["s"], p["k"]["cls"])
    for c in case["hist"]:
        if c["op"] == "new_block" and c["a"]["kv"]["g"]:
            visit(c["a"]["kv"]["x"])
    for eb in case["obs"]["bl"]:
        for e in eb["nk"]:
            tab.key(e["k"], e["c"])


def describe_call(c, tab):
    if c["op"] == "new_block":
        given = {A.ARG_KW[f]: (c["a"][f]["x"]["s"] if f == "vr" else c["a"][f]["x"]) for f in A.ARG_KW if c["a"][f]["g"]}
        return "new_block(%s)" % ", ".join("%s=%s" % (k, json.dumps(v)[:60]) for k, v in given.items())
    if c["op"] == "set":
        return "set_%s(%r)" % (A.FIELD_ATTR[c["f"]], tab.s[c["v"]][:60])
    if c["op"] == "set_version":
        return "set_version(%r)" % tab.s[c["v"]["s"]][:60]
    return "add_change(%r)" % tab.s[c["v"]["s"]][:60]


def describe_hist(case, tab):
    return "Changelog(%s) + %s" % ({"empty": "", "one": "<text of 1 block>", "two": "<text of 2 blocks>"}[case["init"]],
                                   "; ".join(describe_call(c, tab) for c in case["hist"]) or "no call")


def learn_cases(path, memo):
    """first pass over an emission: what TLC renders for every block that is on top of some history (the whole
    changelog for the initial ones) -> (number of cases, rendered initial texts, one sample case)"""
    init_lines, n, sample = {"shallow": set()}, 0, None
    for c in iter_lines(path, "CASE"):
        n += 1
        memo.learn(c)
        if len(c["hist"]) < 2:
            init_lines["shallow"].add(n - 1)
        if not c["hist"] and all(eb["rd"]["ok"] for eb in c["obs"]["bl"]):
            init_lines[c["init"]] = [ln for eb in c["obs"]["bl"] for ln in eb["rd"]["lines"]]
        if sample is None and len(c["hist"]) == 2 and c["hist"][0]["op"] == "new_block" and c["hist"][1]["op"] == "add_change":
            sample = c
    return n, init_lines, sample


def replay_api_cases(ctx, path, init_lines, memo, rng, quick, stride=1, offset=0):
    """second pass: all (or every stride-th) CASE histories of one emission are replayed"""
    n = 0
    forms = list(A.cc.BASE_TEXT + A.cc.BASE_LINES)
    shallow = init_lines["shallow"]
    want = (lambda i: stride <= 1 or i in shallow or (i + offset) % stride == 0)
    for i, case in enumerate(iter_lines(path, "CASE", want)):       # i: rotates payload tables, stress and input forms
        try:
            lower = memo.expected_lines(case)
        except KeyError:
            raise core.MachineryError("X14: a block of a CASE was never rendered by TLC on top of a shorter history")
        stress = 0 if i % 5 < 3 else 1 if i % 5 == 3 else 2
        if quick and stress == 2 and i % 3:
            stress = 1
        seed = rng.getrandbits(32)
        form = forms[i % len(forms)]
        tseed = ctx.seed * 100 + (i // 7) % (12 if quick else 40)
        msg = play_api_case(case, init_lines.get(case["init"]), lower, seed, stress, form, tseed)
        n += 1
        ctx.case_seen(("api", case["init"], case["enc"], json.dumps(case["hist"], sort_keys=True)), True)
        if msg:
            ctx.violation({"kind": "api_case", "case": case, "init_lines": init_lines.get(case["init"]), "lower": lower, "seed": seed,
                           "stress": stress, "form": form, "tseed": tseed}, msg)
            if len(ctx.violations) >= 5:
                break
    return n


# ------------------------------------------------------------------ (b) code -> spec

def validate_api_traces(ctx, recs, controls=True):
    """-> (rejected trace numbers (1-based), render mismatches [(trace number, event, message)], number of controls)"""
    traces = [r.trace for r in recs]
    ctl = []
    if controls:
        ctl += A.STATIC_CONTROLS
        for how in A.CORRUPTIONS:
            for t in traces:
                c = A.corrupt_trace(t, how)
                if c:
                    ctl.append(c)
                    break
    import tempfile
    fd, fd_path = tempfile.mkstemp(prefix="x14a-", suffix=".json", dir=ctx.work)
    os.close(fd)
    with open(fd_path, "w") as f:
        f.write(json.dumps(traces + ctl))
    r = ctx.tlc("TraceX14A", "TraceX14A.cfg", workers=1, env={"TRACE_FILE": fd_path, "TRACE_DIAG": "0"}, keep_raw=True, want_tags={"ACCEPTED"})
    if r.violated:
        raise core.MachineryError("trace module TraceX14A reported %s\n%s" % (r.violated, r.tail))
    acc = set(v if isinstance(v, int) else v[0] for v in r.printed.get("ACCEPTED", []))
    nreal = len(traces)
    bad = [i for i in acc if i > nreal]
    if bad and all(i in acc for i in range(1, nreal + 1)):
        raise core.MachineryError("TraceX14A accepted %d corrupted control trace(s): binding is vacuous" % len(bad))
    ctx.extra["negative_controls_rejected"] = ctx.extra.get("negative_controls_rejected", 0) + len(ctl)
    mism = []
    head = '<<"RENDER", '
    with open(r.raw_path, errors="replace") as f:
        for line in f:
            if not line.startswith(head):
                continue
            a, b, rest = line[len(head):].split(", ", 2)
            tid, l = int(a), int(b)
            if tid > nreal:
                continue
            exp = json.loads(rest[1:-4].replace('\\"', '"').replace("\\\\", "\\"))
            rec = recs[tid - 1]
            form, got = rec.texts[l]
            names = rec.it.strings()
            text = "".join("".join(names.get(p[1:], "<?%s>" % p[1:]) if p[0] == "$" else p[1:] for p in ln) + "\n" for ln in exp["lines"])
            if form == "bytes":
                try:
                    want = text.encode(exp["en"])
                except UnicodeEncodeError:
                    want = ("err", "UnicodeEncodeError")
            else:
                want = text
            if got != want:
                mism.append((tid, l, "%s form of %s: observed %s, the specification renders %s" % (
                    form, "the changelog" if rec.trace["events"][l - 1]["i"] == 0 else "block %d" % rec.trace["events"][l - 1]["i"],
                    repr(got)[:300], repr(want)[:300])))
    drop_raw(r)
    os.unlink(fd_path)
    rejected = [i for i in range(1, nreal + 1) if i not in acc]
    return rejected, mism, len(ctl)


def first_unexplained(ctx, rec):
    fd_path = os.path.join(ctx.work, "x14a-diag.json")
    with open(fd_path, "w") as f:
        f.write(json.dumps([rec.trace]))
    r = ctx.tlc("TraceX14A", "TraceX14A.cfg", workers=1, env={"TRACE_FILE": fd_path, "TRACE_DIAG": "1"}, want_tags={"AT", "ACCEPTED"}, count=False)
    at = max([v[1] for v in r.printed.get("AT", [])] or [0])
    return at


class Rec(object):
    def __init__(self, seed, size):
        self.seed, self.size = seed, size
        r = A.Recorder(seed, size)
        self.trace = r.run()
        self.texts, self.it = r.texts, r.it


def describe_event(rec, at):
    evs = rec.trace["events"]
    if at >= len(evs):
        return "(end of history)"
    names = rec.it.strings()
    e = evs[at]

    def show(x):
        if isinstance(x, str):
            return repr(names.get(x, x))[:80]
        if isinstance(x, list):
            return "[" + ", ".join(show(y) for y in x[:8]) + "]"
        if isinstance(x, dict):
            return "{" + ", ".join("%s: %s" % (k, show(v)) for k, v in list(x.items())[:12]) + "}"
        return repr(x)
    body = {k: v for k, v in e.items() if k not in ("st",)}
    s = "event %d on object %d: %s" % (at + 1, e["o"], show(body))
    if "st" in e:
        s += "; blocks afterwards: " + show(e["st"][:3])[:700]
    return s


# ------------------------------------------------------------------ the check

def run(ctx):
    quick = ctx.tier == "quick"
    rng = ctx.rng
    ctx.import_repo()
    tm = ctx.extra.setdefault("phase_wall_s", {})
    t0 = time.time()
    ctx.assumptions += [
        "model scope (a): anchors = one shortest word per state of the product automaton, + <= %d pieces out of 23; texts of the recorded histories are unbounded" % (2 if quick else 3),
        "model scope (b): histories of <= %d calls (all 23 new_block variants) / <= %d calls (%d variants); closed model with <= 2 blocks, <= 2 (3) change lines" % ((2, 3, 4) if quick else (3, 4, 2)),
        "domain: see STATEMENT; version equality classes of the payload pool are checked with dpkg --compare-versions",
        "trusted: TLC, dpkg, Python codecs (bytes() = text.encode(encoding)), the harness' character classification (abstract / classes_of_key)",
    ]
    pool = ThreadPoolExecutor(max_workers=4)
    W = 4

    # ---- TLC jobs
    def lts():
        r = ctx.tlc_must_hold("BugsClosed", bug_cfg("lts", 0, True), workers=1, keep_raw=True, want_tags=set())
        edges = read_lines(r.raw_path, "EDGE")
        drop_raw(r)
        return r, edges

    def bnd(bndfile, tail, emit, bug="none"):
        cfg = bug_cfg("bnd", tail, emit, bug, invs=(bug == "none"))
        if bug != "none":
            r = ctx.tlc("BugsClosedMC", cfg, workers=2, env={"X14_BND": bndfile}, count=False, want_tags=set())
            if r.violated != "AutomatonIsGrammar":
                raise core.MachineryError("negative control BBug=%s: TLC reported %r, expected a violation of AutomatonIsGrammar" % (bug, r.violated))
            return r
        r = ctx.tlc_must_hold("BugsClosedMC", cfg, workers=W, env={"X14_BND": bndfile}, keep_raw=True, want_tags=set())
        cases = read_lines(r.raw_path, "CASE")
        drop_raw(r)
        return r, cases

    def api_emit(cfg):
        return ctx.tlc_must_hold("ChangelogApi", cfg, workers=W, keep_raw=True, want_tags=set())

    def api_closed(bug="none", prop=None):
        kinds = ["full", "empty", "no_vr", "keys34"] if quick or bug != "none" else ["full", "empty", "no_vr", "only_vr", "no_au", "keys34"]
        cfg = api_cfg("closed", 0, kinds, ["empty", "one"], False, bug, maxblocks=2, maxchanges=2 if quick or bug != "none" else 3)
        if bug == "none":
            return ctx.tlc_must_hold("ChangelogApi", cfg, workers=W)
        r = ctx.tlc("ChangelogApi", cfg, workers=2, count=False)
        if r.violated != prop:
            raise core.MachineryError("negative control ABug=%s: TLC reported %r, expected a violation of %s" % (bug, r.violated, prop))
        return r

    f_lts = pool.submit(lts)
    f_h2 = pool.submit(api_emit, api_cfg("hist", 2 if quick else 3, None, ["empty", "two"], True))
    f_h3 = pool.submit(api_emit, api_cfg("hist", 3, REDUCED, ["empty", "one"], True) if quick else
                       api_cfg("hist", 4, ["full", "empty"], ["empty"], True))

    # ---- record histories while TLC runs
    t1 = time.time()
    nb_tr = (260, 30, 8) if quick else (1500, 200, 40)
    bug_traces, bug_seeds = [], []
    for stress, cnt in enumerate(nb_tr):
        for _ in range(cnt):
            s = rng.getrandbits(32)
            try:
                bug_traces.append(record_bug_trace(s, stress))
                bug_seeds.append((s, stress))
            except Exception as e:      # noqa: BLE001
                if not core.raised_by_code_under_test(e):
                    raise
                if len(ctx.violations) < 5:
                    ctx.violation({"kind": "bug_trace", "seed": s, "stress": stress}, "unexpected %s from the library while recording: %s" % (type(e).__name__, e))
    plan = ["small"] * (300 if quick else 2000) + ["blocks"] * (2 if quick else 8) + ["lines"] * (3 if quick else 12)
    recs = []
    for size in plan:
        s = rng.getrandbits(32)
        try:
            recs.append(Rec(s, size))
        except Exception as e:      # noqa: BLE001
            if not core.raised_by_code_under_test(e):
                raise
            import traceback
            if len(ctx.violations) < 5:
                ctx.violation({"kind": "api_trace", "seed": s, "size": size},
                              "unexpected %s from the library while recording a history: %s" % (type(e).__name__, traceback.format_exc().strip().splitlines()[-3:]))
    tm["record"] = round(time.time() - t1, 1)

    # ---- (a) anchors -> bounded run
    r_lts, edges = f_lts.result()
    word = anchors_from(edges)
    if len(word) < 20 or len(edges) != len(word) * 17:
        raise core.MachineryError("X14: the product automaton has %d states / %d edges" % (len(word), len(edges)))
    bndfile = os.path.join(ctx.work, "x14-bnd.json")
    with open(bndfile, "w") as f:
        json.dump({"anchors": [list(a) for a in sorted(set(word.values()))], "pieces": [list(p) for p in PIECES]}, f)
    f_bnd = pool.submit(bnd, bndfile, 2 if quick else 3, True)
    bug_neg = BUG_NEG[:2] if quick else BUG_NEG          # "shortest" needs the long anchors: thorough only
    f_neg = [pool.submit(bnd, bndfile, 2, False, b) for b in bug_neg]
    f_closed = pool.submit(api_closed)
    f_aneg = [pool.submit(api_closed, b, p) for b, p in API_NEG]
    bsz = 400
    vpool = ThreadPoolExecutor(max_workers=2)
    f_vb = vpool.submit(validate_bug_traces, ctx, bug_traces)
    f_va = [(i, vpool.submit(validate_api_traces, ctx, recs[i:i + bsz])) for i in range(0, len(recs), bsz)]

    # ---- (b) spec -> code
    t2 = time.time()
    memo = Memo()
    r_h2 = f_h2.result()
    n2, init2, c = learn_cases(r_h2.raw_path, memo)
    n_api = 0
    if len(ctx.violations) < 5:
        n_api += replay_api_cases(ctx, r_h2.raw_path, init2, memo, rng, quick, stride=1 if quick else 4, offset=ctx.seed)
    r_h3 = f_h3.result()
    n3, init3, _ = learn_cases(r_h3.raw_path, memo)
    if len(ctx.violations) < 5:
        n_api += replay_api_cases(ctx, r_h3.raw_path, init3, memo, rng, quick, stride=4, offset=ctx.seed)
    drop_raw(r_h2)
    drop_raw(r_h3)
    tm["api_replay"] = round(time.time() - t2, 1)
    ctx.extra["api_cases"] = {"hist_all_kinds": n2, "hist_reduced": n3, "replayed": n_api}
    if n2 != r_h2.distinct or n3 != r_h3.distinct:
        raise core.MachineryError("X14: %d / %d CASE lines for %d / %d histories" % (n2, n3, r_h2.distinct, r_h3.distinct))
    if c:
        ctx.sample("api case: " + json.dumps({"init": c["init"], "hist": [describe_call(x, table(0, 0)) for x in c["hist"]], "res": c["res"],
                                              "top": c["obs"]["top"][:6], "render": c["obs"]["bl"][0]["rd"]["lines"][:1] if c["obs"]["bl"] else []},
                                             separators=(",", ":"))[:900])

    # ---- (a) spec -> code
    t3 = time.time()
    r_bnd, bcases = f_bnd.result()
    n_bug = 0
    if len(ctx.violations) < 5:
        n_bug = replay_bug_cases(ctx, bcases, rng, quick)
    tm["bug_replay"] = round(time.time() - t3, 1)
    ctx.extra["bug_cases"] = {"texts": len(bcases), "with_numbers": sum(1 for c in bcases if c["c"] or c["l"]),
                              "unspecified": sum(1 for c in bcases if c["uc"] or c["ul"]), "concretizations": n_bug,
                              "product_states": len(word), "lts_edges": len(edges)}
    for c in bcases:
        if len(c["c"]) >= 2 and c["l"] == [] and "n" in c["t"]:
            ctx.sample("bug case: " + json.dumps(c, separators=(",", ":")))
            break

    # ---- verdicts of the trace validations
    t4 = time.time()
    rej, nctl = f_vb.result()
    for i in rej:
        if len(ctx.violations) >= 5:
            break
        s, stress = bug_seeds[i - 1]
        ctx.violation({"kind": "bug_trace", "seed": s, "stress": stress},
                      "recorded bugs_closed / lp_bugs_closed history not explained by BugsClosed: " + describe_bug_trace(ctx, bug_traces[i - 1]))
    nrej = len(rej)
    nctl_a = 0
    for base, f in f_va:
        rejected, mism, nc = f.result()
        nctl_a += nc
        for i in rejected:
            nrej += 1
            if len(ctx.violations) >= 5:
                continue
            rec = recs[base + i - 1]
            at = first_unexplained(ctx, rec)
            ctx.violation({"kind": "api_trace", "seed": rec.seed, "size": rec.size, "first_unexplained_event": at + 1},
                          "recorded history not explained by ChangelogApi (after %d accepted events): %s" % (at, describe_event(rec, at)))
        for tid, l, msg in mism:
            if tid in rejected or len(ctx.violations) >= 5:
                continue
            rec = recs[base + tid - 1]
            ctx.violation({"kind": "api_trace", "seed": rec.seed, "size": rec.size, "render_event": l}, "recorded history, event %d: %s" % (l, msg))
    tm["validate_wait"] = round(time.time() - t4, 1)
    r_closed = f_closed.result()
    ctx.extra["negative_controls_spec"] = ["BBug=%s -> AutomatonIsGrammar" % b for b, f in zip(bug_neg, f_neg) if f.result()] + \
                                          ["ABug=%s -> %s" % (b, p) for (b, p), f in zip(API_NEG, f_aneg) if f.result()]
    pool.shutdown()
    vpool.shutdown()
    ctx.traces += n_api + n_bug + len(bug_traces) + len(recs)
    ctx.extra["traces"] = {"bug_histories": len(bug_traces), "bug_observations": sum(len(t) for t in bug_traces),
                           "api_histories": len(recs), "api_events": sum(len(r.trace["events"]) for r in recs),
                           "rejected": nrej, "control_traces": nctl + nctl_a}
    ctx.extra["models"] = {"bugs_lts": {"states": r_lts.distinct, "edges": len(edges)}, "bugs_bnd": {"states": r_bnd.distinct, "wall_s": round(r_bnd.wall, 1)},
                           "api_hist_all": {"states": r_h2.distinct, "wall_s": round(r_h2.wall, 1)},
                           "api_hist_reduced": {"states": r_h3.distinct, "wall_s": round(r_h3.wall, 1)},
                           "api_closed": {"states": r_closed.distinct, "generated": r_closed.generated, "wall_s": round(r_closed.wall, 1)}}
    if recs:
        e = recs[0].trace["events"]
        ctx.sample("recorded api history (first events): " + json.dumps([{k: v for k, v in x.items() if k != "st"} for x in e[:3]], separators=(",", ":"))[:500])
    if bug_traces:
        ctx.sample("recorded bug history: " + json.dumps({"t": "".join(bug_traces[0][0]["t"])[:120], "c": bug_traces[0][0]["c"][:4], "l": bug_traces[0][0]["l"][:4]}, separators=(",", ":")))
    tm["total"] = round(time.time() - t0, 1)
    tm["python_cpu"] = round(time.process_time(), 1)        # the serial part (TLC runs are child processes)
    for k in KNOWN:
        if ctx.extra.get("known_hits", {}).get(k["id"]):
            print("KNOWN-FINDING: extra=X14 %s (%d occurrences; id=%s)" % (k["signature"], ctx.extra["known_hits"][k["id"]], k["id"]))


def describe_bug_trace(ctx, t):
    for n in range(1, len(t) + 1):
        rej, _ = validate_bug_traces(ctx, [t[:n]], controls=False)
        if rej:
            e = t[n - 1]
            return "observation %d: change lines (as symbols) %r, bugs_closed %s, lp_bugs_closed %s" % (
                n, "".join(e["t"])[:400], ["".join(x) for x in e["c"]][:20], ["".join(x) for x in e["l"]][:20])
    return "(whole history)"


def replay(ctx, case):
    ctx.import_repo()
    kind = case.get("kind")
    if kind == "bug_case":
        return play_bug_case(B.Driver(), case["case"], case["seed"], case["stretch"], case["repeat"], case["hb"], case["ha"])
    if kind == "api_case":
        return play_api_case(case["case"], case["init_lines"], case["lower"], case["seed"], case["stress"], case["form"], case.get("tseed", 0))
    if kind == "bug_trace":
        try:
            t = record_bug_trace(case["seed"], case["stress"])
        except Exception as e:      # noqa: BLE001
            if not core.raised_by_code_under_test(e):
                raise
            return "unexpected %s from the library while recording" % type(e).__name__
        rej, _ = validate_bug_traces(ctx, [t], controls=False)
        return ("history still not explained by BugsClosed: " + describe_bug_trace(ctx, t)) if rej else None
    if kind == "api_trace":
        try:
            rec = Rec(case["seed"], case["size"])
        except Exception as e:      # noqa: BLE001
            if not core.raised_by_code_under_test(e):
                raise
            return "unexpected %s from the library while recording the history" % type(e).__name__
        rejected, mism, _ = validate_api_traces(ctx, [rec], controls=False)
        if rejected:
            at = first_unexplained(ctx, rec)
            return "history still not explained by ChangelogApi: " + describe_event(rec, at)
        if mism:
            return "event %d: %s" % (mism[0][1], mism[0][2])
        return None
    return "unknown case kind"
