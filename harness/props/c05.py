"""C05 -- edits through the format-preserving parser's dict interface are local and read back.

spec:     spec/ReproDoc.tla restricted to the dict interface (Ops = get/set/del): assignment
          replaces the first occurrence keeping its spelling and comment (dropping other
          occurrences), adds an absent field at the end of its paragraph, deletion removes the
          field's lines only; start documents F/F2 put the edited paragraph between context
          paragraphs and free comments (spec/MC_ReproDoc.tla)
binding:  (a) complete LTS replayed into debian._deb822_repro: after every call dump() must equal
              the concatenation of the untouched original texts and the new field text (locality),
              and the value is read back under every case variant, also from a fresh parse
          (b) recorded get/set/del histories on random documents validated by TraceReproDoc.tla
"""
import repro_common as rc

MANIFEST = dict(
    technique="TLA+ spec ReproDoc restricted to the dict interface, model-checked by TLC over closed configurations (edited paragraph between context paragraphs and comments); complete LTS replayed into the format-preserving parser; recorded histories validated by TLC (TraceReproDoc)",
    text="Locality is decided literally: the expected dump after each set/add/delete is the concatenation of the byte-identical original texts of all untouched fields, comments and separators with the new field's text at the model's position (an added field last in its paragraph, a replaced field in place with its own comment lines and original spelling), modulo the one permitted final newline; read-back is checked through every case variant of the key on the live object and on a fresh parse of the dump. TLC enumerates every reachable state of the closed configurations (unique and duplicated fields, single- and multi-line new values, both spellings) and the harness replays every transition (quick: a seeded sample) and random walks over many layouts (tabs, value on next line, inner comments, non-ASCII, with/without final newline); random histories on random documents are validated by TLC.",
    note="Small-scope: 3 names, 3-field paragraphs; layouts and values sampled per replay. The exact formatting of a newly written value is a diagnostic, the verdict needs name, kept comment, read-back value and untouched surroundings. Trusted: TLC, concretizer, projection by text lookup.",
    design="5 (C05)")

OPS = ["get", "set", "set", "set", "del"]


def run(ctx):
    quick = ctx.tier == "quick"
    ctx.assumptions += [
        "closed configurations over 3 names with context paragraphs; layouts and values concretized per replay (seeded)",
        "dump compared modulo one newline at the very end of the document",
        "deleting the only field of a paragraph is outside the domain",
    ]
    if quick:
        rc.lts_legs(ctx, [("MC_ReproDoc_F.cfg", (1, 2, 3), 2200, 80, 20, 1),
                          ("MC_ReproDoc_F2.cfg", (1, 2, 3), 2200, 80, 20, 1)])
        rc.trace_leg(ctx, 300, 20, OPS)
    else:
        rc.lts_legs(ctx, [("MC_ReproDoc_F.cfg", (1, 2, 3), 10 ** 9, 1500, 40, 3),
                          ("MC_ReproDoc_F2.cfg", (1, 2, 3), 10 ** 9, 1500, 40, 3)])
        rc.trace_leg(ctx, 6000, 30, OPS)


def replay(ctx, case):
    if case["kind"] == "path":
        return rc.replay_path_case(case)
    if case["kind"] == "trace":
        return rc.replay_trace_case(ctx, case)
    return "unknown case kind"
